#!/bin/bash
# run_seeded.sh <seeded-id> [property] [tier] : apply the seeded change to /repo, run the property's check, undo. Prints the verdict.
id=$1; prop=${2:-${id%%_*}}; tier=${3:-quick}
cd /verif
if [ -n "$(git -C /repo status --porcelain --untracked-files=no)" ]; then echo "/repo not clean"; exit 2; fi
P=/verif/seeded/$id/patch.diff; [ -f /verif/seeded/$id/patch_rebased.diff ] && P=/verif/seeded/$id/patch_rebased.diff; git -C /repo apply $P || { echo "patch does not apply"; exit 2; }
./check $prop --tier $tier > /tmp/scratch/seeded_${id}_${prop}.log 2>&1; rc=$?
git -C /repo checkout -- .
echo "$id on $prop: exit=$rc $(grep -c '^VIOLATION' /tmp/scratch/seeded_${id}_${prop}.log) violation line(s): $(grep '^VIOLATION' /tmp/scratch/seeded_${id}_${prop}.log | head -1)"
exit 0
