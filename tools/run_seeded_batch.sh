#!/bin/bash
# run_seeded_batch.sh id[:prop[,prop..]] ... : run_seeded.sh for each (sequentially; /repo must be clean and no vp run active)
for spec in "$@"; do
  id=${spec%%:*}; props=${spec#*:}; [ "$props" = "$spec" ] && props=${id%%_*}
  for p in ${props//,/ }; do /verif/tools/run_seeded.sh $id $p; done
done
