#!/usr/bin/env python3
"""Summarise run_seeded_batch.sh logs: one line per seeded change with the verdict of each property check run against it."""
import re, sys, json, os, collections
res = collections.OrderedDict()
for path in sys.argv[1:]:
    for line in open(path):
        m = re.match(r'(\S+) on (C\d+): exit=(\d+) (\d+) violation line\(s\):\s*(.*)', line.strip())
        if m:
            sid, prop, rc, nv, rest = m.groups()
            verdict = "MISSED" if nv == "0" else ("no-failing-input" if "no-failing-input-found" in rest else "failing-input")
            res.setdefault(sid, {})[prop] = verdict
bad = 0
for sid, d in res.items():
    own = sid.split("_")[0] if not sid.startswith("R_") else None
    caught = any(v != "MISSED" for v in d.values())
    if not caught:
        bad += 1
    print("%-10s %s%s" % (sid, "  ".join("%s:%s" % kv for kv in d.items()), "" if caught else "   <== NOT DETECTED"))
print("%d seeded changes, %d not detected by any check run against them" % (len(res), bad))
