#!/usr/bin/env python3
"""Regenerates /verif/MANIFEST.json from the table below (only properties with a vp/props/Cxx.py driver are claimed)."""
import json, os
V = os.path.dirname(os.path.dirname(os.path.abspath(__file__)))
props = [json.loads(l) for l in open(os.path.join(V, "properties.jsonl"))]
T_SCHED = "Coq theorems over an executable scheduler model; bit-exact model/implementation correspondence (vm_compute at binary64); direct oracle for failing inputs"
T_GEN_K = "Coq theorems over kernels regenerated from the Python AST on every run (T1) + reference equality proofs; correspondence at binary64; definition oracle"
T_GEN_A = "Coq theorems over the attribute table regenerated from __getattr__ on every run (T2); table cross-checked against real results; direct oracle"
T_HAND = "Coq theorems over a hand-written executable model; model/implementation correspondence by vm_compute; direct oracle for failing inputs"
C = {
 "C01": ("Each of the 12 Numba/CUDA kernels, regenerated from source, is proved equal to a reference for any carrier, and the reference at R equals the windowed-DFT definition (Goertzel = e^{iw(L-1)} X); NumPy fallbacks via a hand model tied by correspondence.", "7/C01",
         "float rounding of the recurrence budgeted not proved; cos/sin, LAPACK QR are oracles; CUDA run in the simulator only; T1 front end trusted to refuse what it does not understand", T_GEN_K),
 "C02": ("Theorems at R for the lpsd/ltf/vectorized/new_ltf scheduler models: every bin of every admissible plan is safely and completely segmented, for every fuel and oracle value; model tied to speckit/schedulers.py by bit-exact binary64 correspondence; direct oracle on all four schedulers and on SpectrumAnalyzer.plan().", "7/C02",
         "binary64 vs real arithmetic in integer decisions measured not proved; libm pow/exp/log and np.logspace are oracle tables recorded from the implementation's own run", T_SCHED),
 "C03": ("Structural theorems for an arbitrary carrier (bit-exact at binary64): f[j+1]=f[j]+r[j], r=fs/L, b=f/r; real-number theorems for r*L=fs, start, monotonicity, Nyquist and the bmin rounding slack.", "7/C03",
         "vectorised and new_ltf bmin slack by direct oracle only; b and f0 compared within 4 ulp", T_SCHED),
 "C04": ("Theorems: K nearest integer (capped), starts within half a sample, reported overlap = realised overlap, log spacing where unclamped, Jdes search sound and terminating for any scheduler behaviour, forced plans exact.", "7/C04",
         "monotonicity of L/K is proved for ltf/lpsd and for the vectorised planner (any sorted positive grid); K>=Kdes under the attainability condition is proved for ltf/lpsd; new_ltf monotonicity and the 10% vectorised/iterative agreement (an empirical statement) are decided by the oracle sweep", T_SCHED),
 "C06": ("ENBW, power-spectrum and density normalisation, channel-scaling and fs-relabelling laws proved on the regenerated attribute table; window sums, scaling laws and sinusoid calibration checked on real analyses.", "7/C06",
         "the sinusoid response and |ps/(A^2/2)-1| <= 2rho+rho^2 (rho = |W(2w0)|/S1) are proved for any real window (Sinusoid.v); PARTIAL: that rho is below 10^(-P/20) for a Kaiser window is the side-lobe claim of C12, swept not proved", T_GEN_A),
 "C09": ("coherence in [0,1] from Cauchy-Schwarz, coherence 1 when |XY|^2=XX*YY, swap symmetry, GyyCx+GyyRx=Gyy, GyySx=Gyy(1-coh), auto-in-pair — proved on the regenerated table.", "7/C09",
         "Cauchy-Schwarz is proved for the statistics returned by the regenerated cross kernels (KernelCS.v); float coherence may exceed 1 by rounding (1e-12 allowed)", T_GEN_A),
 "C10": ("Each *_dev/*_error of the regenerated table equals the Bendat-Piersol expression; dev = estimate x error; 1/sqrt(n) scaling; magnitude error <= phase error <= pi/2 x magnitude error (Jordan's inequality proved), both vanishing at coherence 1.", "7/C10",
         "PARTIAL: agreement with the observed spread over independent realisations is statistical (Monte-Carlo sweep in the thorough tier), not a theorem", T_GEN_A),
 "C11": ("Empirical variance/deviation and their spectral-unit scaling proved on the regenerated table; M2=0 for one segment on the regenerated reducer; M2 = population variance checked against per-segment kernel calls.", "7/C11",
         "agreement with analytic deviations for Gaussian data is statistical (not proved)", T_GEN_A),
 "C05": ("The dispatch of _lpsd_core/compute_single_bin is re-extracted from source on every run (T3) and checked exhaustively in Coq (48 paths: kernel of the order/mode/backend, argument order, omega from f, DFT-even Kaiser); cache transparency and band alignment proved; recorded kernel calls of real analyses compared with the model; independent reference on sampled bins.", "7/C05",
         "window functions and the QR basis are rebuilt with the same library calls; the reference estimator is evaluated in extended precision on sampled bins", "Coq check of the dispatch table regenerated from source (T3) + recorder correspondence + reference oracle"),
 "C07": ("Gain and negative-phase-for-lag theorems on the regenerated attribute table; per-segment gain/linearity lemmas on the kernels; Numba, CUDA and NumPy cross kernels proved equal to one definition (sign included).", "7/C07",
         "PARTIAL: the d/L edge effect for arbitrary records is swept with a 0.35 rad allowance (gain statistics are proved for all detrend modes)", T_GEN_K),
 "C08": ("Order-0 detrending proved to remove constants exactly and orders 1,2 proved to remove every combination of orthonormal basis columns (own coefficients per channel and segment) on the regenerated Numba kernels; order -1 raw by definition.", "7/C08",
         "orders 1,2 are proved for any basis with orthonormal columns (DetrendPoly.v); that LAPACK QR returns such a basis spanning 1,t,t^2 is a contract validated numerically every run; 'degree p+1 does change it' is decided by the sweep against the definition", T_GEN_K),
 "C12": ("alpha(psll) proved strictly increasing; the DFT-even Kaiser construction is re-extracted from source (T3) and checked; kaiser_alpha tied bit-exactly; side-lobe level swept on the implementation with the property's own P-1 dB threshold.", "7/C12",
         "PARTIAL: the Kaiser-Bessel side-lobe bound is not a theorem (Bessel analysis over a continuum; no library support) — swept", T_HAND),
 "C13": ("Shape normalisation model (Ingest.v) proved layout-independent and tied by vm_compute correspondence; sanitising proved idempotent/finite at binary64; guarded divisions on the regenerated table; caller bytes, zero-filled equality, finiteness on real runs.", "7/C13",
         "NumPy aliasing is observed not modelled; the overflow/underflow of XX*YY for |x| ~ 1e120 / 1e-150 (F11) was repaired in /repo (ab4ef91) and is kept as a regression family", T_HAND),
 "C14": ("Any interleaving of a loop writing only slot j is deterministic (Race theorem) and T1's effect summaries show all 12 parallel kernels have that form; plan-cache and attribute-cache histories proved equivalent to fresh objects; thread/chunk sweep, random histories and access orders on the implementation.", "7/C14",
         "Numba's scheduler and memory model are not modelled (theorem is about the effect summary extracted from source)", "Coq theorems (schedule/history independence) + effect summary regenerated from source + sweeps"),
 "C15": ("The residual expression with the code's index/conjugate pairing is proved, for any number of inputs q and any number of accumulated segments, equal to sum_k |Y_k - sum_i conj(H_i) X_ik|^2 for any H (real, >= 0 whatever the solver returns); at any solution of the code's system T H = S it equals S00 - sum_k|model_k|^2 and lies in [0, S00]; a solution minimises the residual, so all solutions (analytic/numeric, solve/pinv) give the same residual and invertible re-mixing leaves it unchanged; exact combinations give 0; input order irrelevant; the one-input residual equals S00 - |S10|^2/T11. Source pairing checked by AST; solvers exercised for q = 1..3.", "7/C15",
         "theorems at exact real arithmetic; sympy/np.linalg solve are oracles (that they return a solution of T H = S, and the effect of rounding / ill-conditioning, are checked numerically on the implementation)", T_HAND),
 "C16": ("Taps model mirrors lagrange_taps operation for operation (bit-exact correspondence); integer shift = unit tap proved for every order; every tap = textbook Lagrange weight proved for all odd orders 1..111 and every real fraction (integer-polynomial identities decided per order, lifted to R); interpolation theory for any distinct nodes (roots theorem, cardinal basis) gives: the constant-shift path reproduces every polynomial of degree <= order at interior samples for any real shift, taps sum to one, integer shift = displacement with ends held, zero shift = identity; the time-varying path is modelled too (timeshift_var, correspondence 1e-11): it agrees with the constant path on interior stencils and reproduces polynomials; a shift beyond the start holds the first value (all theorems at exact arithmetic); record dtypes and the DataFrame wrapper by the oracle.", "7/C16",
         "np.correlate / einsum summation order and the edge padding are compared on the implementation (1e-11), not proved", T_HAND),
 "C17": ("Cascade and generator model for any carrier (bit-exact at binary64): filter state carried across blocks, any sequence of block requests = one request (samples and state); each DF2T section proved equal to the direct-form difference equation y[n]=a0 x[n]+a1 x[n-1]-b1 y[n-1] with the carried state its memory (exact arithmetic); tied by bit-exact correspondence with alpha/pink/red generators on the recorded white stream.", "7/C17",
         "numpy Generator.normal and scipy lfilter are oracles whose contracts are validated each run", T_HAND),
 "C18": ("Hermitian construction of fftnoise proved as an index map for every length; the inverse DFT of the constructed spectrum proved exactly real (so `.real` discards nothing) and the magnitudes proved equal to the prescribed ones for every length; section DC gain fmax/fmin, Nyquist gain 1, pole inside the unit circle and the closed-form |H|^2 proved; coefficients tied bit-exactly; power-law fit swept analytically.", "7/C18",
         "PARTIAL: 'within about 1 dB of f^-alpha' is an approximation statement, swept with a 2 dB allowance on the interior of the band", T_HAND),
 "C19": ("Trapezoid integral additive at grid points, monotone under band nesting, zero for point/empty bands; order-0 detrend orthogonal, idempotent, kills constants; for every order: residual of any normal-equation solution is orthogonal to all polynomials of degree <= p, unchanged by adding such a polynomial, zero on polynomials, idempotent (LeastSquares.v); integral_rms tied bit-exactly at binary64.", "7/C19",
         "detrend theorems for orders >= 1 hold for any solution of the normal equations (np.polyfit's contract, checked numerically each run); PARTIAL: the Parseval link between spectrum and time series is statistical (6% allowance)", T_HAND),
 "C20": ("asd^2=psd, ps=psd*ENBW, cs=csd*ENBW, cf=|Hxy|, cf_db, deg/rad, conjugates, aliases and the exact None table proved on the regenerated attribute table; interpolation, DataFrame export, copy/pickle by the direct oracle.", "7/C20",
         "interpolation / pandas export / Python copy protocol are exercised on real results, not modelled", T_GEN_A),
}
checks = []
for pid, (text, ref, note, tech) in C.items():
    if not os.path.exists(os.path.join(V, "vp", "props", pid + ".py")):
        continue
    checks.append({"property_id": pid, "quick_cmd": "./check %s --tier quick" % pid, "thorough_cmd": "./check %s --tier thorough" % pid,
                   "evidence_file": "/verif/evidence/%s.json" % pid, "replay_cmd_template": "./check %s --replay {path}" % pid, "engine": "coq-dev",
                   "level_claimed": {"category": "proof", "text": text, "design_ref": ref}, "level_note": note, "technique": tech})
claimed = {c["property_id"] for c in checks}
na = [{"property_id": p["id"], "reason": "check not built yet (work in progress; DESIGN.md section 7 gives the plan)"} for p in props if p["id"] not in claimed]
m = {"version": 1, "setup_cmd": "./setup.sh",
     "hooks": {"guard": "MDOVALE_SPECKIT_VERIF", "enable": "no source hooks: recorders are installed from the harness by rebinding module attributes; ./check exports the variable for uniformity",
               "baseline_off_cmd": "cd /repo && /venv/bin/python -m pytest -ra -q -p no:cacheprovider --timeout=900 --continue-on-collection-errors", "source_commits": [], "add_only": True},
     "engines": [{"name": "coq-dev", "path": "coq/", "serves_properties": sorted(claimed), "kind_free_text": "Coq 8.16 development: models, theorems, Properties/Cxx.v; gen/*.v regenerated from /repo on every run"},
                 {"name": "translators", "path": "vp/translate_kernels.py, vp/translate_attrs.py", "serves_properties": sorted(claimed & {"C01", "C06", "C09", "C10", "C11", "C20", "C07", "C08", "C14"}), "kind_free_text": "fail-closed Python-AST to Gallina translators"},
                 {"name": "correspondence", "path": "vp/", "serves_properties": sorted(claimed), "kind_free_text": "cases.v + vm_compute model evaluation vs implementation; direct property oracles for the failing-input search"}],
     "checks": checks, "not_applicable": na,
     "notes": "Machine-checked proof in Coq 8.16; see DESIGN.md. known_findings.json lists repaired defects (fix: commits in /repo) and the one recorded finding (F10)."}
json.dump(m, open(os.path.join(V, "MANIFEST.json"), "w"), indent=1)
print("claimed:", sorted(claimed))
