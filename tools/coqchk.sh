#!/bin/bash
# Re-check the compiled development with Coq's independent checker and record the axioms it reports (several minutes).
cd "$(dirname "$0")/../coq" && timeout 3600 coqchk -silent -o -Q . SK $(ls Properties/*.vo | sed 's#/#.#; s#\.vo$##; s#^#SK.#') > ../evidence/coqchk_axioms.txt 2>&1; tail -30 ../evidence/coqchk_axioms.txt
