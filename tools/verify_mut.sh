#!/bin/bash
# verify_mut.sh <mutdir> : confirm a seeded change in a scratch worktree: applies, demo fails with / passes without, test suite passes with it.
# Writes <mutdir>/verify.json
d=$(readlink -f "$1"); id=$(basename "$d"); wt=/tmp/vwt_$id
git -C /repo worktree remove --force $wt >/dev/null 2>&1
git -C /repo worktree add -q --detach $wt HEAD || exit 2
cd $wt
export PYTHONPATH=$wt NUMBA_ENABLE_CUDASIM=${NUMBA_ENABLE_CUDASIM:-0} PYTHONDONTWRITEBYTECODE=1
timeout 600 /venv/bin/python $d/demo.py > $d/demo_clean.log 2>&1; rc_clean=$?
git apply $d/patch.diff; rc_apply=$?
timeout 600 /venv/bin/python $d/demo.py > $d/demo_mut.log 2>&1; rc_mut=$?
timeout 1800 /venv/bin/python -m pytest -q -p no:cacheprovider --timeout=900 tests > $d/tests_mut.log 2>&1; rc_tests=$?
summary=$(tail -1 $d/tests_mut.log)
cd /; git -C /repo worktree remove --force $wt
printf '{"id":"%s","apply_rc":%d,"demo_clean_rc":%d,"demo_mut_rc":%d,"tests_rc":%d,"tests_summary":"%s","base_commit":"%s"}\n' "$id" $rc_apply $rc_clean $rc_mut $rc_tests "$summary" "$(git -C /repo rev-parse --short HEAD)" > $d/verify.json
cat $d/verify.json
