#!/bin/bash
# coqgoal.sh FILE LINE : show the proof state after line LINE of FILE (relative to /verif/coq)
cd /verif/coq; head -n $2 $1 > /tmp/scratch/_goal.v; echo "Show." >> /tmp/scratch/_goal.v
timeout 120 coqc -Q . SK /tmp/scratch/_goal.v 2>&1 | tail -${3:-40}
