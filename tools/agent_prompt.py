#!/usr/bin/env python3
"""Print the prompt given to a mutation sub-agent for one property (property text only, nothing from /verif's machinery)."""
import json, sys
pid = sys.argv[1]; wt = sys.argv[2]; avoid = sys.argv[3] if len(sys.argv) > 3 else ''
for l in open('/verif/properties.jsonl'):
    p = json.loads(l)
    if p['id'] == pid: break
print(f"""You are helping evaluate a verification effort for the Python library mdovale/SpecKit (spectral analysis: log-spaced LPSD/LTF schedulers, Goertzel kernels, PSD/CSD/coherence with error bars).
You have your own scratch git worktree of the repository at {wt} (work ONLY there; never touch /repo or /verif, and do not read anything under /verif).
Run Python as:  PYTHONPATH={wt} /venv/bin/python   (no network; nothing can be installed).
The existing test suite runs with:  cd {wt} && PYTHONPATH={wt} /venv/bin/python -m pytest -q -p no:cacheprovider --timeout=900 tests   (takes a few minutes; 99 tests pass on the unchanged tree).

Here is a semantic property of the library that is supposed to hold:

  Title: {p['title']}
  Statement: {p['statement']}
  Quantified over: {p['quantifier']['text']}
  Files involved: {', '.join(p['anchors']['files'])}

TASK: produce TWO different, independent changes (mutations) to the library source under {wt}/speckit that each BREAK this property while the code still imports/compiles and the ENTIRE existing test suite still passes. Make them realistic - the kind of subtle bug a refactor or an 'optimisation' could introduce - and make them need something specific to manifest (an unusual input or configuration, a particular branch, a multi-step sequence of operations, a boundary case, or two cooperating sites that each look fine alone), NOT something that ordinary use or the simplest call would expose at once. Do not touch the tests. Keep each change small (a few lines).{(' Earlier rounds already produced changes at these sites, so choose DIFFERENT sites and mechanisms: ' + avoid + '.') if avoid else ''}

For each mutation k in (1,2) write into {wt}/mut_k/ :
  - patch.diff : output of `git -C {wt} diff` for that mutation alone, relative to the unchanged HEAD (so that `git apply patch.diff` on a clean checkout reproduces it)
  - demo.py    : a small standalone program (run as PYTHONPATH=<tree> /venv/bin/python demo.py) that exits 0 on the unchanged tree and exits non-zero (printing what failed) on the mutated tree, demonstrating the property violation
  - note.txt   : 3-6 lines: what the change does, what it needs in order to manifest, what you ran
Verify yourself: (a) full test suite passes with the mutation applied, (b) demo.py fails with it and passes without it. Restore the worktree to clean HEAD (git checkout -- .) between mutations and at the end (leave only the untracked mut_1/ and mut_2/ directories).
Report back briefly: for each mutation one paragraph (what, where, how it manifests, test-suite result, demo result).""")
