(* LagrangeInterp.v — classical interpolation theory for the textbook Lagrange weights used in C16, for ANY number of distinct
   real nodes: a polynomial with at least as many distinct roots as coefficients vanishes identically; the Lagrange weights
   are a cardinal basis (1 at their own node, 0 at the others); hence sum_k w_k(x) q(x_k) = q(x) for every polynomial q with
   at most as many coefficients as there are nodes (degree <= n-1) — in particular the weights sum to one. *)
From Coq Require Import List Bool Reals Lra Lia Arith.
From SK Require Import Arith Lagrange.
Import ListNotations.
Open Scope R_scope.

Definition rpoly := list R.
Fixpoint reval (p : rpoly) (x : R) : R := match p with [] => 0 | a :: p' => a + x * reval p' x end.
Fixpoint radd (p q : rpoly) : rpoly :=
  match p, q with
  | [], _ => q
  | _, [] => p
  | a :: p', b :: q' => (a + b) :: radd p' q'
  end.
Definition rscale (c : R) (p : rpoly) : rpoly := map (fun a => c * a) p.
(* (a + b x) * p *)
Definition rmul_lin (a b : R) (p : rpoly) : rpoly := radd (rscale a p) (0 :: rscale b p).

Lemma reval_radd p : forall q x, reval (radd p q) x = reval p x + reval q x.
Proof. induction p as [|a p IH]; intros [|b q] x; cbn [radd reval]; try ring. rewrite IH. ring. Qed.
Lemma reval_rscale c p x : reval (rscale c p) x = c * reval p x.
Proof. induction p as [|a p IH]; cbn [rscale map reval]; [ring|]. fold (rscale c p). rewrite IH. ring. Qed.
Lemma reval_rmul_lin a b p x : reval (rmul_lin a b p) x = (a + b * x) * reval p x.
Proof. unfold rmul_lin. rewrite reval_radd. cbn [reval]. rewrite !reval_rscale. ring. Qed.
Lemma length_radd p : forall q, length (radd p q) = Nat.max (length p) (length q).
Proof. induction p as [|a p IH]; intros [|b q]; cbn [radd length Nat.max]; try reflexivity. rewrite IH. reflexivity. Qed.
Lemma length_rscale c p : length (rscale c p) = length p.
Proof. apply map_length. Qed.
Lemma length_rmul_lin a b p : length (rmul_lin a b p) = S (length p).
Proof. unfold rmul_lin. rewrite length_radd. cbn [length]. rewrite !length_rscale. lia. Qed.

(* ---- synthetic division by (x - r) ---- *)
Fixpoint rdiv (r : R) (p : rpoly) : rpoly * R :=
  match p with
  | [] => ([], 0)
  | a :: p' => match p' with
               | [] => ([], a)
               | _ => let '(q, c) := rdiv r p' in (c :: q, a + r * c)
               end
  end.
Lemma rdiv_cons2 r a b p : rdiv r (a :: b :: p) = (snd (rdiv r (b :: p)) :: fst (rdiv r (b :: p)), a + r * snd (rdiv r (b :: p))).
Proof. change (rdiv r (a :: b :: p)) with (let '(q, c) := rdiv r (b :: p) in (c :: q, a + r * c)). destruct (rdiv r (b :: p)). reflexivity. Qed.
Lemma rdiv_spec r p : forall x, reval p x = (x - r) * reval (fst (rdiv r p)) x + snd (rdiv r p).
Proof.
  induction p as [|a p IH]; intros x; [cbn; ring|].
  destruct p as [|b p']; [cbn; ring|].
  rewrite rdiv_cons2. cbn [fst snd]. change (reval (a :: b :: p') x) with (a + x * reval (b :: p') x). rewrite (IH x).
  change (reval (snd (rdiv r (b :: p')) :: fst (rdiv r (b :: p'))) x) with (snd (rdiv r (b :: p')) + x * reval (fst (rdiv r (b :: p'))) x). ring.
Qed.
Lemma rdiv_length r p : length (fst (rdiv r p)) = pred (length p).
Proof.
  induction p as [|a p IH]; [reflexivity|]. destruct p as [|b p']; [reflexivity|].
  rewrite rdiv_cons2. cbn [fst]. change (length (snd (rdiv r (b :: p')) :: fst (rdiv r (b :: p')))) with (S (length (fst (rdiv r (b :: p'))))).
  rewrite IH. reflexivity.
Qed.

(* a polynomial with at least as many distinct roots as coefficients is identically zero *)
Theorem roots_force_zero (l : list R) : NoDup l -> forall p, (length p <= length l)%nat ->
  (forall r, In r l -> reval p r = 0) -> forall x, reval p x = 0.
Proof.
  induction l as [|r l IH]; intros Hnd p Hlen Hroots x.
  - destruct p; [reflexivity|cbn in Hlen; lia].
  - inversion Hnd as [|? ? Hnotin Hnd']; subst.
    pose proof (rdiv_spec r p) as Hd. set (q := fst (rdiv r p)) in *. set (c := snd (rdiv r p)) in *.
    assert (Hc : c = 0). { pose proof (Hd r) as H. rewrite (Hroots r (or_introl eq_refl)) in H. lra. }
    assert (Hq : forall y, reval q y = 0).
    { apply IH; [exact Hnd'| |].
      - unfold q. rewrite rdiv_length. cbn [length] in Hlen. lia.
      - intros r' Hr'. pose proof (Hd r') as H. rewrite (Hroots r' (or_intror Hr')), Hc in H.
        assert (Hne : r' - r <> 0) by (intros E; apply Hnotin; replace r with r' by lra; exact Hr').
        apply Rmult_eq_reg_l with (r := r' - r); [lra|exact Hne]. }
    rewrite Hd, Hq, Hc. ring.
Qed.

Lemma fold_left_ext_in_R {S Y} (f g : S -> Y -> S) (l : list Y) : forall a,
  (forall st y, In y l -> f st y = g st y) -> fold_left f l a = fold_left g l a.
Proof.
  induction l as [|y l IH]; intros a H; cbn [fold_left]; [reflexivity|].
  rewrite H by (left; reflexivity). apply IH. intros st y' Hy. apply H. right. exact Hy.
Qed.

(* ---- Lagrange weights over arbitrary distinct nodes ---- *)
Section Nodes.
Variable xs : list R.
Hypothesis Hnd : NoDup xs.
Let n := length xs.
Let X (m : nat) : R := nth m xs 0.

Lemma X_inj j k : (j < n)%nat -> (k < n)%nat -> j <> k -> X k - X j <> 0.
Proof.
  intros Hj Hk Hne E. apply Hne. apply (proj1 (NoDup_nth xs 0) Hnd j k Hj Hk). unfold X in E. lra.
Qed.

Definition others (k : nat) : list nat := filter (fun m => negb (Nat.eqb m k)) (seq 0 n).
Lemma fold_skip_filter {S} (g : S -> nat -> S) (k : nat) (l : list nat) : forall t,
  fold_left (fun t m => if Nat.eqb m k then t else g t m) l t = fold_left g (filter (fun m => negb (Nat.eqb m k)) l) t.
Proof. induction l as [|m l IH]; intros t; cbn [fold_left filter]; [reflexivity|]. destruct (Nat.eqb m k); cbn [negb fold_left]; apply IH. Qed.
Lemma lagrange_weight_others k x :
  lagrange_weight xs k x = fold_left (fun t m => t * ((x - X m) / (X k - X m))) (others k) 1.
Proof. unfold lagrange_weight, others. fold n. rewrite <- fold_skip_filter. reflexivity. Qed.
Lemma in_others k m : In m (others k) <-> (m < n)%nat /\ m <> k.
Proof.
  unfold others. rewrite filter_In, in_seq. destruct (Nat.eqb_spec m k); cbn [negb]; split; intros H; try lia; destruct H; try lia; congruence.
Qed.
Lemma length_filter_skip k (l : list nat) : NoDup l -> In k l -> S (length (filter (fun m => negb (Nat.eqb m k)) l)) = length l.
Proof.
  induction l as [|m l IH]; intros Hl Hin; [destruct Hin|]. inversion Hl as [|? ? Hnotin Hl']; subst. cbn [filter].
  destruct (Nat.eqb_spec m k) as [->|Hne]; cbn [negb length].
  - f_equal. clear IH Hl Hin Hl'. induction l as [|m l IH]; [reflexivity|]. cbn [filter].
    destruct (Nat.eqb_spec m k) as [->|Hne]; [exfalso; apply Hnotin; left; reflexivity|]. cbn [negb length]. f_equal. apply IH.
    intros H. apply Hnotin. right. exact H.
  - f_equal. apply IH; [exact Hl'|]. destruct Hin as [->|Hin]; [congruence|exact Hin].
Qed.
Lemma length_others k : (k < n)%nat -> S (length (others k)) = n.
Proof. intros Hk. unfold others. rewrite length_filter_skip; [apply seq_length|apply seq_NoDup|apply in_seq; lia]. Qed.

(* cardinal property *)
Lemma fold_mul_unit {Y} (g : Y -> R) (l : list Y) : (forall i, In i l -> g i = 1) -> forall t, fold_left (fun t i => t * g i) l t = t.
Proof.
  induction l as [|y l IH]; intros H t; cbn [fold_left]; [reflexivity|].
  rewrite H by (left; reflexivity). rewrite Rmult_1_r. apply IH. intros i Hi. apply H. right. exact Hi.
Qed.
Lemma fold_mul_has_zero {Y} (g : Y -> R) (l : list Y) (j : Y) : In j l -> g j = 0 -> forall t, fold_left (fun t i => t * g i) l t = 0.
Proof.
  intros Hin Hz t. apply in_split in Hin. destruct Hin as [l1 [l2 ->]]. rewrite fold_left_app. cbn [fold_left]. rewrite Hz, Rmult_0_r.
  apply fold_mul_zero.
Qed.
Lemma lagrange_cardinal k j : (k < n)%nat -> (j < n)%nat -> lagrange_weight xs k (X j) = if Nat.eqb j k then 1 else 0.
Proof.
  intros Hk Hj. rewrite lagrange_weight_others. destruct (Nat.eqb_spec j k) as [->|Hne].
  - apply fold_mul_unit. intros m Hm. apply in_others in Hm. field. apply X_inj; lia.
  - apply (fold_mul_has_zero _ _ j); [apply in_others; lia|]. unfold Rdiv. rewrite Rminus_diag_eq by reflexivity. ring.
Qed.

(* the weights as coefficient lists *)
Definition Lpoly (k : nat) : rpoly :=
  fold_left (fun p m => rmul_lin (- X m * / (X k - X m)) (/ (X k - X m)) p) (others k) [1].
Lemma reval_fold_lin (a b : nat -> R) (l : list nat) x : forall p,
  reval (fold_left (fun p m => rmul_lin (a m) (b m) p) l p) x = fold_left (fun t m => t * (a m + b m * x)) l (reval p x).
Proof. induction l as [|m l IH]; intros p; cbn [fold_left]; [reflexivity|]. rewrite IH, reval_rmul_lin. f_equal. ring. Qed.
Lemma length_fold_lin (a b : nat -> R) (l : list nat) : forall p,
  length (fold_left (fun p m => rmul_lin (a m) (b m) p) l p) = (length p + length l)%nat.
Proof. induction l as [|m l IH]; intros p; cbn [fold_left length]; [lia|]. rewrite IH, length_rmul_lin. lia. Qed.
Lemma reval_Lpoly k x : reval (Lpoly k) x = lagrange_weight xs k x.
Proof.
  rewrite lagrange_weight_others. unfold Lpoly. rewrite reval_fold_lin. cbn [reval]. rewrite Rmult_0_r, Rplus_0_r.
  apply fold_left_ext_in_R. intros t m _. unfold Rdiv. ring.
Qed.
Lemma length_Lpoly k : (k < n)%nat -> length (Lpoly k) = n.
Proof. intros Hk. unfold Lpoly. rewrite length_fold_lin. cbn [length]. apply length_others. exact Hk. Qed.

(* the interpolant  sum_k q(x_k) L_k *)
Definition interp (f : nat -> R) (l : list nat) : rpoly := fold_left (fun acc k => radd acc (rscale (f k) (Lpoly k))) l [].
Definition sumf (f : nat -> R) (l : list nat) : R := fold_left (fun acc k => acc + f k) l 0.
Lemma reval_interp f l x : forall acc t, reval acc x = t ->
  reval (fold_left (fun acc k => radd acc (rscale (f k) (Lpoly k))) l acc) x = fold_left (fun t k => t + f k * lagrange_weight xs k x) l t.
Proof.
  induction l as [|k l IH]; intros acc t Ht; cbn [fold_left]; [exact Ht|].
  apply IH. rewrite reval_radd, reval_rscale, reval_Lpoly, Ht. reflexivity.
Qed.
Lemma length_interp f l : (forall k, In k l -> (k < n)%nat) -> forall acc, (length acc <= n)%nat ->
  (length (fold_left (fun acc k => radd acc (rscale (f k) (Lpoly k))) l acc) <= n)%nat.
Proof.
  induction l as [|k l IH]; intros Hl acc Ha; cbn [fold_left]; [exact Ha|].
  apply IH; [intros k' Hk'; apply Hl; right; exact Hk'|]. rewrite length_radd, length_rscale, length_Lpoly by (apply Hl; left; reflexivity). lia.
Qed.
Lemma sum_delta (f : nat -> R) (j : nat) (l : list nat) : NoDup l -> In j l ->
  forall t, fold_left (fun t k => t + f k * (if Nat.eqb j k then 1 else 0)) l t = t + f j.
Proof.
  induction l as [|k l IH]; intros Hl Hin t; [destruct Hin|]. inversion Hl as [|? ? Hnotin Hl']; subst. cbn [fold_left].
  destruct (Nat.eqb_spec j k) as [->|Hne].
  - assert (E : forall t, fold_left (fun t k0 => t + f k0 * (if Nat.eqb k k0 then 1 else 0)) l t = t).
    { clear IH Hl Hin Hl'. induction l as [|m l IH]; intros t'; cbn [fold_left]; [reflexivity|].
      destruct (Nat.eqb_spec k m) as [->|]; [exfalso; apply Hnotin; left; reflexivity|].
      rewrite IH by (intros H; apply Hnotin; right; exact H). ring. }
    rewrite E. ring.
  - destruct Hin as [->|Hin]; [congruence|]. rewrite IH by assumption. ring.
Qed.

Theorem lagrange_reproduces (q : rpoly) (x : R) : (length q <= n)%nat ->
  fold_left (fun t k => t + reval q (X k) * lagrange_weight xs k x) (seq 0 n) 0 = reval q x.
Proof.
  intros Hq.
  set (I := interp (fun k => reval q (X k)) (seq 0 n)).
  set (r := radd q (rscale (-1) I)).
  assert (HI : forall y, reval I y = fold_left (fun t k => t + reval q (X k) * lagrange_weight xs k y) (seq 0 n) 0).
  { intros y. unfold I, interp. apply reval_interp. reflexivity. }
  assert (Hr : forall y, reval r y = 0).
  { apply (roots_force_zero xs Hnd).
    - unfold r. rewrite length_radd, length_rscale. fold n. apply Nat.max_lub; [exact Hq|].
      unfold I, interp. apply length_interp; [intros k Hk; apply in_seq in Hk; lia|cbn; lia].
    - intros y Hy. apply (In_nth _ _ 0) in Hy. destruct Hy as [j [Hj <-]]. fold n in Hj. fold (X j).
      unfold r. rewrite reval_radd, reval_rscale, HI.
      rewrite fold_left_ext_in_R with (g := fun t k => t + reval q (X k) * (if Nat.eqb j k then 1 else 0)).
      + rewrite sum_delta; [ring|apply seq_NoDup|apply in_seq; lia].
      + intros t k Hk. apply in_seq in Hk. rewrite lagrange_cardinal by lia. rewrite Nat.eqb_sym. reflexivity. }
  specialize (Hr x). unfold r in Hr. rewrite reval_radd, reval_rscale, HI in Hr. lra.
Qed.

Corollary lagrange_weights_sum_to_one x : (1 <= n)%nat ->
  fold_left (fun t k => t + lagrange_weight xs k x) (seq 0 n) 0 = 1.
Proof.
  intros Hn. pose proof (lagrange_reproduces [1] x ltac:(cbn; lia)) as H.
  assert (H1 : reval [1] x = 1) by (cbn; ring). rewrite <- H1, <- H. apply fold_left_ext_in_R. intros t k _. cbn [reval]. ring.
Qed.
End Nodes.
