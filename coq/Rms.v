(* Rms.v — C19: band RMS = sqrt of the trapezoidal integral of ASD^2 over the in-band grid points (dsp.py:209-276),
   and order-0 detrending (dsp.py:93-132). Generic in the carrier; theorems at the reals. *)
From Coq Require Import ZArith List Bool Reals Lra Lia Psatz.
From SK Require Import Arith.
Import ListNotations.

Section Rms.
Variable A : Arith.
Variable sqrtT : T A -> T A.
Local Notation "x +! y" := (add A x y) (at level 50, left associativity).
Local Notation "x -! y" := (sub A x y) (at level 50, left associativity).
Local Notation "x *! y" := (mul A x y) (at level 40, left associativity).
Local Notation "x /! y" := (div A x y) (at level 40, left associativity).

(* cumulative_trapezoid(y, x)[-1]:  sum_i  (x[i+1]-x[i]) * (y[i+1]+y[i]) / 2  accumulated left to right *)
Fixpoint trapz (pts : list (T A * T A)) (acc : T A) : T A :=
  match pts with
  | (f0, y0) :: (((f1, y1) :: _) as tl) => trapz tl (acc +! ((f1 -! f0) *! (y1 +! y0)) /! ofZ A 2)
  | _ => acc
  end.
Definition fmin_l (l : list (T A)) (d : T A) := fold_left (fun m x => if ltb A x m then x else m) l d.
Definition fmax_l (l : list (T A)) (d : T A) := fold_left (fun m x => if ltb A m x then x else m) l d.
(* integral_rms with an explicit band [b0, b1] *)
Definition integral_rms (f asd : list (T A)) (b0 b1 : T A) : T A :=
  match f with
  | [] => zero A
  | f0 :: _ =>
    let lo := let m := fmin_l f f0 in if ltb A m b0 then b0 else m in      (* max(min f, b0) *)
    let hi := let m := fmax_l f f0 in if ltb A b1 m then b1 else m in      (* min(max f, b1) *)
    if leb A hi lo then zero A else
    let pts := filter (fun p => leb A lo (fst p) && leb A (fst p) hi) (combine f (map (fun a => a *! a) asd)) in
    match pts with [] => zero A | _ => sqrtT (trapz pts (zero A)) end
  end.
End Rms.

Open Scope R_scope.
Notation trapzR := (trapz RA).

Lemma trapz_cons2 f0 y0 f1 y1 tl acc :
  trapzR ((f0, y0) :: (f1, y1) :: tl) acc = trapzR ((f1, y1) :: tl) (acc + (f1 - f0) * (y1 + y0) / 2).
Proof. reflexivity. Qed.
Lemma trapz_one p acc : trapzR [p] acc = acc. Proof. destruct p; reflexivity. Qed.
Lemma trapz_acc pts : forall a, trapzR pts a = a + trapzR pts 0.
Proof.
  induction pts as [|[f0 y0] tl IH]; intros a; [cbn; lra|].
  destruct tl as [|[f1 y1] tl']; [rewrite !trapz_one; lra|].
  rewrite !trapz_cons2. rewrite IH. rewrite (IH (0 + _)). lra.
Qed.

(* additivity in power over adjacent bands that share a grid point *)
Theorem trapz_additive (l1 l2 : list (R * R)) (p : R * R) :
  trapzR (l1 ++ p :: l2) 0 = trapzR (l1 ++ [p]) 0 + trapzR (p :: l2) 0.
Proof.
  induction l1 as [|[f0 y0] l1 IH].
  - cbn [app]. rewrite trapz_one. lra.
  - destruct l1 as [|[f1 y1] l1].
    + cbn [app] in *. destruct p as [f y]. rewrite !trapz_cons2, trapz_one. rewrite (trapz_acc ((f, y) :: l2)). lra.
    + cbn [app] in *. rewrite !trapz_cons2. rewrite (trapz_acc ((f1, y1) :: l1 ++ p :: l2)), (trapz_acc ((f1, y1) :: l1 ++ [p])). rewrite IH. lra.
Qed.

Fixpoint increasing (pts : list (R * R)) : Prop :=
  match pts with
  | (f0, _) :: (((f1, _) :: _) as tl) => f0 <= f1 /\ increasing tl
  | _ => True
  end.
Theorem trapz_nonneg pts : increasing pts -> Forall (fun p => 0 <= snd p) pts -> 0 <= trapzR pts 0.
Proof.
  induction pts as [|[f0 y0] tl IH]; intros Hi Hn; [cbn; lra|].
  destruct tl as [|[f1 y1] tl']; [rewrite trapz_one; lra|].
  rewrite trapz_cons2, trapz_acc. cbn [increasing] in Hi. destruct Hi as [Hf Hi].
  inversion Hn as [|? ? H0 Hn']; subst. inversion Hn' as [|? ? H1 _]; subst. cbn [snd] in *.
  specialize (IH Hi Hn'). assert (0 <= (f1 - f0) * (y1 + y0) / 2) by (unfold Rdiv; apply Rmult_le_pos; [apply Rmult_le_pos; lra|lra]). simpl T in *. lra.
Qed.
Lemma increasing_tail a l : increasing (a :: l) -> increasing l.
Proof. destruct a as [f y]. destruct l as [|[f' y'] l]; cbn; tauto. Qed.
Lemma increasing_app_r l : forall r, increasing (l ++ r) -> increasing r.
Proof. induction l as [|a l IH]; intros r H; [exact H|]. apply IH. apply (increasing_tail a). exact H. Qed.
Lemma increasing_app_l l : forall p r, increasing (l ++ p :: r) -> increasing (l ++ [p]).
Proof.
  induction l as [|[f y] l IH]; intros p r H; [destruct p; exact I|].
  destruct l as [|[f' y'] l]; cbn [app] in *.
  - destruct p as [fp yp]. cbn in *. tauto.
  - cbn [increasing] in *. destruct H as [H1 H2]. split; [exact H1|]. apply (IH p r). exact H2.
Qed.
(* monotone under band nesting: extending the band on either side (at grid points) cannot decrease the integral *)
Theorem trapz_monotone (l0 l1 l2 : list (R * R)) (p q : R * R) :
  increasing (l0 ++ p :: l1 ++ q :: l2) -> Forall (fun x => 0 <= snd x) (l0 ++ p :: l1 ++ q :: l2) ->
  trapzR (p :: l1 ++ [q]) 0 <= trapzR (l0 ++ p :: l1 ++ q :: l2) 0.
Proof.
  intros Hi Hn. rewrite (trapz_additive l0 (l1 ++ q :: l2) p).
  change (p :: l1 ++ q :: l2) with ((p :: l1) ++ q :: l2). rewrite (trapz_additive (p :: l1) l2 q). cbn [app].
  assert (Hsub1 : 0 <= trapzR (l0 ++ [p]) 0).
  { apply trapz_nonneg; [eapply increasing_app_l; exact Hi|].
    apply Forall_app in Hn. destruct Hn as [H1 H2]. apply Forall_app. split; [exact H1|]. inversion H2; subst. constructor; [assumption|constructor]. }
  assert (Hsub2 : 0 <= trapzR (q :: l2) 0).
  { apply trapz_nonneg.
    - apply (increasing_app_r (l0 ++ p :: l1)). rewrite <- app_assoc. exact Hi.
    - apply Forall_app in Hn. destruct Hn as [_ H2]. inversion H2 as [|? ? _ H3]; subst. apply Forall_app in H3. tauto. }
  lra.
Qed.

(* empty or single-point selections integrate to zero *)
Theorem trapz_point p : trapzR [p] 0 = 0 /\ trapzR [] 0 = 0.
Proof. split; [apply trapz_one|reflexivity]. Qed.

(* ---- order-0 detrend: x - mean(x) ---- *)
Definition sumR' (l : list R) : R := fold_right Rplus 0 l.
Definition mean (l : list R) : R := sumR' l / INR (length l).
Definition detrend0 (l : list R) : list R := map (fun x => x - mean l) l.
Lemma sum_map_sub l c : sumR' (map (fun x => x - c) l) = sumR' l - INR (length l) * c.
Proof. induction l as [|x l IH]; cbn [map sumR' fold_right length]; [cbn; ring|]. unfold sumR' in IH. rewrite IH, S_INR. ring. Qed.
Theorem detrend0_residual_orthogonal_to_constants l : l <> [] -> sumR' (detrend0 l) = 0.
Proof.
  intros H. unfold detrend0. rewrite sum_map_sub. unfold mean.
  assert (0 < INR (length l)) by (apply lt_0_INR; destruct l; [contradiction|cbn; lia]). field. lra.
Qed.
Theorem detrend0_kills_constant c n : (0 < n)%nat -> detrend0 (repeat c n) = repeat 0 n.
Proof.
  intros Hn. unfold detrend0. assert (Hm : mean (repeat c n) = c).
  { unfold mean. rewrite repeat_length. assert (Hs : sumR' (repeat c n) = INR n * c).
    { clear Hn. induction n as [|n IH]; cbn [repeat sumR' fold_right]; [cbn; ring|]. unfold sumR' in IH. rewrite IH, S_INR. ring. }
    rewrite Hs. assert (0 < INR n) by (apply lt_0_INR; exact Hn). field. lra. }
  rewrite Hm. clear Hm Hn. induction n as [|n IH]; cbn [repeat map]; [reflexivity|]. rewrite IH. f_equal. ring.
Qed.
Theorem detrend0_idempotent l : l <> [] -> detrend0 (detrend0 l) = detrend0 l.
Proof.
  intros H. assert (Hm : mean (detrend0 l) = 0).
  { unfold mean. rewrite detrend0_residual_orthogonal_to_constants by exact H. unfold Rdiv. apply Rmult_0_l. }
  unfold detrend0 at 1. rewrite Hm. rewrite <- (map_id (detrend0 l)) at 2. apply map_ext. intros x. ring.
Qed.

(* homogeneity: scaling every ordinate (ASD^2) by k scales the integral by k, so RMS(c*asd) = |c| RMS(asd) *)
Lemma trapz_scale_acc (k : R) pts : forall a, trapzR (map (fun p => (fst p, k * snd p)) pts) (k * a) = k * trapzR pts a.
Proof.
  induction pts as [|[f0 y0] tl IH]; intros a; [reflexivity|].
  destruct tl as [|[f1 y1] tl']; [reflexivity|].
  rewrite trapz_cons2. rewrite <- IH. cbn [map fst snd]. rewrite trapz_cons2. f_equal. lra.
Qed.
Theorem trapz_scale (k : R) pts : trapzR (map (fun p => (fst p, k * snd p)) pts) 0 = k * trapzR pts 0.
Proof. rewrite <- trapz_scale_acc. f_equal. lra. Qed.
(* the trapezoid rule is exact for an integrand that is affine in frequency: on ANY grid (not only uniform ones)
   the integral of a + b f from the first to the last grid point is a (fN - f0) + b (fN^2 - f0^2)/2 *)
Lemma last_nonempty_indep (z : R) l : forall d d', last (z :: l) d = last (z :: l) d'.
Proof. revert z; induction l as [|w l IH]; intros z d d'; [reflexivity|]. change (last (w :: l) d = last (w :: l) d'). apply IH. Qed.
Lemma last_cons2 (x y : R) l : last (x :: l) y = last l x.
Proof. destruct l as [|z l]; [reflexivity|]. change (last (z :: l) y = last (z :: l) x). apply last_nonempty_indep. Qed.
Lemma trapz_affine_acc (a b : R) (fs : list R) : forall f0 acc,
  trapzR (map (fun f => (f, a + b * f)) (f0 :: fs)) acc =
  acc + a * (last fs f0 - f0) + b * (last fs f0 * last fs f0 - f0 * f0) / 2.
Proof.
  induction fs as [|f1 tl IH]; intros f0 acc; [cbn; lra|].
  cbn [map] in *. rewrite trapz_cons2. rewrite IH. rewrite last_cons2. lra.
Qed.
Theorem trapz_affine_exact (a b : R) (fs : list R) (f0 : R) :
  trapzR (map (fun f => (f, a + b * f)) (f0 :: fs)) 0 =
  a * (last fs f0 - f0) + b * (last fs f0 * last fs f0 - f0 * f0) / 2.
Proof. rewrite trapz_affine_acc. lra. Qed.
