(* NewLtf.v — executable model of schedulers.new_ltf_plan (three-stage unified loop), generic in the carrier, step for
   step with the Python; np.exp / np.log / x**0.5 are oracle tables (None = lookup miss). Safety theorems at the reals. *)
From Coq Require Import ZArith List Bool Reals Lia Lra.
From Flocq Require Import Raux.
From SK Require Import Arith Sched SchedThms.
Import ListNotations.
Open Scope Z_scope.

Section NewLtf.
Variable A : Arith.
Variables powhalf expT logT : T A -> option (T A).
Local Notation "x +! y" := (add A x y) (at level 50, left associativity).
Local Notation "x -! y" := (sub A x y) (at level 50, left associativity).
Local Notation "x *! y" := (mul A x y) (at level 40, left associativity).
Local Notation "x /! y" := (div A x y) (at level 40, left associativity).
Local Notation "x <! y" := (ltb A x y) (at level 70).
Local Notation "x <=! y" := (leb A x y) (at level 70).
Local Notation "'zZ' z" := (ofZ A z) (at level 30).

Record nstate := mkNS { ns_cross : Z; ns_stage2 : bool; ns_stage3 : bool; ns_alpha : T A; ns_k2 : Z; ns_j : Z }.
Definition ns0 : nstate := mkNS 0 false false (zZ 0) 0 0.
Definition ceilZ (x : T A) : Z := - floorZ A (opp A x).

(* part A: segment length proposed by the current stage; None = oracle miss *)
Definition stageA (c : cfg A) (Jdes : Z) (st : nstate) (fi : T A) : option (Z * nstate) :=
  if ns_stage3 st then Some (cLmin c, st)
  else if ns_stage2 st then
    match expT (ns_alpha st *! zZ (ns_k2 st)) with
    | None => None
    | Some e => Some (rintZ A (zZ (ns_cross st) *! e), mkNS (ns_cross st) true false (ns_alpha st) (ns_k2 st + 1) (ns_j st))
    end
  else
    let fres_ideal := fi *! clogfact c in
    if freslim A c <=! fres_ideal then
      let pts_left := Jdes - ns_j st in
      let dftlen := rintZ A (cfs c /! fres_ideal) in
      let cross := if ns_cross st =? 0 then Z.min (Z.max dftlen (cLmin c)) (cN c) else ns_cross st in
      let alpha_o := if 1 <? pts_left then
                       match logT (zZ (cLmin c) /! zZ cross) with None => None | Some lg => Some (lg /! zZ (pts_left - 1)) end
                     else Some (ns_alpha st) in
      match alpha_o with
      | None => None
      | Some al => Some (dftlen, mkNS dftlen true false al (ns_k2 st) (ns_j st))
      end
    else
      match powhalf (freslim A c *! fres_ideal) with
      | None => None
      | Some s => let dftlen := if fresmin A c <! s then rintZ A (cfs c /! s) else rintZ A (cfs c /! fresmin A c) in
                  Some (dftlen, mkNS dftlen false false (ns_alpha st) (ns_k2 st) (ns_j st))
      end.

(* count, cap, single-segment rule: shared tail of both branches of part B *)
Definition finishL (c : cfg A) (l0 : Z) : Z * Z :=
  let k := capK A c l0 (nseg_raw A (rintZ A) c l0) in
  (if k =? 1 then cN c else l0, k).

Definition new_step (c : cfg A) (Jdes : Z) (st : nstate) (fi : T A) : option (bin A * nstate) :=
  match stageA c Jdes st fi with
  | None => None
  | Some (d0, st1) =>
    let to3 := ns_stage2 st1 && (d0 <? cLmin c) in
    let d1 := if to3 then cLmin c else d0 in
    let st2 := mkNS (ns_cross st1) (ns_stage2 st1) (ns_stage3 st1 || to3) (ns_alpha st1) (ns_k2 st1) (ns_j st1 + 1) in
    let '(l, k) := finishL c (clampL A c d1) in
    let fres := cfs c /! zZ l in
    let fbin := fi /! fres in
    if fbin <! cbmin c then
      let l2 := Z.min (Z.max (ceilZ (cbmin c *! cfs c /! fi)) (cLmin c)) (cN c) in
      let '(l', k') := finishL c l2 in
      let fres' := cfs c /! zZ l' in
      Some (mkBin fi fres' (fi /! fres') l' k', st2)
    else Some (mkBin fi fres fbin l k, st2)
  end.

Fixpoint new_loop (fuel : nat) (c : cfg A) (Jdes : Z) (st : nstate) (fi : T A) : outcome (list (bin A)) :=
  if fi <! fmax A c then
    match fuel with
    | O => OutOfFuel
    | S fuel' =>
      match new_step c Jdes st fi with
      | None => OracleMiss
      | Some (b, st') =>
        match new_loop fuel' c Jdes st' (fi +! br b) with
        | Ok bs => Ok (b :: bs)
        | e => e
        end
      end
    end
  else Ok [].
Definition new_bins (fuel : nat) (c : cfg A) (Jdes : Z) := new_loop fuel c Jdes ns0 (fmin A c).

(* ---- structural facts, any carrier ---- *)
Lemma new_step_struct c J st fi b st' : new_step c J st fi = Some (b, st') ->
  bf b = fi /\ br b = cfs c /! zZ (bL b) /\ bb b = fi /! br b.
Proof.
  unfold new_step. destruct (stageA c J st fi) as [[d0 st1]|]; [|discriminate].
  destruct (finishL c (clampL A c _)) as [l k].
  destruct (ltb A (fi /! (cfs c /! zZ l)) (cbmin c)).
  - destruct (finishL c _) as [l' k']. intros H; inversion H; subst. cbn. auto.
  - intros H; inversion H; subst. cbn. auto.
Qed.
Lemma new_loop_struct fuel : forall c J st fi bs,
  new_loop fuel c J st fi = Ok bs -> chain A fi bs /\ Forall (bin_dft A c) bs.
Proof.
  induction fuel as [|fuel IH]; intros c J st fi bs; cbn [new_loop].
  - destruct (ltb A fi (fmax A c)); [discriminate|]. intros H; inversion H; subst. split; constructor.
  - destruct (ltb A fi (fmax A c)) eqn:Hlt; [|intros H; inversion H; subst; split; constructor].
    destruct (new_step c J st fi) as [[b st']|] eqn:Hs; [|discriminate].
    destruct (new_loop fuel c J st' (fi +! br b)) as [bs'| | |] eqn:Hl; try discriminate.
    intros H; inversion H; subst; clear H. apply new_step_struct in Hs. destruct Hs as (Hf & Hr & Hb).
    apply IH in Hl. destruct Hl as [Hc HF]. split; [cbn; split; [exact Hf|exact Hc]|].
    constructor; [|exact HF]. unfold bin_dft. rewrite Hf. auto.
Qed.
End NewLtf.

(* ---- safety at the reals (C02): every emitted bin is safely and completely segmented ---- *)
Lemma finishL_int_ok (c : cfg RA) l0 : admissible c -> (cLmin c <= l0 <= cN c)%Z ->
  bin_int_ok c (fst (finishL RA c l0)) (snd (finishL RA c l0)).
Proof.
  intros Ha Hl. unfold finishL. cbn [fst snd].
  apply (finish_int_ok (rintZ RA)); auto. intros; apply rint_ge_1; assumption.
Qed.
Lemma new_step_int_ok ph ex lg (c : cfg RA) J st fi b st' : admissible c ->
  new_step RA ph ex lg c J st fi = Some (b, st') -> bin_int_ok c (bL b) (bK b).
Proof.
  intros Ha. pose proof (adm_Lmin c Ha) as HL. unfold new_step.
  destruct (stageA RA ph ex lg c J st fi) as [[d0 st1]|]; [|discriminate].
  set (d1 := if ns_stage2 RA st1 && (d0 <? cLmin c)%Z then cLmin c else d0).
  pose proof (finishL_int_ok c (clampL RA c d1) Ha (clampL_bounds RA c d1 ltac:(lia))) as H1.
  destruct (finishL RA c (clampL RA c d1)) as [l k]. cbn [fst snd] in H1.
  destruct (ltb RA _ _).
  - set (l2 := Z.min (Z.max (ceilZ RA (div RA (mul RA (cbmin c) (cfs c)) fi)) (cLmin c)) (cN c)).
    pose proof (finishL_int_ok c l2 Ha ltac:(subst l2; lia)) as H2.
    destruct (finishL RA c l2) as [l' k']. cbn [fst snd] in H2. intros H; inversion H; subst. exact H2.
  - intros H; inversion H; subst. exact H1.
Qed.
Theorem new_loop_safe ph ex lg fuel : forall (c : cfg RA) J st fi bs, admissible c ->
  new_loop RA ph ex lg fuel c J st fi = Ok bs -> Forall (bin_safe (starts_vec RA) c) bs.
Proof.
  induction fuel as [|fuel IH]; intros c J st fi bs Ha; cbn [new_loop].
  - destruct (ltb RA fi (fmax RA c)); [discriminate|]. intros H; inversion H; constructor.
  - destruct (ltb RA fi (fmax RA c)); [|intros H; inversion H; constructor].
    destruct (new_step RA ph ex lg c J st fi) as [[b st']|] eqn:Hs; [|discriminate].
    destruct (new_loop RA ph ex lg fuel c J st' (add RA fi (br b))) as [bs'| | |] eqn:Hl; try discriminate.
    intros H; inversion H; subst; clear H. constructor; [|eapply IH; eauto].
    pose proof (new_step_int_ok ph ex lg c J st fi b st' Ha Hs) as Hi. split; [exact Hi|apply int_ok_starts_vec; exact Hi].
Qed.
Theorem new_plan_safe ph ex lg fuel (c : cfg RA) J bs : admissible c ->
  new_bins RA ph ex lg fuel c J = Ok bs -> bs <> [] /\ Forall (bin_safe (starts_vec RA) c) bs.
Proof.
  intros Ha H. split; [|eapply new_loop_safe; eauto].
  unfold new_bins in H. pose proof (fmin_lt_fmax c Ha) as Hlt. apply r_ltb_true in Hlt.
  destruct fuel; cbn [new_loop] in H; cbn [ltb RA] in H; rewrite Hlt in H; [discriminate|].
  destruct (new_step RA ph ex lg c J _ _) as [[b st']|]; [|discriminate].
  destruct (new_loop RA ph ex lg fuel c J st' _); try discriminate. inversion H. discriminate.
Qed.

(* ---- frequency grid at the reals for the vectorised and the three-stage schedulers (C03):
   r*L = fs exactly, strictly increasing from the first frequency, below Nyquist, b = f*L/fs ---- *)
Open Scope R_scope.
Theorem vec_grid_ok sq fuel (c : cfg RA) grid bs : admissible c -> vec_bins RA sq fuel c grid = Ok bs ->
  chain RA (fmin_vec RA c) bs /\ increasing_from (fmin_vec RA c) bs /\
  Forall (fun b : bin RA => br b * IZR (bL b) = cfs c /\ bf b < cfs c / 2 /\ bb b = bf b * IZR (bL b) / cfs c) bs.
Proof.
  intros Ha H. unfold vec_bins in H.
  destruct (vec_walk_struct RA sq fuel c grid _ bs H) as [Hc Hd].
  pose proof (vec_walk_safe sq fuel c grid _ bs Ha H) as Hs.
  assert (Hp : Forall (fun b : bin RA => 0 < IZR (bL b)) bs).
  { eapply Forall_impl; [|exact Hs]. intros b [Hi _]. eapply bin_int_ok_L_pos; exact Hi. }
  destruct (chain_increasing c bs _ (adm_fs c Ha) Hc Hd Hp) as [Hi HF]. auto.
Qed.
Theorem new_grid_ok ph ex lg fuel (c : cfg RA) J bs : admissible c -> new_bins RA ph ex lg fuel c J = Ok bs ->
  chain RA (fmin RA c) bs /\ increasing_from (fmin RA c) bs /\
  Forall (fun b : bin RA => br b * IZR (bL b) = cfs c /\ bf b < cfs c / 2 /\ bb b = bf b * IZR (bL b) / cfs c) bs.
Proof.
  intros Ha H. unfold new_bins in H.
  destruct (new_loop_struct RA ph ex lg fuel c J _ _ bs H) as [Hc Hd].
  pose proof (new_loop_safe ph ex lg fuel c J _ _ bs Ha H) as Hs.
  assert (Hp : Forall (fun b : bin RA => 0 < IZR (bL b)) bs).
  { eapply Forall_impl; [|exact Hs]. intros b [Hi _]. eapply bin_int_ok_L_pos; exact Hi. }
  destruct (chain_increasing c bs _ (adm_fs c Ha) Hc Hd Hp) as [Hi HF]. auto.
Qed.
