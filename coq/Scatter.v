(* Scatter.v — C11: the König–Huygens identity for the scatter statistic.  The population variance of complex per-segment products
   Z_k = (a_k, b_k) about their mean mu equals E|Z|^2 - |mu|^2 (with |mu|^2 = mu_r^2 + mu_i^2, NOT Re(mu^2) = mu_r^2 - mu_i^2), so any
   one-pass rewrite of the kernels' two-pass M2 must subtract |mu|^2. *)
From Coq Require Import List Reals Lra.
From SK Require Import Rms.
Import ListNotations.
Open Scope R_scope.

Definition sumsq_dev (l : list R) (c : R) : R := sumR' (map (fun x => (x - c) * (x - c)) l).
Definition sumsq (l : list R) : R := sumR' (map (fun x => x * x) l).

Lemma sumsq_dev_expand l c : sumsq_dev l c = sumsq l - 2 * c * sumR' l + INR (length l) * (c * c).
Proof.
  unfold sumsq_dev, sumsq. induction l as [|x l IH]; [cbn; lra|].
  unfold sumR' in *. cbn [map fold_right length]. rewrite S_INR, IH. ring.
Qed.
Theorem koenig_huygens_real l : l <> [] -> sumsq_dev l (mean l) / INR (length l) = sumsq l / INR (length l) - mean l * mean l.
Proof.
  intros Hl. rewrite sumsq_dev_expand. unfold mean.
  assert (Hn : INR (length l) <> 0) by (apply not_0_INR; destruct l; [congruence|discriminate]).
  field. exact Hn.
Qed.
(* complex form: mean |Z_k - mu|^2 = mean |Z_k|^2 - (mu_r^2 + mu_i^2) *)
Theorem koenig_huygens_complex (a b : list R) : a <> [] -> length a = length b ->
  (sumsq_dev a (mean a) + sumsq_dev b (mean b)) / INR (length a) =
  (sumsq a + sumsq b) / INR (length a) - (mean a * mean a + mean b * mean b).
Proof.
  intros Ha Hlen. assert (Hb : b <> []) by (destruct b; [destruct a; [congruence|discriminate]|discriminate]).
  pose proof (koenig_huygens_real a Ha) as Ea. pose proof (koenig_huygens_real b Hb) as Eb. rewrite <- Hlen in Eb.
  unfold Rdiv in *. rewrite !Rmult_plus_distr_r. rewrite Ea, Eb. lra.
Qed.
(* the wrong one-pass form differs from the variance by exactly 2 mu_i^2: it is right only when the mean product is real *)
Theorem wrong_one_pass_excess (a b : list R) : a <> [] -> length a = length b ->
  (sumsq a + sumsq b) / INR (length a) - (mean a * mean a - mean b * mean b) =
  (sumsq_dev a (mean a) + sumsq_dev b (mean b)) / INR (length a) + 2 * (mean b * mean b).
Proof. intros Ha Hlen. rewrite (koenig_huygens_complex a b Ha Hlen). lra. Qed.
