(* Jordan.v — Jordan's inequality  sin y >= (2/pi) y  on [0, pi/2], hence  asin x <= (pi/2) x  on [0, 1].
   Used by C10: the phase error is at most pi/2 times the relative magnitude error. *)
From Coq Require Import Reals Lra Psatz.
Open Scope R_scope.

Definition jf (y : R) : R := sin y - 2 / PI * y.
Definition jf' (y : R) : R := cos y - 2 / PI.
Lemma jf_deriv y : derivable_pt_lim jf y (jf' y).
Proof.
  unfold jf, jf'. apply derivable_pt_lim_minus; [apply derivable_pt_lim_sin|].
  replace (2 / PI) with (2 / PI * 1) at 2 by ring. apply derivable_pt_lim_scal. apply derivable_pt_lim_id.
Qed.
Theorem jordan y : 0 <= y <= PI / 2 -> 2 / PI * y <= sin y.
Proof.
  intros [H0 H1]. pose proof PI_RGT_0 as Hpi.
  destruct (Rle_or_lt (2 / PI * y) (sin y)) as [|Hneg]; [assumption|exfalso].
  assert (Hf : jf y < 0) by (unfold jf; lra).
  assert (Hy0 : 0 < y). { destruct H0 as [H0|H0]; [assumption|]. subst y. unfold jf in Hf. rewrite sin_0 in Hf. lra. }
  assert (Hy1 : y < PI / 2).
  { destruct H1 as [H1|H1]; [assumption|]. subst y. unfold jf in Hf. rewrite sin_PI2 in Hf. replace (2 / PI * (PI / 2)) with 1 in Hf by (field; lra). lra. }
  destruct (MVT_cor2 jf jf' 0 y Hy0 (fun c _ => jf_deriv c)) as (a & Ha & Ha1).
  destruct (MVT_cor2 jf jf' y (PI / 2) Hy1 (fun c _ => jf_deriv c)) as (b & Hb & Hb1).
  assert (J0 : jf 0 = 0) by (unfold jf; rewrite sin_0; ring).
  assert (J1 : jf (PI / 2) = 0) by (unfold jf; rewrite sin_PI2; field; lra).
  rewrite J0 in Ha. rewrite J1 in Hb.
  (* jf' a < 0 < jf' b although a < b and cos is decreasing on [0, pi] *)
  assert (Hda : jf' a < 0). { assert (jf' a * (y - 0) < 0) by lra. nra. }
  assert (Hdb : 0 < jf' b). { assert (0 < jf' b * (PI / 2 - y)) by lra. nra. }
  assert (cos b < cos a) by (apply cos_decreasing_1; lra).
  unfold jf' in *. lra.
Qed.
Theorem asin_le_half_pi_x x : 0 <= x <= 1 -> asin x <= PI / 2 * x.
Proof.
  intros [H0 H1]. pose proof PI_RGT_0 as Hpi. pose proof (asin_bound x) as [Hlo Hhi].
  assert (Hpos : 0 <= asin x).
  { destruct (Rle_or_lt 0 (asin x)) as [|Hn]; [assumption|exfalso].
    assert (sin (asin x) < 0) by (apply sin_lt_0_var; lra). rewrite sin_asin in H by lra. lra. }
  pose proof (jordan (asin x) (conj Hpos Hhi)) as J. rewrite sin_asin in J by lra.
  apply Rmult_le_reg_l with (2 / PI); [apply Rdiv_lt_0_compat; lra|].
  replace (2 / PI * (PI / 2 * x)) with x by (field; lra). exact J.
Qed.
