(* Sched.v — executable models of speckit/schedulers.py (ltf_plan, lpsd_plan, vectorized_ltf_plan)
   and of the segment-start computations, generic in the arithmetic carrier.
   Hand-written, step for step with the Python; tied to /repo by the bit-exact correspondence check
   (FloatA instance evaluated by vm_compute on the same configurations as the implementation). *)
From Coq Require Import ZArith List Bool.
From SK Require Import Arith.
Import ListNotations.
Open Scope Z_scope.

Section Sched.
Variable A : Arith.
Variable sqrtT : T A -> T A.             (* np.sqrt (correctly rounded) *)
Variable powhalf : T A -> option (T A).  (* Python x ** 0.5 = libm pow; oracle table, None = miss *)

Local Notation "x +! y" := (add A x y) (at level 50, left associativity).
Local Notation "x -! y" := (sub A x y) (at level 50, left associativity).
Local Notation "x *! y" := (mul A x y) (at level 40, left associativity).
Local Notation "x /! y" := (div A x y) (at level 40, left associativity).
Local Notation "x <! y" := (ltb A x y) (at level 70).
Local Notation "x <=! y" := (leb A x y) (at level 70).
Local Notation "'zZ' z" := (ofZ A z) (at level 30).

Record cfg := mkCfg { cN : Z; cfs : T A; colap : T A; cbmin : T A; cLmin : Z; cKdes : Z; clogfact : T A }.

Definition two := zZ 2.
Definition half := one A /! two.
Definition xov (c : cfg) := one A -! colap c.
Definition fmin (c : cfg) := cfs c /! zZ (cN c) *! cbmin c.            (* fs / N * bmin *)
Definition fmin_vec (c : cfg) := cbmin c *! cfs c /! zZ (cN c).        (* bmin * fs / N *)
Definition fmax (c : cfg) := cfs c /! two.
Definition fresmin (c : cfg) := cfs c /! zZ (cN c).
Definition freslim (c : cfg) := fresmin c *! (one A +! xov c *! zZ (cKdes c - 1)).

Record bin := mkBin { bf : T A; br : T A; bb : T A; bL : Z; bK : Z }.

Inductive outcome (X : Type) := Ok (x : X) | OracleMiss | OutOfFuel | NonFinite.
Arguments Ok {X}. Arguments OracleMiss {X}. Arguments OutOfFuel {X}. Arguments NonFinite {X}.

(* --- resolution compromise, schedulers.py:181-187 --- *)
Definition ltf_res (c : cfg) (fi : T A) : option (T A) :=
  let fres := fi *! clogfact c in
  if freslim c <=! fres then Some fres
  else if fres <! freslim c then
    match powhalf (freslim c *! fres) with
    | None => None
    | Some s => if fresmin c <! s then Some s else Some (fresmin c)
    end
  else Some (fresmin c).

(* --- integer part shared by every scheduler: clamp, count, single-segment rule --- *)
Definition clampL (c : cfg) (l : Z) : Z :=
  let l := if cN c <? l then cN c else l in
  if l <? cLmin c then cLmin c else l.
Definition nseg_raw (round : T A -> Z) (c : cfg) (l : Z) : Z :=
  round (zZ (cN c - l) /! (xov c *! zZ l) +! one A).
Definition capK (c : cfg) (l k : Z) : Z := Z.min k (cN c - l + 1).

(* --- one pass of the while loop, schedulers.py:181-213 --- *)
Definition ltf_step (c : cfg) (fi : T A) : option bin :=
  match ltf_res c fi with
  | None => None
  | Some fres =>
    let fbin := fi /! fres in
    let fres := if fbin <! cbmin c then fi /! cbmin c else fres in
    let l := clampL c (rhuZ A (cfs c /! fres)) in
    let k := capK c l (nseg_raw (rhuZ A) c l) in
    let l := if k =? 1 then cN c else l in
    let fres := cfs c /! zZ l in
    Some (mkBin fi fres (fi /! fres) l k)
  end.

Fixpoint ltf_loop (fuel : nat) (c : cfg) (fi : T A) : outcome (list bin) :=
  if fi <! fmax c then
    match fuel with
    | O => OutOfFuel
    | S fuel' =>
      match ltf_step c fi with
      | None => OracleMiss
      | Some b =>
        match ltf_loop fuel' c (fi +! br b) with
        | Ok bs => Ok (b :: bs)
        | e => e
        end
      end
    end
  else Ok [].

Definition ltf_bins (fuel : nat) (c : cfg) := ltf_loop fuel c (fmin c).

(* --- segment starts, iterative accumulation, schedulers.py:224-236 --- *)
Fixpoint starts_iter_go (n : nat) (start shift : T A) : list Z :=
  match n with
  | O => []
  | S n' => truncZ A (start +! half) :: starts_iter_go n' (start +! shift) shift
  end.
Definition shift_iter (c : cfg) (l k : Z) : T A :=
  let s := if k =? 1 then one A else zZ (cN c - l) /! zZ (k - 1) in
  if s <! one A then one A else s.
Definition starts_iter (c : cfg) (l k : Z) : list Z :=
  starts_iter_go (Z.to_nat k) (zero A) (shift_iter c l k).

(* --- segment starts, vectorised: np.round(arange(K) * shift), schedulers.py:360-361 --- *)
Definition shift_vec (c : cfg) (l k : Z) : T A :=
  if 1 <? k then zZ (cN c - l) /! zZ (k - 1) else zero A.
Definition starts_vec (c : cfg) (l k : Z) : list Z :=
  map (fun i => rintZ A (zZ (Z.of_nat i) *! shift_vec c l k)) (seq 0 (Z.to_nat k)).

(* --- vectorised scheduler: parameter map at one grid frequency, schedulers.py:318-339 --- *)
Definition vec_res (c : cfg) (g : T A) : T A :=
  let r1 := g *! clogfact c in
  let ravg := freslim c in
  let s := sqrtT (ravg *! r1) in
  let r2 := if ravg <=! r1 then r1 else if fresmin c <! s then s else fresmin c in
  if (g /! r2) <! cbmin c then g /! cbmin c else r2.
Definition vec_point (c : cfg) (g : T A) : T A * Z * Z :=
  let l := rintZ A (cfs c /! vec_res c g) in
  let l := Z.min (Z.max l (cLmin c)) (cN c) in            (* np.clip(L, Lmin, N) *)
  let k := nseg_raw (rintZ A) c l in
  let l := if k =? 1 then cN c else l in
  let k := capK c l (nseg_raw (rintZ A) c l) in
  (cfs c /! zZ l, l, k).

(* np.searchsorted(grid, x, side='left'): number of grid points strictly below x *)
Fixpoint searchsorted_left (grid : list (T A)) (x : T A) : nat :=
  match grid with
  | [] => O
  | g :: gs => if g <! x then S (searchsorted_left gs x) else O
  end.

Fixpoint vec_walk (fuel : nat) (c : cfg) (grid : list (T A)) (f : T A) : outcome (list bin) :=
  if f <! fmax c then
    match fuel with
    | O => OutOfFuel
    | S fuel' =>
      match nth_error grid (searchsorted_left grid f) with
      | None => Ok []                         (* idx >= len(r_map): break *)
      | Some g =>
        let '(r, l, k) := vec_point c g in
        match vec_walk fuel' c grid (f +! r) with
        | Ok bs => Ok (mkBin f r (f /! r) l k :: bs)
        | e => e
        end
      end
    end
  else Ok [].
Definition vec_bins (fuel : nat) (c : cfg) (grid : list (T A)) := vec_walk fuel c grid (fmin_vec c).

(* realised overlap as reported: ltf: mean_k (L - (D[k+1]-D[k]))/L ; vectorised: (L - shift)/L *)
Definition O_vec (c : cfg) (l k : Z) : T A :=
  if 1 <? k then (zZ l -! shift_vec c l k) /! zZ l else zero A.

End Sched.

Arguments Ok {X}. Arguments OracleMiss {X}. Arguments OutOfFuel {X}. Arguments NonFinite {X}.
Arguments mkCfg {A}. Arguments mkBin {A}.
Arguments cN {A}. Arguments cfs {A}. Arguments colap {A}. Arguments cbmin {A}. Arguments cLmin {A}.
Arguments cKdes {A}. Arguments clogfact {A}.
Arguments bf {A}. Arguments br {A}. Arguments bb {A}. Arguments bL {A}. Arguments bK {A}.

(* lpsd_plan = ltf_plan with bmin := 1.0, Lmin := 1 (schedulers.py:54-69) *)
Definition lpsd_cfg {A} (c : cfg A) : cfg A :=
  mkCfg (cN c) (cfs c) (colap c) (one A) 1 (cKdes c) (clogfact c).
