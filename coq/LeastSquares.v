(* LeastSquares.v — C19 (and the time-domain side of C08) for every polynomial order: what follows from the least-squares
   contract of np.polyfit.  A "fit" is any coefficient vector satisfying the normal equations (the residual is orthogonal to
   every basis function); that np.polyfit returns one is validated numerically on the implementation each run.  For ANY basis
   (the monomials t^k for polynomial_detrend) and any number of points:
     - the residual is orthogonal to every element of the span (every polynomial of degree <= p),
     - adding an element of the span to the input does not change the residual (removes the trend and nothing else),
     - an element of the span is detrended to zero, and detrending is idempotent. *)
From Coq Require Import List Reals Lra Lia Psatz.
From SK Require Import DetrendPoly.
Import ListNotations.
Open Scope R_scope.

Section LS.
Variables (n p1 : nat) (b : nat -> nat -> R).     (* b k i : basis function k at point i *)
Definition span (c : nat -> R) (i : nat) : R := Sum p1 (fun k => c k * b k i).
Definition resid (x c : nat -> R) (i : nat) : R := x i - span c i.
Definition normal_eqs (x c : nat -> R) : Prop := forall k, (k < p1)%nat -> Sum n (fun i => b k i * resid x c i) = 0.

Lemma span_add a c i : span (fun k => a k + c k) i = span a i + span c i.
Proof. unfold span. rewrite <- Sum_add. apply Sum_ext. intros k _. ring. Qed.
Lemma span_opp a i : span (fun k => - a k) i = - span a i.
Proof. unfold span. replace (- Sum p1 (fun k => a k * b k i)) with (-1 * Sum p1 (fun k => a k * b k i)) by ring. rewrite <- Sum_scale. apply Sum_ext. intros k _. ring. Qed.

Theorem residual_orthogonal_to_span x c a : normal_eqs x c -> Sum n (fun i => span a i * resid x c i) = 0.
Proof.
  intros NE. unfold span.
  replace (Sum n (fun i => Sum p1 (fun k => a k * b k i) * resid x c i))
     with (Sum n (fun i => Sum p1 (fun k => a k * (b k i * resid x c i)))).
  - rewrite Sum_swap. replace (Sum p1 (fun k => Sum n (fun i => a k * (b k i * resid x c i)))) with (Sum p1 (fun k => a k * 0)).
    + replace (Sum p1 (fun k => a k * 0)) with (Sum p1 (fun k => 0 * a k)) by (apply Sum_ext; intros; ring). rewrite Sum_scale. ring.
    + apply Sum_ext. intros k Hk. rewrite Sum_scale, NE by exact Hk. reflexivity.
  - apply Sum_ext. intros i _. rewrite (Rmult_comm (Sum p1 _)), <- Sum_scale. apply Sum_ext. intros k _. ring.
Qed.

Lemma Sum_nonneg m f : (forall i, (i < m)%nat -> 0 <= f i) -> 0 <= Sum m f.
Proof. induction m as [|m IH]; intros H; [unfold Sum; cbn; lra|]. rewrite Sum_S. specialize (H m ltac:(lia)) as Hm. assert (0 <= Sum m f) by (apply IH; intros; apply H; lia). lra. Qed.
Lemma Sum_sq_zero m f : Sum m (fun i => f i * f i) = 0 -> forall i, (i < m)%nat -> f i = 0.
Proof.
  induction m as [|m IH]; intros H i Hi; [lia|]. rewrite Sum_S in H.
  assert (H1 : 0 <= Sum m (fun i => f i * f i)) by (apply Sum_nonneg; intros; nra).
  assert (H2 : 0 <= f m * f m) by nra.
  destruct (Nat.eq_dec i m) as [->|Hne]; [nra|]. apply IH; [lra|lia].
Qed.

(* the heart: two fits of inputs that differ by an element of the span have the same residual *)
Theorem residual_ignores_span x x' a c c' :
  (forall i, (i < n)%nat -> x' i = x i + span a i) -> normal_eqs x c -> normal_eqs x' c' ->
  forall i, (i < n)%nat -> resid x' c' i = resid x c i.
Proof.
  intros Hx NE NE'.
  set (d := fun k => a k + (c k + - c' k)).
  assert (Hd : forall i, (i < n)%nat -> resid x' c' i - resid x c i = span d i).
  { intros i Hi. unfold resid, d. rewrite (Hx i Hi), !span_add, span_opp. ring. }
  assert (Hz : Sum n (fun i => span d i * span d i) = 0).
  { transitivity (Sum n (fun i => span d i * resid x' c' i + -1 * (span d i * resid x c i))).
    - apply Sum_ext. intros i Hi. rewrite <- (Hd i Hi). ring.
    - rewrite Sum_add, Sum_scale, !residual_orthogonal_to_span by assumption. ring. }
  intros i Hi. pose proof (Sum_sq_zero n (span d) Hz i Hi) as E. rewrite <- (Hd i Hi) in E. lra.
Qed.

Corollary span_is_detrended_to_zero a c :
  normal_eqs (span a) c -> forall i, (i < n)%nat -> resid (span a) c i = 0.
Proof.
  intros NE i Hi.
  assert (NE0 : normal_eqs (fun _ => 0) (fun _ => 0)).
  { intros k Hk. replace (Sum n (fun i0 => b k i0 * resid (fun _ => 0) (fun _ => 0) i0)) with (Sum n (fun i0 => 0 * b k i0)); [rewrite Sum_scale; ring|].
    apply Sum_ext. intros j _. unfold resid, span. replace (Sum p1 (fun k0 => 0 * b k0 j)) with 0; [ring|]. rewrite Sum_scale. ring. }
  rewrite (residual_ignores_span (fun _ => 0) (span a) a (fun _ => 0) c) by (try assumption; intros; ring).
  unfold resid, span. replace (Sum p1 (fun k0 => 0 * b k0 i)) with 0; [ring|]. rewrite Sum_scale. ring.
Qed.
Corollary detrend_idempotent x c c' :
  normal_eqs x c -> normal_eqs (resid x c) c' -> forall i, (i < n)%nat -> resid (resid x c) c' i = resid x c i.
Proof.
  intros NE NE' i Hi. apply (residual_ignores_span x (resid x c) (fun k => - c k) c c'); try assumption.
  intros j _. unfold resid. rewrite span_opp. ring.
Qed.
End LS.

(* the basis of dsp.polynomial_detrend: t = 0, 1, ..., n-1 and the monomials t^k, k = 0..order *)
Definition monomial (k i : nat) : R := INR i ^ k.
Definition polyval_at (order : nat) (c : nat -> R) (i : nat) : R := span (S order) monomial c i.
Theorem C19_polyfit_residual_orthogonal (n order : nat) x c a :
  normal_eqs n (S order) monomial x c -> Sum n (fun i => polyval_at order a i * resid (S order) monomial x c i) = 0.
Proof. apply residual_orthogonal_to_span. Qed.
Theorem C19_polynomial_detrended_to_zero (n order : nat) a c :
  normal_eqs n (S order) monomial (polyval_at order a) c -> forall i, (i < n)%nat -> resid (S order) monomial (polyval_at order a) c i = 0.
Proof. apply span_is_detrended_to_zero. Qed.

(* non-vacuity: three points (0,0), (1,1), (2,4), order 1: the least-squares line is -1/3 + 2 t *)
Example normal_eqs_satisfiable :
  normal_eqs 3 2 monomial (fun i => INR i * INR i) (fun k => match k with O => - / 3 | _ => 2 end).
Proof.
  intros k Hk. unfold Sum, resid, span, Sum, monomial. cbn [seq fold_left].
  destruct k as [|[|k]]; [| |lia]; cbn [pow INR]; field_simplify; lra.
Qed.
