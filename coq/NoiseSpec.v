(* NoiseSpec.v — C18: Hermitian construction of fftnoise (noise.py:521-548) as an index map, and the bilinear
   first-order section coefficients of alpha_noise (noise.py:424-435). *)
From Coq Require Import ZArith List Bool Reals Lra Lia Psatz.
From SK Require Import Arith.
Import ListNotations.

(* ---------------- Hermitian construction ---------------- *)
Section Herm.
Variable C : Type.
Variable conj : C -> C.
Variable realpart : C -> C.                   (* x -> Re(x) as a complex number *)
Variable mulc : C -> C -> C.
Hypothesis conj_invol : forall z, conj (conj z) = z.
Hypothesis conj_real : forall z, conj (realpart z) = realpart z.

Definition Np (N : Z) : Z := (N - 1) / 2.
(* the spectrum after:  F[1:Np+1] *= rot ; F[-1:-1-Np:-1] = conj(F[1:Np+1]) ; F[0] = Re F[0] ; (N even) F[N/2] = Re F[N/2] *)
Definition herm (N : Z) (F rot : Z -> C) (k : Z) : C :=
  if (k =? 0)%Z then realpart (F 0%Z)
  else if ((1 <=? k) && (k <=? Np N))%Z then mulc (F k) (rot k)
  else if ((N - Np N <=? k) && (k <=? N - 1))%Z then conj (mulc (F (N - k)%Z) (rot (N - k)%Z))
  else realpart (F k).

Theorem herm_hermitian N F rot k : (2 <= N)%Z -> (0 < k < N)%Z ->
  herm N F rot (N - k) = conj (herm N F rot k).
Proof.
  intros HN Hk. unfold herm, Np.
  assert (Hdiv : (2 * ((N - 1) / 2) <= N - 1 < 2 * ((N - 1) / 2) + 2)%Z).
  { pose proof (Z.mul_div_le (N - 1) 2). pose proof (Z.mul_succ_div_gt (N - 1) 2). lia. }
  set (P := ((N - 1) / 2)%Z) in *.
  destruct (Z.eqb_spec (N - k) 0); [lia|]. destruct (Z.eqb_spec k 0); [lia|].
  destruct (Z.leb_spec 1 k); [|lia]. destruct (Z.leb_spec 1 (N - k)); [|lia].
  destruct (Z.leb_spec k P); cbn [andb].
  - (* k in the randomised half: N-k is in the mirrored half *)
    destruct (Z.leb_spec (N - k) P); cbn [andb]; [lia|].
    destruct (Z.leb_spec (N - P) (N - k)); [|lia]. destruct (Z.leb_spec (N - k) (N - 1)); [|lia]. cbn [andb].
    replace (N - (N - k))%Z with k by lia. reflexivity.
  - destruct (Z.leb_spec (N - P) k); cbn [andb].
    + destruct (Z.leb_spec k (N - 1)); [|lia]. cbn [andb].
      destruct (Z.leb_spec (N - k) P); [|lia]. cbn [andb]. rewrite conj_invol. reflexivity.
    + (* the Nyquist bin of an even-length spectrum: k = N/2 = N - k *)
      assert (Hk2 : (N - k = k)%Z) by lia.
      destruct (Z.leb_spec (N - k) P); cbn [andb]; [lia|].
      destruct (Z.leb_spec (N - P) (N - k)); cbn [andb]; [lia|].
      rewrite Hk2, conj_real. reflexivity.
Qed.
Theorem herm_dc_real N F rot : herm N F rot 0 = realpart (F 0%Z).
Proof. reflexivity. Qed.
Theorem herm_nyquist_real N F rot : (2 <= N)%Z -> (N mod 2 = 0)%Z -> herm N F rot (N / 2) = realpart (F (N / 2)%Z).
Proof.
  intros HN He. unfold herm, Np.
  assert (H2 : (N = 2 * (N / 2))%Z) by (rewrite (Z.div_mod N 2) at 1 by lia; lia).
  assert (HP : ((N - 1) / 2 = N / 2 - 1)%Z).
  { symmetry. apply Z.div_unique with (r := 1%Z); lia. }
  rewrite HP. destruct (Z.eqb_spec (N / 2) 0); [lia|].
  destruct (Z.leb_spec 1 (N / 2)); [|lia]. destruct (Z.leb_spec (N / 2) (N / 2 - 1)); [lia|]. cbn [andb].
  destruct (Z.leb_spec (N - (N / 2 - 1)) (N / 2)); [lia|]. reflexivity.
Qed.
End Herm.

(* ---------------- first-order section coefficients ---------------- *)
Section Coeffs.
Variable A : Arith.
Variable piT : T A.
Definition sec_coeffs (fs fmin fmax : T A) : T A * T A * T A :=
  let pmin := mul A fmin piT in let pmax := mul A fmax piT in
  let den := add A fs pmin in
  (div A (add A fs pmax) den, div A (mul A (opp A (one A)) (sub A fs pmax)) den, div A (sub A fs pmin) den).
End Coeffs.

Open Scope R_scope.
(* numerator a0 + a1 z^-1, denominator 1 - b1 z^-1 (the cascade uses -b1): DC gain fmax/fmin, Nyquist gain 1, pole inside the unit circle *)
Theorem section_dc_gain fs fmin fmax : 0 < fs -> 0 < fmin -> 0 < fmax ->
  let '(a0, a1, b1) := sec_coeffs RA PI fs fmin fmax in (a0 + a1) / (1 - b1) = fmax / fmin.
Proof.
  intros Hfs Hmin Hmax. unfold sec_coeffs. cbn [add sub mul div opp one RA].
  pose proof PI_RGT_0. assert (0 < fs + fmin * PI) by nra. field. repeat split; nra.
Qed.
Theorem section_nyquist_gain fs fmin fmax : 0 < fs -> 0 < fmin -> 0 < fmax ->
  let '(a0, a1, b1) := sec_coeffs RA PI fs fmin fmax in (a0 - a1) / (1 + b1) = 1.
Proof.
  intros Hfs Hmin Hmax. unfold sec_coeffs. cbn [add sub mul div opp one RA].
  pose proof PI_RGT_0. assert (0 < fs + fmin * PI) by nra. field. repeat split; nra.
Qed.
Theorem section_pole_inside fs fmin fmax : 0 < fs -> 0 < fmin ->
  let '(_, _, b1) := sec_coeffs RA PI fs fmin fmax in -1 < b1 < 1.
Proof.
  intros Hfs Hmin. unfold sec_coeffs. cbn [add sub mul div opp one RA].
  pose proof PI_RGT_0. assert (Hd : 0 < fs + fmin * PI) by nra.
  split.
  - apply Rmult_lt_reg_r with (fs + fmin * PI); [exact Hd|]. unfold Rdiv. rewrite Rmult_assoc, Rinv_l by lra. nra.
  - apply Rmult_lt_reg_r with (fs + fmin * PI); [exact Hd|]. unfold Rdiv. rewrite Rmult_assoc, Rinv_l by lra. nra.
Qed.
(* squared magnitude response of one section at digital frequency w (closed form used by the analytic sweep) *)
Definition sec_mag2 (a0 a1 b1 w : R) : R := (a0 * a0 + a1 * a1 + 2 * a0 * a1 * cos w) / (1 + b1 * b1 - 2 * b1 * cos w).
Theorem sec_mag2_is_response a0 a1 b1 w : 1 + b1 * b1 - 2 * b1 * cos w <> 0 ->
  (* |a0 + a1 e^{-iw}|^2 / |1 - b1 e^{-iw}|^2 *)
  ((a0 + a1 * cos w) * (a0 + a1 * cos w) + (a1 * sin w) * (a1 * sin w)) / ((1 - b1 * cos w) * (1 - b1 * cos w) + (b1 * sin w) * (b1 * sin w))
  = sec_mag2 a0 a1 b1 w.
Proof.
  intros H. unfold sec_mag2. assert (Hc : cos w * cos w = 1 - sin w * sin w) by (pose proof (sin2_cos2 w) as E; unfold Rsqr in E; lra).
  assert (E1 : (1 - b1 * cos w) * (1 - b1 * cos w) + b1 * sin w * (b1 * sin w) = 1 + b1 * b1 - 2 * b1 * cos w) by (ring [Hc]).
  assert (E2 : (a0 + a1 * cos w) * (a0 + a1 * cos w) + a1 * sin w * (a1 * sin w) = a0 * a0 + a1 * a1 + 2 * a0 * a1 * cos w) by (ring [Hc]).
  rewrite E1, E2. reflexivity.
Qed.
