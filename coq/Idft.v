(* Idft.v — C18: the inverse DFT of a Hermitian spectrum (F[N-k] = conj F[k], F[0] real) is exactly real, for every length N
   (odd or even) — so taking `.real` in fftnoise discards nothing and the DFT of the returned series is the constructed F. *)
From Coq Require Import List Reals Lra Lia Psatz.
From SK Require Import DetrendPoly.
Import ListNotations.
Open Scope R_scope.

Lemma Sum_shift m f : Sum (S m) f = f 0%nat + Sum m (fun j => f (S j)).
Proof. induction m as [|m IH]; [unfold Sum; cbn; lra|]. rewrite Sum_S, IH, Sum_S. lra. Qed.
Lemma Sum_reverse m f : Sum m f = Sum m (fun j => f (m - 1 - j)%nat).
Proof.
  induction m as [|m IH]; [reflexivity|]. rewrite Sum_S, Sum_shift.
  replace (S m - 1 - 0)%nat with m by lia. rewrite IH. rewrite Rplus_comm. f_equal.
  apply Sum_ext. intros j Hj. f_equal. lia.
Qed.

Section Idft.
Variables (N n : nat) (re im : nat -> R).
Hypothesis HN : (1 <= N)%nat.
Hypothesis Hherm_re : forall k, (0 < k < N)%nat -> re (N - k)%nat = re k.
Hypothesis Hherm_im : forall k, (0 < k < N)%nat -> im (N - k)%nat = - im k.
Hypothesis Hdc : im 0%nat = 0.

Definition theta (k : nat) : R := 2 * PI * INR k * INR n / INR N.
(* Im of  F_k * exp(+i theta_k) *)
Definition im_term (k : nat) : R := re k * sin (theta k) + im k * cos (theta k).
Definition re_term (k : nat) : R := re k * cos (theta k) - im k * sin (theta k).

Lemma theta_mirror k : (0 < k < N)%nat -> theta (N - k) = - theta k + 2 * INR n * PI.
Proof.
  intros Hk. unfold theta. rewrite minus_INR by lia. assert (INR N <> 0) by (apply not_0_INR; lia). field. assumption.
Qed.
Lemma im_term_mirror k : (0 < k < N)%nat -> im_term (N - k) = - im_term k.
Proof.
  intros Hk. unfold im_term. rewrite theta_mirror, sin_period, cos_period, sin_neg, cos_neg, Hherm_re, Hherm_im by exact Hk. ring.
Qed.
Theorem idft_of_hermitian_is_real : Sum N im_term = 0.
Proof.
  set (m := (N - 1)%nat). assert (EN : N = S m) by (unfold m; lia). rewrite EN at 1. rewrite Sum_shift.
  assert (H0 : im_term 0 = 0). { unfold im_term, theta. rewrite Hdc. replace (2 * PI * INR 0 * INR n / INR N) with 0 by (cbn [INR]; unfold Rdiv; ring). rewrite sin_0. ring. }
  rewrite H0, Rplus_0_l.
  set (S1 := Sum m (fun j => im_term (S j))).
  assert (E : S1 = - S1).
  { unfold S1 at 1. rewrite Sum_reverse.
    replace (- S1) with (-1 * S1) by ring. unfold S1. rewrite <- Sum_scale. apply Sum_ext. intros j Hj.
    replace (S (m - 1 - j)) with (N - S j)%nat by lia. rewrite im_term_mirror by lia. ring. }
  lra.
Qed.
End Idft.

(* ---- the spectrum constructed by fftnoise (NoiseSpec.herm at complex = pairs of reals) ---- *)
From Coq Require Import ZArith.
From SK Require Import Systems NoiseSpec.
Definition crealpart (z : C) : C := (fst z, 0).
Definition hermC (N : Z) (F rot : Z -> C) (k : Z) : C := herm C cconj crealpart cmul N F rot k.
Lemma cconj_invol z : cconj (cconj z) = z.
Proof. destruct z. unfold cconj. cbn. f_equal. ring. Qed.
Lemma cconj_real z : cconj (crealpart z) = crealpart z.
Proof. unfold cconj, crealpart. cbn. f_equal. ring. Qed.

Theorem fftnoise_ifft_is_real (N : nat) (F rot : Z -> C) (n : nat) : (2 <= N)%nat ->
  Sum N (im_term N n (fun k => fst (hermC (Z.of_nat N) F rot (Z.of_nat k))) (fun k => snd (hermC (Z.of_nat N) F rot (Z.of_nat k)))) = 0.
Proof.
  intros HN. apply idft_of_hermitian_is_real; [lia| | |].
  - intros k Hk. unfold hermC. rewrite Nat2Z.inj_sub by lia.
    rewrite (herm_hermitian C cconj crealpart cmul cconj_invol cconj_real) by lia. reflexivity.
  - intros k Hk. unfold hermC. rewrite Nat2Z.inj_sub by lia.
    rewrite (herm_hermitian C cconj crealpart cmul cconj_invol cconj_real) by lia. reflexivity.
  - reflexivity.
Qed.

(* magnitudes: unit-modulus phase factors and conjugation leave |F_k| unchanged *)
Lemma cabs2_cmul z r : cabs2 (cmul z r) = cabs2 z * cabs2 r.
Proof. destruct z, r. unfold cabs2, cmul. cbn [fst snd]. ring. Qed.
Lemma cabs2_cconj z : cabs2 (cconj z) = cabs2 z.
Proof. destruct z. unfold cabs2, cconj. cbn [fst snd]. ring. Qed.
Theorem fftnoise_magnitudes (N : Z) (F rot : Z -> C) (k : Z) : (2 <= N)%Z ->
  (forall j, cabs2 (rot j) = 1) ->
  ((1 <= k <= Np N)%Z -> cabs2 (hermC N F rot k) = cabs2 (F k)) /\
  ((N - Np N <= k <= N - 1)%Z -> cabs2 (hermC N F rot k) = cabs2 (F (N - k)%Z)).
Proof.
  intros HN Hrot. unfold hermC, herm.
  assert (Hdiv : (2 * Np N <= N - 1 < 2 * Np N + 2)%Z).
  { unfold Np. pose proof (Z.mul_div_le (N - 1) 2). pose proof (Z.mul_succ_div_gt (N - 1) 2). lia. }
  split; intros Hk.
  - destruct (Z.eqb_spec k 0); [lia|]. destruct (Z.leb_spec 1 k); [|lia]. destruct (Z.leb_spec k (Np N)); [|lia]. cbn [andb].
    rewrite cabs2_cmul, Hrot. ring.
  - destruct (Z.eqb_spec k 0); [lia|]. destruct (Z.leb_spec 1 k); [|lia]. destruct (Z.leb_spec k (Np N)); [lia|]. cbn [andb].
    destruct (Z.leb_spec (N - Np N) k); [|lia]. destruct (Z.leb_spec k (N - 1)); [|lia]. cbn [andb].
    rewrite cabs2_cconj, cabs2_cmul, Hrot. ring.
Qed.
