(* AttrThms3.v — C07 on the GENERATED attribute table: gain and phase (with sign) of the transfer-function estimate. *)
From Coq Require Import ZArith List Bool Reals Lra Lia Psatz.
From SK Require Import Arith Cpx AttrThms.
From SK.gen Require Import AttrsGen.
Open Scope R_scope.

Section TF.
Variable angle : R * R -> R. Variable unwrap : R -> R.
Notation F := (FR angle unwrap).
Implicit Type e : env RA.

(* second channel = g * first: the kernels give XY = g XX (real) and YY = g^2 XX (KernelThms2.pw_csd_gain, averaged) *)
Theorem gain_recovered e (g : R) : e_XX e <> 0 -> g <> 0 ->
  e_XY e = (g * e_XX e, 0) -> e_YY e = g * g * e_XX e ->
  g_Hxy_csd RA F e = (g, 0) /\ g_coh_csd RA F e = 1.
Proof.
  intros HX Hg HXY HYY. split.
  - unfold g_Hxy_csd. assert (E : negb (eqb RA (e_XX e) (ofZ RA 0)) = true) by (apply neqb_true; exact HX).
    rewrite E, HXY. unfold cdivr, cconj. cbn [fst snd div opp RA]. f_equal; simpl T in *; field; exact HX.
  - assert (HY : e_YY e <> 0).
    { rewrite HYY. simpl T in *. apply Rmult_integral_contrapositive_currified; [apply Rmult_integral_contrapositive_currified; assumption|exact HX]. }
    rewrite coh_value by assumption.
    rewrite HXY, HYY. unfold cabs2. cbn [fst snd]. simpl T in *. field. split; [exact HX|exact Hg].
Qed.

(* Hxy = conj(XY)/XX: with XY = mean X conj(Y) this is mean conj(X) Y / mean |X|^2, i.e. "Y over X" *)
Theorem Hxy_is_conjXY_over_XX e : e_XX e <> 0 ->
  g_Hxy_csd RA F e = (fst (e_XY e) / e_XX e, - snd (e_XY e) / e_XX e).
Proof.
  intros HX. unfold g_Hxy_csd. assert (E : negb (eqb RA (e_XX e) (ofZ RA 0)) = true) by (apply neqb_true; exact HX).
  rewrite E. reflexivity.
Qed.

(* a lagging output has NEGATIVE phase: if XY = XX e^{+i th} (what X conj(Y) is for Y = X e^{-i th}), Hxy = e^{-i th} *)
Theorem delay_gives_negative_phase e (th : R) : e_XX e <> 0 ->
  e_XY e = (e_XX e * cos th, e_XX e * sin th) -> g_Hxy_csd RA F e = (cos th, - sin th).
Proof.
  intros HX HXY. rewrite Hxy_is_conjXY_over_XX by exact HX. rewrite HXY. cbn [fst snd]. f_equal; simpl T in *; field; exact HX.
Qed.
End TF.
