(* Lagrange.v — C16: the centred Lagrange taps of dsp.lagrange_taps (dsp.py:1280-1345), operation for operation,
   generic in the carrier (bit-exact at binary64), and what they are at the reals. *)
From Coq Require Import ZArith List Bool Reals Lra Lia Psatz.
From SK Require Import Arith.
Import ListNotations.

Section Taps.
Variable A : Arith.
Local Notation "x +! y" := (add A x y) (at level 50, left associativity).
Local Notation "x -! y" := (sub A x y) (at level 50, left associativity).
Local Notation "x *! y" := (mul A x y) (at level 40, left associativity).
Local Notation "x /! y" := (div A x y) (at level 40, left associativity).
Local Notation "'zZ' z" := (ofZ A z) (at level 30).

(* (-1) * (1 - j/halfp) / (1 + j/halfp) — Python scalar arithmetic *)
Definition cfac (h j : Z) : T A := (zZ (-1) *! (zZ 1 -! zZ j /! zZ h)) /! (zZ 1 +! zZ j /! zZ h).
(* factor after the iteration j of the first loop *)
Definition factor (h : Z) (d : T A) (j : nat) : T A :=
  fold_left (fun f i => f *! cfac h (Z.of_nat i)) (seq 1 j) (one A *! (d *! (one A -! d))).
(* the two `taps *=` passes applied to one tap *)
Definition post (h : Z) (d : T A) (t : T A) : T A :=
  fold_left (fun t i => t *! (zZ 1 -! (d /! zZ (Z.of_nat i)) *! (d /! zZ (Z.of_nat i)))) (seq 2 (Z.to_nat h - 2)) t
  *! ((zZ 1 +! d) *! (zZ 1 -! d /! zZ h)).
Definition tap (h : Z) (d : T A) (k : Z) : T A :=
  if (h =? 1)%Z then (if (k =? 0)%Z then zZ 1 -! d else d) else
  if (k =? h - 1)%Z then post h d (zZ 1 -! d)
  else if (k =? h)%Z then post h d d
  else if (k <? h - 1)%Z then let j := (h - 1 - k)%Z in post h d (factor h d (Z.to_nat j) /! (zZ j +! d))
  else let j := (k - h)%Z in post h d (factor h d (Z.to_nat j) /! (zZ (j + 1) -! d)).
Definition taps (h : Z) (d : T A) : list (T A) := map (fun k => tap h d (Z.of_nat k)) (seq 0 (Z.to_nat (2 * h))).

(* constant-shift path of timeshift: floor/fraction split, edge hold, valid correlation:
   out[n] = sum_k taps[k] * data[clamp(n + floor(s) - (h-1) + k)] *)
Definition clampZ (lo hi x : Z) : Z := Z.max lo (Z.min hi x).
Definition timeshift_const (data : list (T A)) (s : T A) (h : Z) : list (T A) :=
  let si := floorZ A s in
  let d := s -! zZ si in
  let tp := taps h d in
  let N := Z.of_nat (length data) in
  map (fun n => fold_left (fun acc k => acc +! nth k tp (zero A) *! nth (Z.to_nat (clampZ 0 (N - 1) (Z.of_nat n + si - (h - 1) + Z.of_nat k))) data (zero A))
                          (seq 0 (Z.to_nat (2 * h))) (zero A))
      (seq 0 (length data)).
(* time-varying path: per-sample floor/fraction split, index clipped to [-(h+1), N+h-1], zero padding, sliding window:
   out[n] = sum_k taps(d_n)[k] * data0[clip(n + floor(s_n)) - (h-1) + k],  data0 = data extended by zeros *)
Definition data0 (data : list (T A)) (z : Z) : T A :=
  if ((0 <=? z) && (z <? Z.of_nat (length data)))%Z then nth (Z.to_nat z) data (zero A) else zero A.
Definition timeshift_var (data shifts : list (T A)) (h : Z) : list (T A) :=
  let N := Z.of_nat (length data) in
  map (fun n => let s := nth n shifts (zero A) in
                let si := floorZ A s in
                let d := s -! zZ si in
                let tp := taps h d in
                let idx := clampZ (- (h + 1)) (N + (h - 1)) (Z.of_nat n + si) in
                fold_left (fun acc k => acc +! nth k tp (zero A) *! data0 data (idx - (h - 1) + Z.of_nat k))
                          (seq 0 (Z.to_nat (2 * h))) (zero A))
      (seq 0 (length data)).
End Taps.

(* ------------------------------------------------------------------ at the reals *)
Open Scope R_scope.

Lemma fold_mul_zero {X} (g : X -> R) (l : list X) : fold_left (fun t i => t * g i) l 0 = 0.
Proof. induction l as [|x l IH]; cbn [fold_left]; [reflexivity|]. rewrite Rmult_0_l. exact IH. Qed.
Lemma fold_mul_one {X} (g : X -> R) (l : list X) : (forall i, In i l -> g i = 1) -> forall t, fold_left (fun t i => t * g i) l t = t.
Proof.
  induction l as [|x l IH]; intros H t; cbn [fold_left]; [reflexivity|].
  rewrite H by (left; reflexivity). rewrite Rmult_1_r. apply IH. intros i Hi. apply H. right. exact Hi.
Qed.

Lemma factor_at_zero h j : factor RA h 0 j = 0.
Proof.
  unfold factor. cbn [one mul sub RA]. assert (E : 1 * (0 * (1 - 0)) = 0) by ring. simpl T in *. rewrite E. apply fold_mul_zero.
Qed.
Lemma post_at_zero_of_zero h : post RA h 0 0 = 0.
Proof. unfold post. cbn [mul RA]. rewrite fold_mul_zero. apply Rmult_0_l. Qed.
Lemma post_at_zero h t : (1 <= h)%Z -> post RA h 0 t = t.
Proof.
  intros Hh. unfold post. cbn [mul sub add div ofZ RA].
  rewrite fold_mul_one.
  - unfold Rdiv. rewrite !Rmult_0_l. simpl T in *. ring.
  - intros i _. unfold Rdiv. rewrite !Rmult_0_l. simpl T in *. ring.
Qed.

(* an integer shift (fraction 0) has a single unit tap at the centre-left node: pure displacement *)
Theorem taps_at_zero h k : (1 <= h)%Z -> (0 <= k < 2 * h)%Z ->
  tap RA h 0 k = if (k =? h - 1)%Z then 1 else 0.
Proof.
  intros Hh Hk. unfold tap.
  destruct (Z.eqb_spec h 1) as [->|Hne].
  - cbn [ofZ sub RA Z.sub Z.add Z.opp Z.pos_sub]. destruct (Z.eqb_spec k 0) as [->|]; [lra|reflexivity].
  - destruct (Z.eqb_spec k (h - 1)) as [->|Hk1].
    + rewrite post_at_zero by exact Hh. cbn [ofZ sub RA]. lra.
    + destruct (Z.eqb_spec k h) as [->|Hk2]; [apply post_at_zero_of_zero|].
      destruct (Z.ltb_spec k (h - 1)).
      * rewrite factor_at_zero. cbn [div RA]. unfold Rdiv. rewrite Rmult_0_l. apply post_at_zero_of_zero.
      * rewrite factor_at_zero. cbn [div RA]. unfold Rdiv. rewrite Rmult_0_l. apply post_at_zero_of_zero.
Qed.

(* order 1: linear interpolation, weights 1-d and d (textbook, sum one) *)
Theorem taps_linear d : taps RA 1 d = [1 - d; d].
Proof. reflexivity. Qed.

(* order 3 (halfp = 2): the four taps are the textbook Lagrange weights on the nodes -1, 0, 1, 2 *)
Definition lagrange_weight (nodes : list R) (k : nat) (x : R) : R :=
  fold_left (fun acc m => if Nat.eqb m k then acc else acc * ((x - nth m nodes 0) / (nth k nodes 0 - nth m nodes 0)))
            (seq 0 (length nodes)) 1.
Theorem taps_cubic_textbook d : 0 <= d < 1 ->
  taps RA 2 d = map (fun k => lagrange_weight [-1; 0; 1; 2] k d) [0; 1; 2; 3]%nat.
Proof.
  intros Hd.
  assert (H : forall a b c e a' b' c' e' : R, a = a' -> b = b' -> c = c' -> e = e' -> [a; b; c; e] = [a'; b'; c'; e']) by (intros; subst; reflexivity).
  vm_compute taps. unfold lagrange_weight. cbn [map length seq fold_left Nat.eqb nth].
  apply H; simpl T in *; field; repeat split; try lra.
Qed.
