(* Arith.v — arithmetic carriers: one signature, three instances.
   FloatA : IEEE-754 binary64 (Coq primitive floats), bit-exact execution.
   QA     : exact rationals (every finite float is a dyadic rational).
   RA     : Coq reals — where theorems are proved.
   Rounding-to-integer functions are *exact on the value* in every carrier. *)
From Coq Require Import ZArith QArith Qround Reals List Bool Lia Lra.
From Coq Require Import Uint63 PrimFloat FloatClass.
From Flocq Require Import Raux.
Import ListNotations.

Record Arith := mkArith {
  T : Type;
  zero : T; one : T;
  add : T -> T -> T; sub : T -> T -> T; mul : T -> T -> T; div : T -> T -> T;
  opp : T -> T;
  ofZ : Z -> T;
  ltb : T -> T -> bool; leb : T -> T -> bool; eqb : T -> T -> bool;
  isfinite : T -> bool;
  floorZ : T -> Z;   (* exact floor of the value (meaningful when isfinite) *)
  rhuZ : T -> Z;     (* floor (x + 1/2): Python round_half_up, int(x+0.5) for x>=0 *)
  rintZ : T -> Z;    (* nearest, ties to even: np.round / Python round *)
  truncZ : T -> Z;   (* toward zero: Python int() *)
}.

(* ---------- exact helpers on dyadic values m * 2^e ---------- *)
Definition pow2 (n : Z) : Z := Z.shiftl 1 n.   (* = 2 ^ n, computed by shifting *)
Definition dy_floor (m e : Z) : Z :=
  if (m =? 0)%Z then 0%Z else
  if (0 <=? e)%Z then (m * pow2 e)%Z else (m / pow2 (- e))%Z.
Definition dy_rhu (m e : Z) : Z :=
  if (m =? 0)%Z then 0%Z else
  if (0 <=? e)%Z then (m * pow2 e)%Z else ((m + pow2 (- e - 1)) / pow2 (- e))%Z.
Definition dy_rint (m e : Z) : Z :=
  if (m =? 0)%Z then 0%Z else
  if (0 <=? e)%Z then (m * pow2 e)%Z else
    let q := ((m + pow2 (- e - 1)) / pow2 (- e))%Z in
    let r := ((m + pow2 (- e - 1)) mod pow2 (- e))%Z in
    if (r =? 0)%Z && Z.odd q then (q - 1)%Z else q.
Definition dy_trunc (m e : Z) : Z :=
  if (0 <=? m)%Z then dy_floor m e else (- dy_floor (- m) e)%Z.

(* ---------- FloatA ---------- *)
Definition f_decode (x : float) : option (Z * Z) :=
  match classify x with
  | NaN | PInf | NInf => None
  | _ => let '(m, e) := frshiftexp x in
         let mant := Uint63.to_Z (normfr_mantissa m) in
         let s := if PrimFloat.ltb x 0%float then (-1)%Z else 1%Z in
         Some ((s * mant)%Z, (Uint63.to_Z e - 2101 - 53)%Z)
  end.
Definition f_isfinite (x : float) : bool :=
  match classify x with NaN | PInf | NInf => false | _ => true end.
Definition f_lift (g : Z -> Z -> Z) (x : float) : Z :=
  match f_decode x with Some (m, e) => g m e | None => 0%Z end.
Definition f_ofZ (z : Z) : float :=
  if (z <? 0)%Z then PrimFloat.opp (of_uint63 (Uint63.of_Z (- z))) else of_uint63 (Uint63.of_Z z).

Definition FloatA : Arith := {|
  T := float; zero := 0%float; one := 1%float;
  add := PrimFloat.add; sub := PrimFloat.sub; mul := PrimFloat.mul; div := PrimFloat.div;
  opp := PrimFloat.opp; ofZ := f_ofZ;
  ltb := PrimFloat.ltb; leb := PrimFloat.leb; eqb := PrimFloat.eqb;
  isfinite := f_isfinite;
  floorZ := f_lift dy_floor; rhuZ := f_lift dy_rhu; rintZ := f_lift dy_rint; truncZ := f_lift dy_trunc |}.

(* ---------- QA ---------- *)
Definition q_rhu (x : Q) : Z := Qfloor (x + (1#2)).
Definition q_rint (x : Q) : Z :=
  let q := Qfloor (x + (1#2)) in
  if Qeq_bool (x + (1#2)) (inject_Z q) && Z.odd q then (q - 1)%Z else q.
Definition q_trunc (x : Q) : Z := if Qle_bool 0 x then Qfloor x else (- Qfloor (- x))%Z.
Definition q_ltb (a b : Q) : bool := negb (Qle_bool b a).
Definition QA : Arith := {|
  T := Q; zero := 0%Q; one := 1%Q;
  add := fun a b => Qred (Qplus a b); sub := fun a b => Qred (Qminus a b); mul := fun a b => Qred (Qmult a b);
  div := fun a b => Qred (Qdiv a b); opp := Qopp; ofZ := inject_Z;
  ltb := q_ltb; leb := Qle_bool; eqb := Qeq_bool;
  isfinite := fun _ => true;
  floorZ := Qfloor; rhuZ := q_rhu; rintZ := q_rint; truncZ := q_trunc |}.

(* exact value of a finite float as a rational *)
Definition f2q (x : float) : Q :=
  match f_decode x with
  | Some (m, e) => if (0 <=? e)%Z then inject_Z (m * pow2 e) else Qmake m (Z.to_pos (pow2 (- e)))
  | None => 0%Q
  end.

(* ---------- RA ---------- *)
Definition r_ltb (a b : R) : bool := if Rlt_dec a b then true else false.
Definition r_leb (a b : R) : bool := if Rle_dec a b then true else false.
Definition r_eqb (a b : R) : bool := if Req_EM_T a b then true else false.
Definition r_rhu (x : R) : Z := Zfloor (x + /2).
Definition r_rint (x : R) : Z :=
  let q := Zfloor (x + /2) in
  if r_eqb (x + /2) (IZR q) && Z.odd q then (q - 1)%Z else q.
Definition r_trunc (x : R) : Z := if r_leb 0 x then Zfloor x else (- Zfloor (- x))%Z.
Definition RA : Arith := {|
  T := R; zero := 0%R; one := 1%R;
  add := Rplus; sub := Rminus; mul := Rmult; div := Rdiv; opp := Ropp; ofZ := IZR;
  ltb := r_ltb; leb := r_leb; eqb := r_eqb;
  isfinite := fun _ => true;
  floorZ := Zfloor; rhuZ := r_rhu; rintZ := r_rint; truncZ := r_trunc |}.

Lemma r_ltb_true a b : r_ltb a b = true <-> (a < b)%R.
Proof. unfold r_ltb; destruct (Rlt_dec a b); split; intros; try easy. Qed.
Lemma r_ltb_false a b : r_ltb a b = false <-> (b <= a)%R.
Proof. unfold r_ltb; destruct (Rlt_dec a b); split; intros; try easy; lra. Qed.
Lemma r_leb_true a b : r_leb a b = true <-> (a <= b)%R.
Proof. unfold r_leb; destruct (Rle_dec a b); split; intros; try easy. Qed.
Lemma r_leb_false a b : r_leb a b = false <-> (b < a)%R.
Proof. unfold r_leb; destruct (Rle_dec a b); split; intros; try easy; lra. Qed.
Lemma r_eqb_true a b : r_eqb a b = true <-> a = b.
Proof. unfold r_eqb; destruct (Req_EM_T a b); split; intros; try easy. Qed.

Lemma r_rhu_bracket x : (IZR (r_rhu x) - /2 <= x < IZR (r_rhu x) + /2)%R.
Proof.
  unfold r_rhu. pose proof (Zfloor_lb (x + /2)). pose proof (Zfloor_ub (x + /2)). lra.
Qed.
Lemma r_rint_bracket x : (IZR (r_rint x) - /2 <= x <= IZR (r_rint x) + /2)%R.
Proof.
  unfold r_rint. pose proof (Zfloor_lb (x + /2)). pose proof (Zfloor_ub (x + /2)).
  destruct (r_eqb (x + / 2) (IZR (Zfloor (x + / 2))) && Z.odd (Zfloor (x + / 2))) eqn:E.
  - apply andb_prop in E. destruct E as [E _]. apply r_eqb_true in E.
    rewrite minus_IZR. lra.
  - lra.
Qed.
Lemma r_rhu_IZR z : r_rhu (IZR z) = z.
Proof.
  unfold r_rhu. apply Zfloor_imp. rewrite plus_IZR. lra.
Qed.
Lemma r_rhu_mono x y : (x <= y)%R -> (r_rhu x <= r_rhu y)%Z.
Proof. intros. unfold r_rhu. apply Zfloor_le. lra. Qed.
Lemma r_rint_IZR z : r_rint (IZR z) = z.
Proof.
  unfold r_rint. assert (H : Zfloor (IZR z + /2) = z) by (apply Zfloor_imp; rewrite plus_IZR; lra).
  rewrite H. destruct (r_eqb (IZR z + / 2) (IZR z)) eqn:E; [apply r_eqb_true in E; lra | reflexivity].
Qed.
