(* SchedRun.v — FloatA runners used by the correspondence check (evaluated by vm_compute). *)
From Coq Require Import ZArith List Bool PrimFloat.
From SK Require Import Arith Sched.
Import ListNotations.
Open Scope Z_scope.

Definition tbl_lookup (tbl : list (float * float)) (x : float) : option float :=
  match find (fun p => PrimFloat.eqb (fst p) x) tbl with Some p => Some (snd p) | None => None end.

Definition Pmod : Z := 2305843009213693951.
Definition dhash (l : list Z) : Z :=
  snd (fold_left (fun ih d => (fst ih + 1, (snd ih + fst ih * d) mod Pmod)) l (1, 0)).
Definition dsum (l : list Z) : list Z := [Z.of_nat (length l); dhash l; hd (-1) l; last l (-1)].

Definition O_iter (l : Z) (d : list Z) : float :=
  match d with
  | [] | [_] => 0%float
  | _ :: tl =>
    let diffs := map (fun p => snd p - fst p) (combine d tl) in
    let s := fold_left (fun acc x => PrimFloat.add acc (PrimFloat.div (f_ofZ (l - x)) (f_ofZ l))) diffs 0%float in
    PrimFloat.div s (f_ofZ (Z.of_nat (length diffs)))
  end.

Definition pack (bs : list (bin FloatA)) (starts : Z -> Z -> list Z) (ov : Z -> Z -> list Z -> float) :=
  (0, flat_map (fun b : bin FloatA => [(bf b : float); (br b : float); (bb b : float); ov (bL b) (bK b) (starts (bL b) (bK b))]) bs,
      flat_map (fun b => [bL b; bK b] ++ dsum (starts (bL b) (bK b))) bs).

Definition fail (code : Z) : Z * list float * list Z := (code, [], []).

Definition run_ltf (fuel : nat) (N : Z) (fs olap bmin : float) (Lmin Kdes : Z) (logfact : float)
           (tbl : list (float * float)) :=
  let c : cfg FloatA := @mkCfg FloatA N fs olap bmin Lmin Kdes logfact in
  match ltf_bins FloatA (tbl_lookup tbl) fuel c with
  | Ok bs => pack bs (starts_iter FloatA c) (fun l _ d => O_iter l d)
  | OracleMiss => fail 1 | OutOfFuel => fail 2 | NonFinite => fail 3
  end.

Definition run_vec (fuel : nat) (N : Z) (fs olap bmin : float) (Lmin Kdes : Z) (logfact : float)
           (grid : list float) :=
  let c : cfg FloatA := @mkCfg FloatA N fs olap bmin Lmin Kdes logfact in
  match vec_bins FloatA PrimFloat.sqrt fuel c grid with
  | Ok bs => pack bs (starts_vec FloatA c) (fun l k _ => O_vec FloatA c l k)
  | OracleMiss => fail 1 | OutOfFuel => fail 2 | NonFinite => fail 3
  end.

(* new_ltf_plan *)
From SK Require Import NewLtf.
Definition run_new (fuel : nat) (N : Z) (fs olap bmin : float) (Lmin Kdes : Z) (logfact : float) (Jdes : Z)
           (tpow texp tlog : list (float * float)) :=
  let c : cfg FloatA := @mkCfg FloatA N fs olap bmin Lmin Kdes logfact in
  match new_bins FloatA (tbl_lookup tpow) (tbl_lookup texp) (tbl_lookup tlog) fuel c Jdes with
  | Ok bs => pack bs (starts_vec FloatA c) (fun l k _ => O_vec FloatA c l k)
  | OracleMiss => fail 1 | OutOfFuel => fail 2 | NonFinite => fail 3
  end.
