(* DetrendPoly.v — C08, polynomial orders: with a basis Q whose columns are orthonormal over the segment, adding to the record
   any combination of the basis columns (i.e. any polynomial of degree <= p when Q spans them) leaves every detrended,
   windowed sample unchanged — hence all statistics. Q's orthonormality is the LAPACK-QR contract (validated numerically each run). *)
From Coq Require Import ZArith List Bool Reals Lra Lia Psatz.
From SK Require Import Arith KernelPrims Kernels KernelThms KernelThms2.
Import ListNotations.
Open Scope R_scope.

(* finite sums  sum_{i<n} f i  in the left-fold form the kernels use *)
Definition Sum (n : nat) (f : nat -> R) : R := fold_left (fun a i => a + f i) (seq 0 n) 0.
Lemma fold_add_acc (f : nat -> R) l : forall a, fold_left (fun a i => a + f i) l a = a + fold_left (fun a i => a + f i) l 0.
Proof. induction l as [|x l IH]; intros a; cbn [fold_left]; [lra|]. rewrite IH, (IH (0 + f x)). lra. Qed.
Lemma Sum_S n f : Sum (S n) f = Sum n f + f n.
Proof. unfold Sum. rewrite seq_S, fold_left_app. cbn [fold_left Nat.add]. reflexivity. Qed.
Lemma Sum_ext n f g : (forall i, (i < n)%nat -> f i = g i) -> Sum n f = Sum n g.
Proof. induction n as [|n IH]; intros H; [reflexivity|]. rewrite !Sum_S, IH by (intros; apply H; lia). rewrite H by lia. reflexivity. Qed.
Lemma Sum_add n f g : Sum n (fun i => f i + g i) = Sum n f + Sum n g.
Proof. induction n as [|n IH]; [unfold Sum; cbn; lra|]. rewrite !Sum_S, IH. lra. Qed.
Lemma Sum_scale n c f : Sum n (fun i => c * f i) = c * Sum n f.
Proof. induction n as [|n IH]; [unfold Sum; cbn; lra|]. rewrite !Sum_S, IH. lra. Qed.
Lemma Sum_swap n m (f : nat -> nat -> R) : Sum n (fun i => Sum m (fun j => f i j)) = Sum m (fun j => Sum n (fun i => f i j)).
Proof.
  induction n as [|n IH].
  - unfold Sum at 1. cbn [seq fold_left]. symmetry. rewrite <- (Rmult_0_l (Sum m (fun _ => 0))).
    replace (Sum m (fun j => Sum 0 (fun i => f i j))) with (Sum m (fun j => 0 * 0)) by (apply Sum_ext; intros; unfold Sum; cbn; lra).
    rewrite Sum_scale. lra.
  - rewrite Sum_S, IH. rewrite <- Sum_add. apply Sum_ext. intros j _. rewrite Sum_S. reflexivity.
Qed.
Lemma Sum_delta n k (c : nat -> R) : (k < n)%nat -> Sum n (fun j => c j * (if Nat.eqb k j then 1 else 0)) = c k.
Proof.
  induction n as [|n IH]; intros Hk; [lia|]. rewrite Sum_S. destruct (Nat.eq_dec k n) as [->|Hne].
  - rewrite Nat.eqb_refl. replace (Sum n (fun j => c j * (if Nat.eqb n j then 1 else 0))) with (Sum n (fun j => 0 * c j)).
    + rewrite Sum_scale. lra.
    + apply Sum_ext. intros j Hj. destruct (Nat.eqb_spec n j); [lia|lra].
  - rewrite IH by lia. destruct (Nat.eqb_spec k n); [contradiction|lra].
Qed.

Section Poly.
Variables (Q : list (list R)) (L : Z).
Let p1 := length (hd [] Q).
Let Ln := Z.to_nat L.
Definition q (n k : nat) : R := nth2T RA Q (Z.of_nat n) (Z.of_nat k).
(* orthonormal columns over the L rows of the segment *)
Definition orthonormal : Prop := forall k k', (k < p1)%nat -> (k' < p1)%nat -> Sum Ln (fun n => q n k * q n k') = if Nat.eqb k k' then 1 else 0.

Lemma alpha_ref_nth x s k : (k < p1)%nat ->
  nthT RA (alpha_ref RA x Q s L) (Z.of_nat k) = Sum Ln (fun n => q n k * nthT RA x (s + Z.of_nat n)).
Proof.
  intros Hk. unfold alpha_ref, nthT. rewrite Nat2Z.id.
  set (g := fun k_ : nat => fold_left _ (seq 0 (Z.to_nat L)) (ofZ RA 0)).
  rewrite nth_indep with (d' := g 0%nat) by (rewrite map_length, seq_length; exact Hk).
  simpl T in *. rewrite (map_nth g (seq 0 (length (hd [] Q))) 0%nat k), seq_nth by exact Hk. reflexivity.
Qed.
Lemma rowdot_sum n (a : list R) : rowdot RA Q (Z.of_nat n) a = Sum p1 (fun k => q n k * nthT RA a (Z.of_nat k)).
Proof. unfold rowdot. rewrite Nat2Z.id. reflexivity. Qed.

(* x' = x + sum_k c_k Q[:,k] on the segment starting at s *)
Definition plus_span (x x' : list R) (s : Z) (c : nat -> R) : Prop :=
  forall n, (n < Ln)%nat -> nthT RA x' (s + Z.of_nat n) = nthT RA x (s + Z.of_nat n) + Sum p1 (fun j => c j * q n j).

Lemma alpha_plus_span x x' s c k : orthonormal -> plus_span x x' s c -> (k < p1)%nat ->
  nthT RA (alpha_ref RA x' Q s L) (Z.of_nat k) = nthT RA (alpha_ref RA x Q s L) (Z.of_nat k) + c k.
Proof.
  intros Ho Hp Hk. rewrite !alpha_ref_nth by exact Hk.
  rewrite (Sum_ext Ln _ (fun n => q n k * nthT RA x (s + Z.of_nat n) + Sum p1 (fun j => c j * (q n k * q n j)))).
  - rewrite Sum_add. f_equal. rewrite Sum_swap.
    rewrite (Sum_ext p1 _ (fun j => c j * (if Nat.eqb k j then 1 else 0))).
    + apply Sum_delta. exact Hk.
    + intros j Hj. rewrite Sum_scale. rewrite Ho by assumption. reflexivity.
  - intros n Hn. rewrite Hp by exact Hn. rewrite Rmult_plus_distr_l. f_equal. rewrite <- Sum_scale. apply Sum_ext. intros j _. ring.
Qed.

Theorem detrendQ_kills_span x x' w s c : orthonormal -> plus_span x x' s c ->
  forall n, (n < Ln)%nat -> samp_poly RA x' w Q L s (Z.of_nat n) = samp_poly RA x w Q L s (Z.of_nat n).
Proof.
  intros Ho Hp n Hn. unfold samp_poly. rewrite !rowdot_sum. rewrite (Hp n Hn).
  rewrite (Sum_ext p1 (fun k => q n k * nthT RA (alpha_ref RA x' Q s L) (Z.of_nat k))
                      (fun k => q n k * nthT RA (alpha_ref RA x Q s L) (Z.of_nat k) + c k * q n k)).
  - rewrite Sum_add. cbn [sub mul RA]. simpl T in *. ring.
  - intros k Hk. rewrite (alpha_plus_span x x' s c k Ho Hp Hk). ring.
Qed.

(* hence every statistic of the bin is unchanged *)
Theorem stats_invariant_under_span (cosw sinw : R) x x' w (starts : list Z) (cs : Z -> nat -> R) : (0 <= L)%Z -> orthonormal ->
  (forall s, In s starts -> plus_span x x' s (cs s)) ->
  ref_auto RA cosw sinw (samp_poly RA x' w Q L) starts L = ref_auto RA cosw sinw (samp_poly RA x w Q L) starts L.
Proof.
  intros HL Ho Hp. unfold ref_auto. f_equal. apply map_ext_in. intros s Hs. unfold ref_bin. f_equal. f_equal.
  apply goertzel_idx_ext. intros n Hn. rewrite <- (Z2Nat.id n) by lia.
  apply (detrendQ_kills_span x x' w s (cs s) Ho (Hp s Hs)). unfold Ln. lia.
Qed.
Theorem stats_invariant_under_span_csd (cosw sinw : R) x1 x1' x2 x2' w (starts : list Z) (c1 c2 : Z -> nat -> R) : (0 <= L)%Z -> orthonormal ->
  (forall s, In s starts -> plus_span x1 x1' s (c1 s)) -> (forall s, In s starts -> plus_span x2 x2' s (c2 s)) ->
  ref_csd RA cosw sinw (samp_poly RA x1' w Q L) (samp_poly RA x2' w Q L) starts L =
  ref_csd RA cosw sinw (samp_poly RA x1 w Q L) (samp_poly RA x2 w Q L) starts L.
Proof.
  intros HL Ho Hp1 Hp2. unfold ref_csd. f_equal. apply map_ext_in. intros s Hs.
  assert (E1 : ref_bin RA cosw sinw (samp_poly RA x1' w Q L s) L = ref_bin RA cosw sinw (samp_poly RA x1 w Q L s) L).
  { unfold ref_bin. f_equal. apply goertzel_idx_ext. intros n Hn. rewrite <- (Z2Nat.id n) by lia.
    apply (detrendQ_kills_span x1 x1' w s (c1 s) Ho (Hp1 s Hs)). unfold Ln. lia. }
  assert (E2 : ref_bin RA cosw sinw (samp_poly RA x2' w Q L s) L = ref_bin RA cosw sinw (samp_poly RA x2 w Q L s) L).
  { unfold ref_bin. f_equal. apply goertzel_idx_ext. intros n Hn. rewrite <- (Z2Nat.id n) by lia.
    apply (detrendQ_kills_span x2 x2' w s (c2 s) Ho (Hp2 s Hs)). unfold Ln. lia. }
  rewrite E1, E2. reflexivity.
Qed.
End Poly.
