(* KernRun.v — output helper for the QA correspondence runs *)
From Coq Require Import ZArith QArith List.
From SK Require Import Arith.
Import ListNotations.
Definition q5 (r : T QA * T QA * T QA * T QA * T QA) : list Z :=
  let '(a, b, c, d, e) := r in
  [Qnum a; Zpos (Qden a); Qnum b; Zpos (Qden b); Qnum c; Zpos (Qden c); Qnum d; Zpos (Qden d); Qnum e; Zpos (Qden e)].
Definition qs (l : list (T QA)) : list Z := flat_map (fun a : Q => [Qnum a; Zpos (Qden a)]) l.
