(* Cpx.v — complex numbers as pairs over an arithmetic carrier (NumPy semantics: componentwise scaling, a*conj b, ...) *)
From Coq Require Import ZArith Bool.
From SK Require Import Arith.

Section Cpx.
Variable A : Arith.
Definition C := (T A * T A)%type.
Definition czero : C := (zero A, zero A).
Definition ofR (x : T A) : C := (x, zero A).
Definition cadd (a b : C) : C := (add A (fst a) (fst b), add A (snd a) (snd b)).
Definition csub (a b : C) : C := (sub A (fst a) (fst b), sub A (snd a) (snd b)).
Definition cmul (a b : C) : C :=
  (sub A (mul A (fst a) (fst b)) (mul A (snd a) (snd b)), add A (mul A (fst a) (snd b)) (mul A (snd a) (fst b))).
Definition cconj (a : C) : C := (fst a, opp A (snd a)).
Definition cscale (r : T A) (a : C) : C := (mul A r (fst a), mul A r (snd a)).
Definition cdivr (a : C) (r : T A) : C := (div A (fst a) r, div A (snd a) r).
Definition cabs (sqrtT : T A -> T A) (a : C) : T A := sqrtT (add A (mul A (fst a) (fst a)) (mul A (snd a) (snd a))).
Definition rabs (x : T A) : T A := if ltb A x (zero A) then opp A x else x.
Definition nan2num (x : T A) : T A := if isfinite A x then x else zero A.
Definition cnan2num (a : C) : C := (nan2num (fst a), nan2num (snd a)).
End Cpx.
