(* SchedThms2.v — C04: averaging honours the overlap, log spacing, Jdes search. *)
From Coq Require Import ZArith List Bool Reals Lia Lra Psatz ZifyBool.
From Flocq Require Import Raux.
From SK Require Import Arith Sched SchedThms.
Import ListNotations.
Open Scope R_scope.

(* ---- K is the integer nearest to 1 + (N-L)/((1-olap) L), capped at the N-L+1 distinct positions ---- *)
Definition K_ideal (c : cfg RA) (l : Z) : R := IZR (cN c - l) / ((1 - colap c) * IZR l) + 1.

Lemma K_nearest_rhu c l : let k := capK RA c l (nseg_raw RA (rhuZ RA) c l) in
  (Rabs (IZR k - K_ideal c l) <= /2) \/ (k = (cN c - l + 1)%Z /\ IZR k <= K_ideal c l + /2).
Proof.
  cbn zeta. unfold capK, nseg_raw, K_ideal. cbn [rhuZ add div mul sub ofZ one RA xov].
  set (y := IZR (cN c - l) / ((1 - colap c) * IZR l) + 1).
  pose proof (r_rhu_bracket y) as [H1 H2].
  destruct (Z.min_spec (r_rhu y) (cN c - l + 1)) as [[Hlt ->]|[Hge ->]].
  - left. apply Rabs_le. lra.
  - right. split; [reflexivity|]. apply IZR_le in Hge. lra.
Qed.

Lemma K_nearest_rint c l : let k := capK RA c l (nseg_raw RA (rintZ RA) c l) in
  (Rabs (IZR k - K_ideal c l) <= /2) \/ (k = (cN c - l + 1)%Z /\ IZR k <= K_ideal c l + /2).
Proof.
  cbn zeta. unfold capK, nseg_raw, K_ideal. cbn [rintZ add div mul sub ofZ one RA xov].
  set (y := IZR (cN c - l) / ((1 - colap c) * IZR l) + 1).
  pose proof (r_rint_bracket y) as [H1 H2].
  destruct (Z.min_spec (r_rint y) (cN c - l + 1)) as [[Hlt ->]|[Hge ->]].
  - left. apply Rabs_le. lra.
  - right. split; [reflexivity|]. apply IZR_le in Hge. lra.
Qed.

(* ---- every start is within half a sample of its ideal position i*(N-L)/(K-1) ---- *)
Lemma starts_iter_even c l k i :
  (1 <= l <= cN c)%Z -> (2 <= k <= cN c - l + 1)%Z -> (i < Z.to_nat k)%nat ->
  Rabs (IZR (nth i (starts_iter RA c l k) (-1)%Z) - INR i * (IZR (cN c - l) / IZR (k - 1))) <= /2.
Proof.
  intros Hl Hk Hi. unfold starts_iter.
  destruct (starts_iter_go_spec (Z.to_nat k) (zero RA) (shift_iter RA c l k)) as [_ Hnth].
  rewrite Hnth by exact Hi. cbn [zero RA]. rewrite Rplus_0_l.
  assert (Hs : shift_iter RA c l k = IZR (cN c - l) / IZR (k - 1)).
  { unfold shift_iter. destruct (Z.eqb_spec k 1); [lia|]. cbn [ltb div ofZ one RA].
    assert (0 < IZR (k - 1)) by (apply IZR_lt; lia).
    assert (IZR (k - 1) <= IZR (cN c - l)) by (apply IZR_le; lia).
    assert (1 <= IZR (cN c - l) / IZR (k - 1)).
    { apply Rmult_le_reg_r with (IZR (k - 1)); [assumption|]. unfold Rdiv. rewrite Rmult_assoc, Rinv_l by lra. lra. }
    destruct (r_ltb _ 1) eqn:E; [apply r_ltb_true in E; lra|reflexivity]. }
  rewrite Hs. set (x := INR i * (IZR (cN c - l) / IZR (k - 1))).
  assert (0 <= x).
  { subst x. apply Rmult_le_pos; [apply pos_INR|]. apply Rmult_le_pos; [apply IZR_le; lia|].
    left. apply Rinv_0_lt_compat. apply IZR_lt. lia. }
  rewrite r_trunc_nonneg by lra.
  pose proof (Zfloor_lb (x + /2)). pose proof (Zfloor_ub (x + /2)). apply Rabs_le. lra.
Qed.

Lemma starts_vec_even c l k i :
  (2 <= k)%Z -> (i < Z.to_nat k)%nat ->
  Rabs (IZR (nth i (starts_vec RA c l k) (-1)%Z) - INR i * (IZR (cN c - l) / IZR (k - 1))) <= /2.
Proof.
  intros Hk Hi. unfold starts_vec.
  set (g := fun i0 : nat => rintZ RA (mul RA (ofZ RA (Z.of_nat i0)) (shift_vec RA c l k))).
  rewrite nth_indep with (d' := g 0%nat) by (rewrite map_length, seq_length; exact Hi).
  rewrite (map_nth g (seq 0 (Z.to_nat k)) 0%nat i). rewrite seq_nth by exact Hi. subst g.
  cbn [rintZ mul ofZ RA Nat.add]. rewrite <- INR_IZR_INZ.
  unfold shift_vec. destruct (Z.ltb_spec 1 k); [|lia]. cbn [div ofZ RA].
  pose proof (r_rint_bracket (INR i * (IZR (cN c - l) / IZR (k - 1)))). apply Rabs_le. lra.
Qed.

Lemma ovec_alg (n l k : R) : 0 < k -> 0 < l -> (l - n / k) / l = 1 - n / (k * l).
Proof. intros. field. split; lra. Qed.

(* ---- reported overlap (vectorised formula) is 1 - (N-L)/((K-1) L) ---- *)
Lemma O_vec_realised c l k : (1 < k)%Z -> (0 < l)%Z ->
  O_vec RA c l k = 1 - IZR (cN c - l) / (IZR (k - 1) * IZR l).
Proof.
  intros Hk Hl. unfold O_vec, shift_vec. destruct (Z.ltb_spec 1 k); [|lia]. cbn [sub div ofZ RA].
  assert (0 < IZR (k - 1)) by (apply IZR_lt; lia). assert (0 < IZR l) by (apply IZR_lt; lia).
  apply ovec_alg; assumption.
Qed.

(* mean of (L - (d[i+1]-d[i]))/L over the K-1 gaps telescopes to 1 - (last - first)/((K-1) L) *)
Fixpoint gaps (d : list Z) : list Z :=
  match d with a :: ((b :: _) as tl) => (b - a)%Z :: gaps tl | _ => [] end.
Definition sumR (l : list R) : R := fold_right Rplus 0 l.
Lemma gaps_sum d : sumR (map IZR (gaps d)) = IZR (last d 0%Z) - IZR (hd 0%Z d) \/ d = [].
Proof.
  induction d as [|a [|b tl] IH]; [right; reflexivity|left; cbn; lra|].
  left. destruct IH as [IH|IH]; [|discriminate]. cbn [gaps map sumR fold_right hd] in *.
  change (last (a :: b :: tl) 0%Z) with (last (b :: tl) 0%Z). unfold sumR in IH. rewrite IH. rewrite minus_IZR. cbn [hd]. lra.
Qed.
Lemma mean_overlap_telescopes (l : Z) (d : list Z) : (0 < l)%Z -> (2 <= length d)%nat ->
  sumR (map (fun g => (IZR l - IZR g) / IZR l) (gaps d)) / INR (length (gaps d)) =
  1 - (IZR (last d 0%Z) - IZR (hd 0%Z d)) / (INR (length (gaps d)) * IZR l).
Proof.
  intros Hl Hd. assert (Hpos : 0 < IZR l) by (apply IZR_lt; lia).
  assert (Hs : forall gs, sumR (map (fun g => (IZR l - IZR g) / IZR l) gs) =
               INR (length gs) - sumR (map IZR gs) / IZR l).
  { induction gs as [|g gs IHg]; [cbn; lra|]. cbn [map sumR fold_right length] in *.
    unfold sumR in IHg. rewrite IHg. rewrite S_INR. field. lra. }
  assert (Hlen : (1 <= length (gaps d))%nat).
  { destruct d as [|a [|b tl]]; cbn in *; lia. }
  assert (Hn : 0 < INR (length (gaps d))) by (apply lt_0_INR; lia).
  rewrite Hs. destruct (gaps_sum d) as [E|E]; [rewrite E|subst d; cbn in Hd; lia]. field. split; lra.
Qed.

(* ---- log spacing: in the log-spaced regime with no clamp active, L is fs/(f*logfact) rounded ---- *)
Lemma ltf_log_spacing ph c fi b : admissible c -> 0 < fi -> 0 < clogfact c ->
  ltf_step RA ph c fi = Some b ->
  freslim RA c <= fi * clogfact c ->                      (* log-spaced regime *)
  cbmin c <= fi / (fi * clogfact c) ->                    (* bmin not enforced *)
  (cLmin c <= r_rhu (cfs c / (fi * clogfact c)) <= cN c)%Z ->   (* no length clamp *)
  bK b <> 1%Z ->                                          (* not the single-segment rule *)
  Rabs (IZR (bL b) - cfs c / (fi * clogfact c)) <= /2.
Proof.
  intros Ha Hfi Hlf Hs Hreg Hb HL HK. unfold ltf_step, ltf_res in Hs. cbn [leb mul RA] in Hs.
  destruct (r_leb (freslim RA c) (fi * clogfact c)) eqn:E; [|apply r_leb_false in E; lra].
  cbn [ltb div RA] in Hs. destruct (r_ltb (fi / (fi * clogfact c)) (cbmin c)) eqn:E2; [apply r_ltb_true in E2; lra|].
  inversion Hs; subst b; clear Hs. cbn [bL bK] in *. cbn [rhuZ RA] in *.
  set (L0 := r_rhu (cfs c / (fi * clogfact c))) in *.
  assert (Hc : clampL RA c L0 = L0).
  { unfold clampL. destruct (Z.ltb_spec (cN c) L0); [lia|]. destruct (Z.ltb_spec L0 (cLmin c)); lia. }
  rewrite Hc in *. destruct (Z.eqb_spec (capK RA c L0 (nseg_raw RA r_rhu c L0)) 1); [contradiction|].
  subst L0. pose proof (r_rhu_bracket (cfs c / (fi * clogfact c))). apply Rabs_le. lra.
Qed.

(* ---- Jdes binary search (utils.py:43-110), for ANY function nf ---- *)
Open Scope Z_scope.
Fixpoint jsearch (fuel : nat) (nf : Z -> Z) (t lo hi : Z) : option (option Z) :=
  if hi <? lo then Some None else
  match fuel with
  | O => None
  | S f => let J := (lo + hi) / 2 in
           let n := nf J in
           if n =? t then Some (Some J)
           else if n <? t then jsearch f nf t (J + 1) hi else jsearch f nf t lo (J - 1)
  end.
Definition find_Jdes (nf : Z -> Z) (t : Z) := jsearch 21 nf t 100 1000000.

Lemma jsearch_sound fuel : forall nf t lo hi J,
  jsearch fuel nf t lo hi = Some (Some J) -> nf J = t /\ lo <= J <= hi.
Proof.
  induction fuel as [|fuel IH]; intros nf t lo hi J; cbn [jsearch].
  - destruct (hi <? lo); discriminate.
  - destruct (Z.ltb_spec hi lo); [discriminate|].
    destruct (Z.eqb_spec (nf ((lo + hi) / 2)) t) as [E|E].
    + intros H0; inversion H0; subst. split; [reflexivity|].
      assert (lo <= (lo + hi) / 2) by (apply Z.div_le_lower_bound; lia).
      assert ((lo + hi) / 2 <= hi) by (apply Z.div_le_upper_bound; lia). lia.
    + assert (lo <= (lo + hi) / 2) by (apply Z.div_le_lower_bound; lia).
      assert ((lo + hi) / 2 <= hi) by (apply Z.div_le_upper_bound; lia).
      destruct (nf ((lo + hi) / 2) <? t); intros H2; apply IH in H2; lia.
Qed.

Lemma jsearch_terminates fuel : forall nf t lo hi,
  hi - lo + 1 < 2 ^ Z.of_nat fuel -> jsearch fuel nf t lo hi <> None.
Proof.
  induction fuel as [|fuel IH]; intros nf t lo hi Hsz; cbn [jsearch].
  - destruct (Z.ltb_spec hi lo); [discriminate|]. cbn in Hsz. lia.
  - destruct (Z.ltb_spec hi lo); [discriminate|].
    destruct (nf ((lo + hi) / 2) =? t); [discriminate|].
    rewrite Nat2Z.inj_succ, Z.pow_succ_r in Hsz by lia.
    assert (lo <= (lo + hi) / 2) by (apply Z.div_le_lower_bound; lia).
    assert ((lo + hi) / 2 <= hi) by (apply Z.div_le_upper_bound; lia).
    assert (2 * ((lo + hi) / 2) <= lo + hi) by (apply Z.mul_div_le; lia).
    assert (lo + hi < 2 * ((lo + hi) / 2) + 2) by (pose proof (Z.mul_succ_div_gt (lo + hi) 2); lia).
    destruct (nf ((lo + hi) / 2) <? t); apply IH; lia.
Qed.

Theorem find_Jdes_sound nf t J : find_Jdes nf t = Some (Some J) -> nf J = t /\ 100 <= J <= 1000000.
Proof. apply jsearch_sound. Qed.
Theorem find_Jdes_total nf t : find_Jdes nf t <> None.
Proof. apply jsearch_terminates. cbn. lia. Qed.

(* force_target_nf wiring (analysis.py:416-434): the plan built with the solved Jdes has exactly t bins, else RuntimeError *)
Definition forced_plan {P} (plan : Z -> P) (nf : P -> Z) (t : Z) : option P :=
  match find_Jdes (fun J => nf (plan J)) t with
  | Some (Some J) => Some (plan J)
  | _ => None            (* RuntimeError *)
  end.
Theorem forced_plan_exact {P} (plan : Z -> P) nf t p : forced_plan plan nf t = Some p -> nf p = t.
Proof.
  unfold forced_plan. destruct (find_Jdes _ t) as [[J|]|] eqn:E; try discriminate.
  intros H; inversion H; subst. apply find_Jdes_sound in E. tauto.
Qed.
