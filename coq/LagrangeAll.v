(* LagrangeAll.v — C16: the check of LagrangeQ.v evaluated for halfp = 2..56 (interpolation orders 3..111), and the
   resulting theorem: every tap of dsp.lagrange_taps is the textbook Lagrange weight, for every real fraction in [0,1). *)
From Coq Require Import ZArith QArith List Bool Reals Lra Lia.
From SK Require Import Arith Lagrange PolyQ LagrangeQ.
Import ListNotations.

Lemma chk_all : forallb chk (map Z.of_nat (seq 2 55)) = true.
Proof. vm_cast_no_check (eq_refl true). Qed.

Open Scope R_scope.
Theorem taps_are_textbook_lagrange (h : Z) (k : nat) (d : R) :
  (1 <= h <= 56)%Z -> (k < Z.to_nat (2 * h))%nat -> 0 <= d < 1 ->
  tap RA h d (Z.of_nat k) = lagrange_weight (nodesR h) k d.
Proof.
  intros Hh Hk Hd. destruct (Z.eq_dec h 1) as [->|Hne].
  - (* order 1: linear interpolation *)
    assert (Hk2 : (k < 2)%nat) by (cbn in Hk; lia).
    destruct k as [|[|k]]; [| |lia]; unfold lagrange_weight, nodesR, nodeZ; change (Z.to_nat (2 * 1)) with 2%nat; cbn; simpl T in *; field.
  - pose proof chk_all as Hall. rewrite forallb_forall in Hall.
    assert (Hin : In h (map Z.of_nat (seq 2 55))).
    { replace h with (Z.of_nat (Z.to_nat h)) by lia. apply in_map. apply in_seq. lia. }
    specialize (Hall h Hin). unfold chk in Hall. apply andb_prop in Hall. destruct Hall as [Hall Hks].
    apply andb_prop in Hall. destruct Hall as [HM Hpoly].
    apply negb_true_iff in HM. apply Z.eqb_neq in HM. rewrite forallb_forall in Hks.
    apply tap_textbook_of_chk; try assumption; [lia|].
    intros k' Hk'. apply Hks. apply in_seq. lia.
Qed.

(* the whole tap vector *)
Theorem taps_vector_textbook (h : Z) (d : R) : (1 <= h <= 56)%Z -> 0 <= d < 1 ->
  taps RA h d = map (fun k => lagrange_weight (nodesR h) k d) (seq 0 (Z.to_nat (2 * h))).
Proof.
  intros Hh Hd. unfold taps. apply map_ext_in. intros k Hk. apply in_seq in Hk. apply taps_are_textbook_lagrange; [exact Hh|lia|exact Hd].
Qed.
