(* LagrangeShift.v — C16 headline: with exact arithmetic, the constant-shift path of dsp.timeshift reproduces every polynomial
   of degree <= order exactly at every sample whose stencil lies inside the record (any real shift, orders 1..111), and the
   taps sum to one.  Combines  taps = textbook weights (LagrangeAll.v)  with the interpolation theory of LagrangeInterp.v. *)
From Coq Require Import ZArith List Bool Reals Lra Lia FinFun.
From Flocq Require Import Raux.
From SK Require Import Arith Lagrange LagrangeQ LagrangeAll LagrangeInterp.
Import ListNotations.
Open Scope R_scope.

(* q(c + y) as a polynomial in y, same number of coefficients *)
Fixpoint rshift (c : R) (q : rpoly) : rpoly :=
  match q with [] => [] | a :: q' => radd [a] (rmul_lin c 1 (rshift c q')) end.
Lemma reval_rshift c q y : reval (rshift c q) y = reval q (c + y).
Proof. induction q as [|a q IH]; cbn [rshift reval]; [reflexivity|]. rewrite reval_radd, reval_rmul_lin, IH. cbn [reval]. ring. Qed.
Lemma length_rshift c q : length (rshift c q) = length q.
Proof. induction q as [|a q IH]; cbn [rshift length]; [reflexivity|]. rewrite length_radd, length_rmul_lin, IH. cbn [length]. lia. Qed.

Lemma nodesR_NoDup h : NoDup (nodesR h).
Proof.
  unfold nodesR. apply Injective_map_NoDup; [|apply seq_NoDup].
  intros a b E. apply eq_IZR in E. unfold nodeZ in E. lia.
Qed.
Lemma nodesR_length h : length (nodesR h) = Z.to_nat (2 * h).
Proof. unfold nodesR. rewrite map_length, seq_length. reflexivity. Qed.

Lemma nth_map_seq {Y} (f : nat -> Y) (m k : nat) (d : Y) : (k < m)%nat -> nth k (map f (seq 0 m)) d = f k.
Proof.
  intros Hk. rewrite nth_indep with (d' := f 0%nat) by (rewrite map_length, seq_length; exact Hk).
  rewrite (map_nth f), seq_nth by exact Hk. reflexivity.
Qed.

Theorem taps_sum_to_one (h : Z) (d : R) : (1 <= h <= 56)%Z -> 0 <= d < 1 ->
  fold_left (fun t k => t + tap RA h d (Z.of_nat k)) (seq 0 (Z.to_nat (2 * h))) 0 = 1.
Proof.
  intros Hh Hd. rewrite <- (lagrange_weights_sum_to_one (nodesR h) (nodesR_NoDup h) d) by (rewrite nodesR_length; lia).
  rewrite nodesR_length. apply fold_left_ext_in_R. intros t k Hk. apply in_seq in Hk.
  rewrite taps_are_textbook_lagrange by (try exact Hh; try exact Hd; lia). reflexivity.
Qed.

Theorem timeshift_const_reproduces_polynomials (h : Z) (q : rpoly) (data : list R) (s : R) (n : nat) :
  (1 <= h <= 56)%Z -> (length q <= Z.to_nat (2 * h))%nat ->
  (forall i, (i < length data)%nat -> nth i data 0 = reval q (IZR (Z.of_nat i))) ->
  (n < length data)%nat ->
  (0 <= Z.of_nat n + Zfloor s - (h - 1))%Z -> (Z.of_nat n + Zfloor s + h <= Z.of_nat (length data) - 1)%Z ->
  nth n (timeshift_const RA data s h) 0 = reval q (IZR (Z.of_nat n) + s).
Proof.
  intros Hh Hq Hdata Hn Hlo Hhi. unfold timeshift_const. cbn [floorZ sub add mul ofZ zero RA]. simpl T in *.
  set (si := Zfloor s) in *. set (d := s - IZR si).
  assert (Hd : 0 <= d < 1) by (unfold d, si; pose proof (Zfloor_lb s); pose proof (Zfloor_ub s); lra).
  rewrite nth_map_seq by exact Hn.
  set (c := IZR (Z.of_nat n + si)).
  pose proof (lagrange_reproduces (nodesR h) (nodesR_NoDup h) (rshift c q) d) as HR.
  rewrite nodesR_length, length_rshift in HR. specialize (HR Hq). rewrite reval_rshift in HR.
  replace (c + d) with (IZR (Z.of_nat n) + s) in HR by (unfold c, d; rewrite plus_IZR; ring).
  rewrite <- HR. apply fold_left_ext_in_R. intros t k Hk. apply in_seq in Hk.
  f_equal. unfold taps. rewrite nth_map_seq by lia. rewrite taps_are_textbook_lagrange by (try exact Hh; try exact Hd; lia).
  rewrite Rmult_comm. f_equal.
  rewrite reval_rshift, nth_nodesR by lia.
  assert (Hidx : clampZ 0 (Z.of_nat (length data) - 1) (Z.of_nat n + si - (h - 1) + Z.of_nat k) = (Z.of_nat n + si - (h - 1) + Z.of_nat k)%Z)
    by (unfold clampZ; lia).
  rewrite Hidx, Hdata by lia. f_equal. rewrite Z2Nat.id by lia. unfold c, nodeZ. rewrite <- plus_IZR. f_equal. lia.
Qed.

(* an integer shift (any order) is a pure displacement with the end values held; a zero shift is the identity *)
Theorem timeshift_const_integer_shift (h : Z) (data : list R) (m : Z) (n : nat) :
  (1 <= h)%Z -> (n < length data)%nat ->
  nth n (timeshift_const RA data (IZR m) h) 0
  = nth (Z.to_nat (clampZ 0 (Z.of_nat (length data) - 1) (Z.of_nat n + m))) data 0.
Proof.
  intros Hh Hn. unfold timeshift_const. cbn [floorZ sub add mul ofZ zero RA]. simpl T in *.
  rewrite Zfloor_IZR. replace (IZR m - IZR m) with 0 by ring.
  rewrite nth_map_seq by exact Hn.
  set (f := fun k : nat => nth (Z.to_nat (clampZ 0 (Z.of_nat (length data) - 1) (Z.of_nat n + m - (h - 1) + Z.of_nat k))) data 0).
  rewrite fold_left_ext_in_R with (g := fun t k => t + f k * (if Nat.eqb (Z.to_nat (h - 1)) k then 1 else 0)).
  - rewrite sum_delta; [|apply seq_NoDup|apply in_seq; lia]. unfold f. rewrite Z2Nat.id by lia.
    replace (Z.of_nat n + m - (h - 1) + (h - 1))%Z with (Z.of_nat n + m)%Z by lia. ring.
  - intros t k Hk. apply in_seq in Hk. f_equal. unfold taps. rewrite nth_map_seq by lia.
    rewrite taps_at_zero by lia. fold (f k). rewrite Rmult_comm. f_equal.
    destruct (Z.eqb_spec (Z.of_nat k) (h - 1)) as [E|E]; destruct (Nat.eqb_spec (Z.to_nat (h - 1)) k) as [E'|E']; try reflexivity; lia.
Qed.
Corollary timeshift_const_zero_is_identity (h : Z) (data : list R) : (1 <= h)%Z -> timeshift_const RA data 0 h = data.
Proof.
  intros Hh. apply nth_ext with (d := 0) (d' := 0).
  - unfold timeshift_const. rewrite map_length, seq_length. reflexivity.
  - intros n Hn. assert (Hn' : (n < length data)%nat) by (unfold timeshift_const in Hn; rewrite map_length, seq_length in Hn; exact Hn).
    rewrite (timeshift_const_integer_shift h data 0 n Hh Hn'). unfold clampZ. simpl T in *.
    replace (Z.to_nat (Z.max 0 (Z.min (Z.of_nat (length data) - 1) (Z.of_nat n + 0)))) with n by lia. reflexivity.
Qed.

Lemma fold_add_acc_R (f : nat -> R) l : forall a, fold_left (fun a i => a + f i) l a = a + fold_left (fun a i => a + f i) l 0.
Proof. induction l as [|x l IH]; intros a; cbn [fold_left]; [lra|]. rewrite IH, (IH (0 + f x)). lra. Qed.

(* the time-varying path agrees with the constant-shift path wherever the stencil is interior (any order) *)
Theorem timeshift_paths_agree_interior (h : Z) (data shifts : list R) (n : nat) :
  (1 <= h)%Z -> (n < length data)%nat ->
  let s := nth n shifts 0 in
  (0 <= Z.of_nat n + Zfloor s - (h - 1))%Z -> (Z.of_nat n + Zfloor s + h <= Z.of_nat (length data) - 1)%Z ->
  nth n (timeshift_var RA data shifts h) 0 = nth n (timeshift_const RA data s h) 0.
Proof.
  intros Hh Hn s Hlo Hhi. unfold timeshift_var, timeshift_const. cbn [floorZ sub add mul ofZ zero RA]. simpl T in *.
  rewrite !nth_map_seq by exact Hn. fold s.
  apply fold_left_ext_in_R. intros t k Hk. apply in_seq in Hk. f_equal. f_equal.
  assert (E1 : clampZ (- (h + 1)) (Z.of_nat (length data) + (h - 1)) (Z.of_nat n + Zfloor s) = (Z.of_nat n + Zfloor s)%Z) by (unfold clampZ; lia).
  assert (E2 : clampZ 0 (Z.of_nat (length data) - 1) (Z.of_nat n + Zfloor s - (h - 1) + Z.of_nat k) = (Z.of_nat n + Zfloor s - (h - 1) + Z.of_nat k)%Z)
    by (unfold clampZ; lia).
  rewrite E1, E2. unfold data0. cbn [zero RA]. simpl T in *.
  destruct (Z.leb_spec 0 (Z.of_nat n + Zfloor s - (h - 1) + Z.of_nat k)); [|lia].
  destruct (Z.ltb_spec (Z.of_nat n + Zfloor s - (h - 1) + Z.of_nat k) (Z.of_nat (length data))); [|lia]. reflexivity.
Qed.
Corollary timeshift_var_reproduces_polynomials (h : Z) (q : rpoly) (data shifts : list R) (n : nat) :
  (1 <= h <= 56)%Z -> (length q <= Z.to_nat (2 * h))%nat ->
  (forall i, (i < length data)%nat -> nth i data 0 = reval q (IZR (Z.of_nat i))) ->
  (n < length data)%nat ->
  let s := nth n shifts 0 in
  (0 <= Z.of_nat n + Zfloor s - (h - 1))%Z -> (Z.of_nat n + Zfloor s + h <= Z.of_nat (length data) - 1)%Z ->
  nth n (timeshift_var RA data shifts h) 0 = reval q (IZR (Z.of_nat n) + s).
Proof.
  intros Hh Hq Hdata Hn s Hlo Hhi. unfold s in *. rewrite timeshift_paths_agree_interior by (try assumption; lia).
  apply timeshift_const_reproduces_polynomials; assumption.
Qed.

(* a shift that moves every stencil beyond an end of the record returns the held end value (taps sum to one) *)
Theorem timeshift_const_beyond_start (h : Z) (data : list R) (s : R) (n : nat) :
  (1 <= h <= 56)%Z -> (n < length data)%nat -> (Z.of_nat n + Zfloor s + h <= 0)%Z ->
  nth n (timeshift_const RA data s h) 0 = nth 0 data 0.
Proof.
  intros Hh Hn Hb. unfold timeshift_const. cbn [floorZ sub add mul ofZ zero RA]. simpl T in *.
  set (si := Zfloor s). set (d := s - IZR si).
  assert (Hd : 0 <= d < 1) by (unfold d, si; pose proof (Zfloor_lb s); pose proof (Zfloor_ub s); lra).
  rewrite nth_map_seq by exact Hn.
  rewrite fold_left_ext_in_R with (g := fun t k => t + tap RA h d (Z.of_nat k) * nth 0 data 0).
  - pose proof (taps_sum_to_one h d Hh Hd) as H1.
    assert (G : forall l t, fold_left (fun t k => t + tap RA h d (Z.of_nat k) * nth 0 data 0) l t
                = t + (fold_left (fun t k => t + tap RA h d (Z.of_nat k)) l 0) * nth 0 data 0).
    { induction l as [|k l IH]; intros t; cbn [fold_left]; [ring|]. rewrite IH. rewrite (fold_add_acc_R (fun k => tap RA h d (Z.of_nat k)) l (0 + tap RA h d (Z.of_nat k))). ring. }
    rewrite G, H1. ring.
  - intros t k Hk. apply in_seq in Hk. f_equal. unfold taps. rewrite nth_map_seq by lia. f_equal.
    replace (clampZ 0 (Z.of_nat (length data) - 1) (Z.of_nat n + si - (h - 1) + Z.of_nat k)) with 0%Z by (unfold clampZ; lia). reflexivity.
Qed.
