(* SystemsRun.v — C15: the residual expression of systems.py over an arbitrary arithmetic carrier (executable at binary64 for the
   correspondence with the implementation), and its identification with SystemsGen.resid_expr at the reals. *)
From Coq Require Import ZArith List Bool Reals.
From SK Require Import Arith Cpx Systems SystemsGen.
Import ListNotations.

Section Run.
Variable A : Arith.
Definition csumA (l : list (Cpx.C A)) : Cpx.C A := fold_right (Cpx.cadd A) (Cpx.czero A) l.
Definition csumfA (f : nat -> Cpx.C A) (q : nat) : Cpx.C A := csumA (map f (seq 0 q)).
Definition resid_exprA (q : nat) (H : nat -> Cpx.C A) (S00 : T A) (S : nat -> Cpx.C A) (Tm : nat -> nat -> Cpx.C A) : Cpx.C A :=
  let Sum1 := csumfA (fun i => Cpx.cmul A (H i) (Cpx.cconj A (S i))) q in
  let Sum2 := csumfA (fun i => Cpx.cmul A (Cpx.cconj A (H i)) (S i)) q in
  let Sum3 := csumfA (fun i => csumfA (fun j => Cpx.cmul A (Cpx.cmul A (Cpx.cconj A (H j)) (H i)) (Tm j i)) q) q in
  Cpx.cadd A (Cpx.csub A (Cpx.csub A (Cpx.ofR A S00) Sum1) Sum2) Sum3.
(* list-based entry point used by the generated case files *)
Definition nthC (l : list (Cpx.C A)) (i : nat) : Cpx.C A := nth i l (Cpx.czero A).
Definition resid_run (H : list (Cpx.C A)) (S00 : T A) (S : list (Cpx.C A)) (Tm : list (list (Cpx.C A))) : Cpx.C A :=
  resid_exprA (length H) (nthC H) S00 (nthC S) (fun j i => nthC (nth j Tm []) i).
(* residual of the linear system  sum_j T_ij H_j - S_i  (how well the recorded H solves the code's system) *)
Definition system_defect (H : list (Cpx.C A)) (S : list (Cpx.C A)) (Tm : list (list (Cpx.C A))) : list (Cpx.C A) :=
  map (fun i => Cpx.csub A (csumfA (fun j => Cpx.cmul A (nthC (nth i Tm []) j) (nthC H j)) (length H)) (nthC S i)) (seq 0 (length H)).
End Run.

(* at the reals the executable expression IS the one the theorems of SystemsGen.v are about *)
Theorem resid_exprA_is_resid_expr q H S00 S Tm : resid_exprA RA q H S00 S Tm = resid_expr q H S00 S Tm.
Proof. reflexivity. Qed.
