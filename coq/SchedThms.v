(* SchedThms.v — theorems about the scheduler models.
   Part 1: structural facts, for an ARBITRARY arithmetic carrier (hence bit-exact at binary64).
   Part 2: safety/completeness of the segmentation at the real-number carrier RA. *)
From Coq Require Import ZArith List Bool Reals Lia Lra Psatz.
From Flocq Require Import Raux.
From SK Require Import Arith Sched.
Import ListNotations.

(* ------------------------------------------------------------------ Part 1: any carrier *)
Section Structural.
Variable A : Arith.
Variable sqrtT : T A -> T A.
Variable powhalf : T A -> option (T A).

(* f[j+1] = f[j] + r[j], starting at fi *)
Fixpoint chain (fi : T A) (bs : list (bin A)) : Prop :=
  match bs with
  | [] => True
  | b :: bs' => bf b = fi /\ chain (add A fi (br b)) bs'
  end.

Definition bin_dft (c : cfg A) (b : bin A) : Prop :=
  br b = div A (cfs c) (ofZ A (bL b)) /\ bb b = div A (bf b) (br b) /\ ltb A (bf b) (fmax A c) = true.

Lemma ltf_step_struct c fi b :
  ltf_step A powhalf c fi = Some b ->
  bf b = fi /\ br b = div A (cfs c) (ofZ A (bL b)) /\ bb b = div A fi (br b).
Proof.
  unfold ltf_step. destruct (ltf_res A powhalf c fi); [|discriminate].
  intros H; inversion H; subst; clear H. cbn. auto.
Qed.

Lemma ltf_loop_struct fuel : forall c fi bs,
  ltf_loop A powhalf fuel c fi = Ok bs -> chain fi bs /\ Forall (bin_dft c) bs.
Proof.
  induction fuel as [|fuel IH]; intros c fi bs; cbn [ltf_loop].
  - destruct (ltb A fi (fmax A c)); [discriminate|]. intros H; inversion H; subst. split; constructor.
  - destruct (ltb A fi (fmax A c)) eqn:Hlt.
    + destruct (ltf_step A powhalf c fi) as [b|] eqn:Hs; [|discriminate].
      destruct (ltf_loop A powhalf fuel c (add A fi (br b))) as [bs'| | |] eqn:Hl; try discriminate.
      intros H; inversion H; subst; clear H.
      apply ltf_step_struct in Hs. destruct Hs as (Hf & Hr & Hb).
      apply IH in Hl. destruct Hl as [Hc HF]. split.
      * cbn. split; [exact Hf|exact Hc].
      * constructor; [|exact HF]. unfold bin_dft. rewrite Hf. auto.
    + intros H; inversion H; subst. split; constructor.
Qed.

Lemma vec_walk_struct fuel : forall c grid f bs,
  vec_walk A sqrtT fuel c grid f = Ok bs -> chain f bs /\ Forall (bin_dft c) bs.
Proof.
  induction fuel as [|fuel IH]; intros c grid f bs; cbn [vec_walk].
  - destruct (ltb A f (fmax A c)); [discriminate|]. intros H; inversion H; subst. split; constructor.
  - destruct (ltb A f (fmax A c)) eqn:Hlt.
    + destruct (nth_error grid (searchsorted_left A grid f)) as [g|].
      * destruct (vec_point A sqrtT c g) as [[r l] k] eqn:Hp.
        destruct (vec_walk A sqrtT fuel c grid (add A f r)) as [bs'| | |] eqn:Hl; try discriminate.
        intros H; inversion H; subst; clear H.
        apply IH in Hl. destruct Hl as [Hc HF]. split.
        -- cbn. split; [reflexivity|exact Hc].
        -- constructor; [|exact HF]. unfold bin_dft; cbn.
           unfold vec_point in Hp. inversion Hp; subst. auto.
      * intros H; inversion H; subst. split; constructor.
    + intros H; inversion H; subst. split; constructor.
Qed.

(* LPSD is LTF with bmin = 1 and Lmin = 1: by definition of the wrapper *)
Lemma lpsd_is_ltf fuel c :
  ltf_bins A powhalf fuel (lpsd_cfg c) =
  ltf_bins A powhalf fuel (mkCfg (cN c) (cfs c) (colap c) (one A) 1%Z (cKdes c) (clogfact c)).
Proof. reflexivity. Qed.

(* integer clamp facts do not depend on the carrier *)
Lemma clampL_bounds (c : cfg A) l : (cLmin c <= cN c)%Z -> (cLmin c <= clampL A c l <= cN c)%Z.
Proof.
  intros H. unfold clampL.
  destruct (Z.ltb_spec (cN c) l); [destruct (Z.ltb_spec (cN c) (cLmin c))|destruct (Z.ltb_spec l (cLmin c))]; lia.
Qed.
End Structural.

(* ------------------------------------------------------------------ Part 2: reals *)
Open Scope R_scope.

Record admissible (c : cfg RA) : Prop := {
  adm_N : (8 <= cN c)%Z;
  adm_fs : 0 < cfs c;
  adm_olap : 0 <= colap c < 1;
  adm_bmin : 1 <= cbmin c /\ cbmin c < IZR (cN c) / 2;
  adm_Lmin : (1 <= cLmin c <= cN c)%Z;
  adm_Kdes : (1 <= cKdes c)%Z }.

Lemma Zfloor_ge_1 x : 1 <= x -> (1 <= Zfloor x)%Z.
Proof. intros. replace 1%Z with (Zfloor 1) by (apply (Zfloor_IZR 1)). apply Zfloor_le. exact H. Qed.

Lemma nseg_ge_1 (round : R -> Z) (c : cfg RA) l :
  (forall x, 1 <= x -> (1 <= round x)%Z) ->
  admissible c -> (1 <= l <= cN c)%Z -> (1 <= nseg_raw RA round c l)%Z.
Proof.
  intros Hr Ha Hl. unfold nseg_raw. apply Hr. cbn [add div mul sub ofZ one RA].
  destruct Ha as [_ _ Ho _ _ _].
  assert (0 <= IZR (cN c - l)) by (apply IZR_le; lia).
  assert (0 < IZR l) by (apply IZR_lt; lia).
  unfold xov; cbn [sub one RA].
  assert (0 < (1 - colap c) * IZR l) by (apply Rmult_lt_0_compat; lra).
  assert (0 <= IZR (cN c - l) / ((1 - colap c) * IZR l)).
  { apply Rmult_le_pos; [assumption|]. left. apply Rinv_0_lt_compat. assumption. }
  lra.
Qed.

Lemma rhu_ge_1 x : 1 <= x -> (1 <= r_rhu x)%Z.
Proof. intros. unfold r_rhu. apply Zfloor_ge_1. lra. Qed.
Lemma rint_ge_1 x : 1 <= x -> (1 <= r_rint x)%Z.
Proof.
  intros. pose proof (r_rint_bracket x) as [_ Hb].
  assert (/2 <= IZR (r_rint x)) by lra.
  assert (0 < IZR (r_rint x)) by lra. apply lt_IZR in H1. lia.
Qed.

(* ---- what one scheduled bin must satisfy (integer part of C02) ---- *)
Definition bin_int_ok (c : cfg RA) (l k : Z) : Prop :=
  (Z.max 1 (cLmin c) <= l <= cN c)%Z /\ (1 <= k <= cN c - l + 1)%Z /\ (k = 1%Z -> l = cN c).

Lemma finish_int_ok (round : R -> Z) c l0 :
  (forall x, 1 <= x -> (1 <= round x)%Z) ->
  admissible c -> (cLmin c <= l0 <= cN c)%Z ->
  let k := capK RA c l0 (nseg_raw RA round c l0) in
  let l := if (k =? 1)%Z then cN c else l0 in
  bin_int_ok c l k.
Proof.
  intros Hr Ha Hl k l. pose proof (adm_Lmin c Ha) as HL.
  assert (Hn : (1 <= nseg_raw RA round c l0)%Z) by (apply nseg_ge_1; auto; lia).
  unfold bin_int_ok. subst k l. unfold capK in *.
  destruct (Z.eqb_spec (Z.min (nseg_raw RA round c l0) (cN c - l0 + 1)) 1); lia.
Qed.

Lemma ltf_step_int_ok ph c fi b :
  admissible c -> ltf_step RA ph c fi = Some b -> bin_int_ok c (bL b) (bK b).
Proof.
  intros Ha. unfold ltf_step. destruct (ltf_res RA ph c fi); [|discriminate].
  intros H; inversion H; subst; clear H. cbn [bL bK].
  apply (finish_int_ok (rhuZ RA)); auto.
  - intros; apply rhu_ge_1; assumption.
  - apply clampL_bounds. destruct Ha; lia.
Qed.

(* ---- segment starts, iterative accumulation ---- *)
Lemma starts_iter_go_spec n : forall a s,
  length (starts_iter_go RA n a s) = n /\
  forall i, (i < n)%nat -> nth i (starts_iter_go RA n a s) (-1)%Z = r_trunc (a + INR i * s + /2).
Proof.
  induction n as [|n IH]; intros a s; cbn [starts_iter_go].
  - split; [reflexivity|]. intros i Hi; lia.
  - destruct (IH (a + s) s) as [Hlen Hnth]. split; [cbn; rewrite Hlen; reflexivity|].
    intros [|i] Hi.
    + cbn [nth]. cbn [add RA half div one two ofZ truncZ]. f_equal. cbn. lra.
    + cbn [nth]. cbn [add RA] in Hnth. rewrite Hnth by lia. f_equal. rewrite S_INR. lra.
Qed.

Lemma r_trunc_nonneg x : 0 <= x -> r_trunc x = Zfloor x.
Proof. intros. unfold r_trunc. destruct (r_leb 0 x) eqn:E; [reflexivity|]. apply r_leb_false in E. lra. Qed.

Definition starts_ok (N l : Z) (k : Z) (d : list Z) : Prop :=
  length d = Z.to_nat k /\
  nth 0 d (-1)%Z = 0%Z /\
  nth (Z.to_nat (k - 1)) d (-1)%Z = (N - l)%Z /\
  (forall i j, (i < j < Z.to_nat k)%nat -> (nth i d (-1) < nth j d (-1))%Z) /\
  (forall i, (i < Z.to_nat k)%nat -> (0 <= nth i d (-1) /\ nth i d (-1) + l <= N)%Z).

Lemma floor_grid_ok (N l k : Z) (s : R) (d : list Z) (f : R -> Z) :
  (1 <= l <= N)%Z -> (1 <= k <= N - l + 1)%Z -> (k = 1%Z -> l = N) ->
  1 <= s -> (k <> 1%Z -> s * IZR (k - 1) = IZR (N - l)) ->
  (forall x, IZR (f x) - /2 <= x <= IZR (f x) + /2) -> (forall z, f (IZR z) = z) ->
  (forall x y, x + 1 < y -> (f x < f y)%Z) ->
  length d = Z.to_nat k ->
  (forall i, (i < Z.to_nat k)%nat -> nth i d (-1)%Z = f (INR i * s)) ->
  starts_ok N l k d.
Proof.
  intros Hl Hk H1 Hs Hsk Hbr Hid Hmono Hlen Hnth.
  assert (H0 : nth 0 d (-1)%Z = 0%Z).
  { rewrite Hnth by lia. cbn [INR]. rewrite Rmult_0_l. apply (Hid 0%Z). }
  assert (Hlast : nth (Z.to_nat (k - 1)) d (-1)%Z = (N - l)%Z).
  { rewrite Hnth by lia. destruct (Z.eq_dec k 1) as [->|Hne].
    - cbn [Z.sub Z.to_nat INR]. rewrite Rmult_0_l. rewrite (Hid 0%Z). rewrite H1; lia.
    - rewrite INR_IZR_INZ, Z2Nat.id by lia. rewrite Rmult_comm, Hsk by assumption. apply Hid. }
  assert (Hinc : forall i j, (i < j < Z.to_nat k)%nat -> (nth i d (-1) < nth j d (-1))%Z).
  { intros i j Hij. rewrite !Hnth by lia.
    assert (INR i + 1 <= INR j) by (rewrite <- S_INR; apply le_INR; lia).
    assert (0 <= INR i) by apply pos_INR.
    destruct (Req_dec s 1) as [->|Hs1].
    - rewrite !Rmult_1_r, !INR_IZR_INZ, !Hid. lia.
    - apply Hmono. nra. }
  split; [exact Hlen|]. split; [exact H0|]. split; [exact Hlast|]. split; [exact Hinc|].
  intros i Hi.
  assert (0 <= nth i d (-1))%Z.
  { destruct i; [rewrite H0; lia|]. specialize (Hinc 0%nat (S i)). rewrite H0 in Hinc. lia. }
  assert (nth i d (-1) <= N - l)%Z.
  { destruct (Nat.eq_dec i (Z.to_nat (k - 1))) as [->|Hne]; [rewrite Hlast; lia|].
    specialize (Hinc i (Z.to_nat (k - 1))). rewrite Hlast in Hinc. lia. }
  lia.
Qed.

Lemma Zfloor_half_mono x y : x + 1 <= y -> (Zfloor (x + /2) < Zfloor (y + /2))%Z.
Proof.
  intros. apply lt_IZR.
  pose proof (Zfloor_lb (x + /2)). pose proof (Zfloor_ub (y + /2)). lra.
Qed.

Lemma starts_iter_ok c l k :
  (1 <= l <= cN c)%Z -> (1 <= k <= cN c - l + 1)%Z -> (k = 1%Z -> l = cN c) ->
  starts_ok (cN c) l k (starts_iter RA c l k).
Proof.
  intros Hl Hk H1. unfold starts_iter.
  set (s := shift_iter RA c l k).
  assert (Hs : 1 <= s /\ (k <> 1%Z -> s * IZR (k - 1) = IZR (cN c - l))).
  { subst s. unfold shift_iter. destruct (Z.eqb_spec k 1) as [->|Hne].
    - cbn [one RA ltb]. destruct (r_ltb 1 1) eqn:E; [apply r_ltb_true in E; lra|]. split; [lra|lia].
    - cbn [one RA ltb div ofZ].
      assert (0 < IZR (k - 1)) by (apply IZR_lt; lia).
      assert (IZR (k - 1) <= IZR (cN c - l)) by (apply IZR_le; lia).
      assert (1 <= IZR (cN c - l) / IZR (k - 1)).
      { apply Rmult_le_reg_r with (IZR (k - 1)); [assumption|]. unfold Rdiv. rewrite Rmult_assoc, Rinv_l by lra. lra. }
      destruct (r_ltb _ 1) eqn:E; [apply r_ltb_true in E; lra|].
      split; [assumption|]. intros _. unfold Rdiv. rewrite Rmult_assoc, Rinv_l by lra. lra. }
  destruct Hs as [Hs1 Hs2].
  destruct (starts_iter_go_spec (Z.to_nat k) (zero RA) s) as [Hlen Hnth].
  apply floor_grid_ok with (s := s) (f := fun x => Zfloor (x + /2)); auto.
  - intros x. pose proof (Zfloor_lb (x + /2)). pose proof (Zfloor_ub (x + /2)). lra.
  - intros z. apply Zfloor_imp. rewrite plus_IZR. lra.
  - intros x y Hxy. apply Zfloor_half_mono. lra.
  - intros i Hi. rewrite Hnth by assumption. cbn [zero RA]. rewrite Rplus_0_l.
    apply r_trunc_nonneg. assert (0 <= INR i) by apply pos_INR. nra.
Qed.

(* ---- segment starts, vectorised: rint (i * shift) ---- *)
Lemma r_rint_mono1 x y : x + 1 < y -> (r_rint x < r_rint y)%Z.
Proof.
  intros H. pose proof (r_rint_bracket x) as [Hx _]. pose proof (r_rint_bracket y) as [_ Hy].
  apply lt_IZR. lra.
Qed.
(* NB: with ties-to-even, x + 1 <= y does NOT give rint x < rint y (1.5 and 2.5 both round to 2);
   the vectorised starts are safe because a shift of exactly 1 only produces integers. *)

Lemma starts_vec_ok c l k :
  (1 <= l <= cN c)%Z -> (1 <= k <= cN c - l + 1)%Z -> (k = 1%Z -> l = cN c) ->
  starts_ok (cN c) l k (starts_vec RA c l k).
Proof.
  intros Hl Hk H1. unfold starts_vec.
  set (s := if (k =? 1)%Z then 1 else shift_vec RA c l k).
  assert (Hs : 1 <= s /\ (k <> 1%Z -> s * IZR (k - 1) = IZR (cN c - l))).
  { subst s. destruct (Z.eqb_spec k 1) as [->|Hne]; [split; [lra|lia]|].
    unfold shift_vec. destruct (Z.ltb_spec 1 k); [|lia]. cbn [div ofZ RA].
    assert (0 < IZR (k - 1)) by (apply IZR_lt; lia).
    assert (IZR (k - 1) <= IZR (cN c - l)) by (apply IZR_le; lia).
    split.
    - apply Rmult_le_reg_r with (IZR (k - 1)); [assumption|]. unfold Rdiv. rewrite Rmult_assoc, Rinv_l by lra. lra.
    - intros _. unfold Rdiv. rewrite Rmult_assoc, Rinv_l by lra. lra. }
  destruct Hs as [Hs1 Hs2].
  apply floor_grid_ok with (s := s) (f := r_rint); auto.
  - apply r_rint_bracket.
  - apply r_rint_IZR.
  - apply r_rint_mono1.
  - rewrite map_length, seq_length. reflexivity.
  - intros i Hi.
    set (g := fun i0 : nat => rintZ RA (mul RA (ofZ RA (Z.of_nat i0)) (shift_vec RA c l k))).
    rewrite nth_indep with (d' := g 0%nat) by (rewrite map_length, seq_length; exact Hi).
    rewrite (map_nth g (seq 0 (Z.to_nat k)) 0%nat i).
    rewrite seq_nth by exact Hi. subst g. cbn [rintZ mul ofZ RA Nat.add]. f_equal.
    rewrite <- INR_IZR_INZ. subst s. destruct (Z.eqb_spec k 1) as [->|Hne]; [|reflexivity].
    assert (i = 0%nat) by lia. subst i. cbn [INR]. lra.
Qed.

(* ------------------------------------------------------------------ whole plans (C02) *)
Definition bin_safe (starts : cfg RA -> Z -> Z -> list Z) (c : cfg RA) (b : bin RA) : Prop :=
  bin_int_ok c (bL b) (bK b) /\ starts_ok (cN c) (bL b) (bK b) (starts c (bL b) (bK b)).

Lemma int_ok_starts_iter c l k : bin_int_ok c l k -> starts_ok (cN c) l k (starts_iter RA c l k).
Proof. intros (H1 & H2 & H3). apply starts_iter_ok; auto; lia. Qed.
Lemma int_ok_starts_vec c l k : bin_int_ok c l k -> starts_ok (cN c) l k (starts_vec RA c l k).
Proof. intros (H1 & H2 & H3). apply starts_vec_ok; auto; lia. Qed.

Lemma ltf_loop_safe ph fuel : forall c fi bs, admissible c ->
  ltf_loop RA ph fuel c fi = Ok bs -> Forall (bin_safe (starts_iter RA) c) bs.
Proof.
  induction fuel as [|fuel IH]; intros c fi bs Ha; cbn [ltf_loop].
  - destruct (ltb RA fi (fmax RA c)); [discriminate|]. intros H; inversion H; constructor.
  - destruct (ltb RA fi (fmax RA c)); [|intros H; inversion H; constructor].
    destruct (ltf_step RA ph c fi) as [b|] eqn:Hs; [|discriminate].
    destruct (ltf_loop RA ph fuel c (add RA fi (br b))) as [bs'| | |] eqn:Hl; try discriminate.
    intros H; inversion H; subst; clear H. constructor; [|eapply IH; eauto].
    pose proof (ltf_step_int_ok ph c fi b Ha Hs) as Hi. split; [exact Hi|apply int_ok_starts_iter; exact Hi].
Qed.

Lemma fmin_lt_fmax c : admissible c -> fmin RA c < fmax RA c.
Proof.
  intros [HN Hfs _ [Hb1 Hb2] _ _]. unfold fmin, fmax, two. cbn [div mul ofZ RA].
  assert (0 < IZR (cN c)) by (apply IZR_lt; lia).
  assert (cfs c / IZR (cN c) * cbmin c < cfs c / IZR (cN c) * (IZR (cN c) / 2)).
  { apply Rmult_lt_compat_l; [|exact Hb2]. apply Rdiv_lt_0_compat; assumption. }
  replace (cfs c / IZR (cN c) * (IZR (cN c) / 2)) with (cfs c / 2) in H0 by (field; lra). exact H0.
Qed.

Theorem ltf_plan_safe ph fuel c bs : admissible c ->
  ltf_bins RA ph fuel c = Ok bs -> bs <> [] /\ Forall (bin_safe (starts_iter RA) c) bs.
Proof.
  intros Ha H. split; [|eapply ltf_loop_safe; eauto].
  unfold ltf_bins in H. pose proof (fmin_lt_fmax c Ha) as Hlt. apply r_ltb_true in Hlt.
  destruct fuel; cbn [ltf_loop] in H; cbn [ltb RA] in H; rewrite Hlt in H; [discriminate|].
  destruct (ltf_step RA ph c (fmin RA c)); [|discriminate].
  destruct (ltf_loop RA ph fuel c _); try discriminate. inversion H. discriminate.
Qed.

(* vectorised scheduler *)
Lemma nseg_raw_N (round : R -> Z) c : round 1 = 1%Z -> admissible c -> nseg_raw RA round c (cN c) = 1%Z.
Proof.
  intros Hr Ha. unfold nseg_raw. cbn [add div mul ofZ one RA]. rewrite Z.sub_diag.
  unfold Rdiv. rewrite Rmult_0_l, Rplus_0_l. exact Hr.
Qed.

Lemma vec_point_int_ok sq c g r l k : admissible c -> vec_point RA sq c g = (r, l, k) -> bin_int_ok c l k.
Proof.
  intros Ha. unfold vec_point. pose proof (adm_Lmin c Ha) as HL.
  set (l0 := Z.min (Z.max (rintZ RA (div RA (cfs c) (vec_res RA sq c g))) (cLmin c)) (cN c)).
  assert (Hl0 : (cLmin c <= l0 <= cN c)%Z) by (subst l0; lia).
  assert (Hn : (1 <= nseg_raw RA (rintZ RA) c l0)%Z) by (apply nseg_ge_1; auto; [intros; apply rint_ge_1; assumption|lia]).
  intros H; inversion H; subst; clear H. unfold bin_int_ok, capK. cbn [rintZ RA] in *.
  destruct (Z.eqb_spec (nseg_raw RA r_rint c l0) 1) as [E|E].
  - rewrite (nseg_raw_N r_rint c); [lia| |exact Ha]. apply (r_rint_IZR 1).
  - lia.
Qed.

Lemma vec_walk_safe sq fuel : forall c grid f bs, admissible c ->
  vec_walk RA sq fuel c grid f = Ok bs -> Forall (bin_safe (starts_vec RA) c) bs.
Proof.
  induction fuel as [|fuel IH]; intros c grid f bs Ha; cbn [vec_walk].
  - destruct (ltb RA f (fmax RA c)); [discriminate|]. intros H; inversion H; constructor.
  - destruct (ltb RA f (fmax RA c)); [|intros H; inversion H; constructor].
    destruct (nth_error grid (searchsorted_left RA grid f)) as [g|]; [|intros H; inversion H; constructor].
    destruct (vec_point RA sq c g) as [[r l] k] eqn:Hp.
    destruct (vec_walk RA sq fuel c grid (add RA f r)) as [bs'| | |] eqn:Hl; try discriminate.
    intros H; inversion H; subst; clear H. constructor; [|eapply IH; eauto].
    pose proof (vec_point_int_ok sq c g r l k Ha Hp) as Hi. split; cbn [bL bK]; [exact Hi|apply int_ok_starts_vec; exact Hi].
Qed.

(* the vectorised plan is non-empty when the first frequency falls on or below some grid point:
   the walker looks up the first grid point >= fmin (np.searchsorted 'left'); the log-grid is built to start at fmin. *)
Theorem vec_plan_safe sq fuel c grid bs : admissible c ->
  vec_bins RA sq fuel c grid = Ok bs ->
  Forall (bin_safe (starts_vec RA) c) bs /\
  ((exists g, In g grid /\ fmin_vec RA c <= g) -> bs <> []).
Proof.
  intros Ha H. split; [eapply vec_walk_safe; eauto|].
  intros (g & Hin & Hg). unfold vec_bins in H.
  assert (Hlt : ltb RA (fmin_vec RA c) (fmax RA c) = true).
  { pose proof (fmin_lt_fmax c Ha) as Hlt. apply r_ltb_true. unfold fmin, fmin_vec in *. cbn [div mul ofZ RA] in *.
    replace (cbmin c * cfs c / IZR (cN c)) with (cfs c / IZR (cN c) * cbmin c) by (unfold Rdiv; ring). exact Hlt. }
  assert (Hidx : exists g', nth_error grid (searchsorted_left RA grid (fmin_vec RA c)) = Some g').
  { clear H. induction grid as [|g0 gs IHg]; [destruct Hin|].
    cbn [searchsorted_left]. destruct (ltb RA g0 (fmin_vec RA c)) eqn:E.
    - destruct Hin as [->|Hin]; [apply r_ltb_true in E; lra|]. cbn [nth_error]. apply IHg; exact Hin.
    - exists g0. reflexivity. }
  destruct Hidx as [g' Hg'].
  destruct fuel; cbn [vec_walk] in H; rewrite Hlt in H; [discriminate|].
  rewrite Hg' in H. destruct (vec_point RA sq c g') as [[r l] k].
  destruct (vec_walk RA sq fuel c grid _); try discriminate. inversion H. discriminate.
Qed.

(* ------------------------------------------------------------------ frequency grid at RA (C03) *)
Lemma bin_int_ok_L_pos c l k : bin_int_ok c l k -> 0 < IZR l.
Proof. intros (H & _). apply IZR_lt. lia. Qed.

Fixpoint increasing_from (lo : R) (bs : list (bin RA)) : Prop :=
  match bs with [] => True | b :: bs' => lo <= bf b /\ bf b < bf b + br b /\ increasing_from (bf b + br b) bs' end.

Lemma chain_increasing (c : cfg RA) (bs : list (bin RA)) : forall fi : R, 0 < cfs c ->
  chain RA fi bs -> Forall (bin_dft RA c) bs -> Forall (fun b : bin RA => 0 < IZR (bL b)) bs ->
  increasing_from fi bs /\ Forall (fun b : bin RA => br b * IZR (bL b) = cfs c /\ bf b < cfs c / 2 /\ bb b = bf b * IZR (bL b) / cfs c) bs.
Proof.
  induction bs as [|b bs IH]; intros fi Hfs Hc Hd Hp; cbn; [split; constructor|].
  destruct Hc as [Hf Hc]. inversion Hd as [|? ? (Hr & Hb & Hlt) Hd']; subst. inversion Hp as [|? ? HL Hp']; subst.
  cbn [div ofZ RA add ltb] in *. apply r_ltb_true in Hlt. unfold fmax, two in Hlt. cbn [div ofZ RA] in Hlt.
  assert (0 < br b) by (rewrite Hr; apply Rdiv_lt_0_compat; assumption).
  destruct (IH (bf b + br b) Hfs Hc Hd' Hp') as [Hi HF].
  split; [split; [lra|split; [lra|exact Hi]]|]. constructor; [|exact HF].
  split; [rewrite Hr; field; lra|]. split; [exact Hlt|]. rewrite Hb, Hr. field. split; lra.
Qed.

Lemma div_div_self (a b : R) : 0 < a -> 0 < b -> b <= a / (a / b).
Proof. intros. right. field. split; lra. Qed.

(* b >= bmin up to the half-sample rounding of L  (ltf / lpsd) *)
Lemma ltf_step_bmin_slack ph c fi b : admissible c -> fmin RA c <= fi ->
  ltf_step RA ph c fi = Some b -> cbmin c - fi / (2 * cfs c) <= bb b.
Proof.
  intros Ha Hfi. pose proof Ha as [HN Hfs Ho [Hb1 Hb2] HL HK].
  assert (HNpos : 0 < IZR (cN c)) by (apply IZR_lt; lia).
  assert (Hfmin : 0 < fmin RA c).
  { unfold fmin. cbn [div mul ofZ RA]. apply Rmult_lt_0_compat; [apply Rdiv_lt_0_compat; assumption|lra]. }
  assert (Hfipos : 0 < fi) by lra.
  unfold ltf_step. destruct (ltf_res RA ph c fi) as [fres0|]; [|discriminate].
  set (fres1 := if ltb RA (div RA fi fres0) (cbmin c) then div RA fi (cbmin c) else fres0).
  set (l0 := clampL RA c (rhuZ RA (div RA (cfs c) fres1))).
  set (k := capK RA c l0 (nseg_raw RA (rhuZ RA) c l0)).
  intros H; inversion H; subst b; clear H. cbn [bb div ofZ RA].
  (* the final L is either N (clamped / single segment) or >= rhu(fs/fres1) *)
  assert (HbN : cbmin c <= fi / (cfs c / IZR (cN c))).
  { unfold fmin in Hfi. cbn [div mul ofZ RA] in Hfi.
    replace (fi / (cfs c / IZR (cN c))) with (fi * IZR (cN c) / cfs c) by (field; lra).
    apply Rmult_le_reg_r with (cfs c / IZR (cN c)); [apply Rdiv_lt_0_compat; assumption|].
    replace (fi * IZR (cN c) / cfs c * (cfs c / IZR (cN c))) with fi by (field; lra). lra. }
  destruct (Z.eqb_spec k 1) as [_|_]; [assert (0 < fi / (2 * cfs c)) by (apply Rdiv_lt_0_compat; lra); lra|].
  (* l0 = clampL (rhu (fs / fres1)) *)
  assert (Hl0 : (cLmin c <= l0 <= cN c)%Z) by (apply clampL_bounds; lia).
  assert (Hl0pos : 0 < IZR l0) by (apply IZR_lt; lia).
  replace (fi / (cfs c / IZR l0)) with (fi * IZR l0 / cfs c) by (field; lra).
  subst l0. unfold clampL in *.
  set (L0 := rhuZ RA (div RA (cfs c) fres1)) in *.
  destruct (Z.ltb_spec (cN c) L0) as [Hbig|Hsmall].
  - (* clamped down to N (then Lmin <= N keeps it) *)
    destruct (Z.ltb_spec (cN c) (cLmin c)); [lia|].
    replace (fi * IZR (cN c) / cfs c) with (fi / (cfs c / IZR (cN c))) by (field; lra).
    assert (0 < fi / (2 * cfs c)) by (apply Rdiv_lt_0_compat; lra). lra.
  - (* L >= L0 >= fs/fres1 - 1/2 and fi/fres1 >= bmin *)
    assert (HL0 : cfs c / fres1 - /2 <= IZR L0).
    { subst L0. cbn [rhuZ div RA]. pose proof (r_rhu_bracket (cfs c / fres1)). lra. }
    assert (Hfres1 : 0 < fres1 /\ cbmin c <= fi / fres1).
    { subst fres1. cbn [ltb div RA]. destruct (r_ltb (fi / fres0) (cbmin c)) eqn:E.
      - split; [apply Rdiv_lt_0_compat; lra|]. apply div_div_self; lra.
      - apply r_ltb_false in E. split; [|exact E]. change (T RA) with R in *.
        (* fres0 > 0 because fi / fres0 >= bmin >= 1 > 0 with fi > 0 *)
        destruct (Rlt_dec 0 fres0) as [|Hn]; [assumption|exfalso].
        assert (fres0 <= 0) by lra. destruct (Req_dec fres0 0) as [->|Hne].
        + unfold Rdiv in E. rewrite Rinv_0, Rmult_0_r in E. lra.
        + assert (fres0 < 0) by lra. assert (/ fres0 < 0) by (apply Rinv_lt_0_compat; assumption).
          assert (fi / fres0 < 0) by (unfold Rdiv; nra). lra. }
    destruct Hfres1 as [Hfp Hbm].
    assert (HLge : IZR L0 <= IZR (if (L0 <? cLmin c)%Z then cLmin c else L0)).
    { destruct (Z.ltb_spec L0 (cLmin c)); [apply IZR_le; lia|lra]. }
    set (Lf := IZR (if (L0 <? cLmin c)%Z then cLmin c else L0)) in *.
    assert (fi * (cfs c / fres1 - /2) / cfs c <= fi * Lf / cfs c).
    { unfold Rdiv. apply Rmult_le_compat_r; [left; apply Rinv_0_lt_compat; lra|]. apply Rmult_le_compat_l; lra. }
    replace (fi * (cfs c / fres1 - /2) / cfs c) with (fi / fres1 - fi / (2 * cfs c)) in H by (field; split; lra).
    lra.
Qed.

Lemma ltf_step_r_pos ph c fi b : admissible c -> ltf_step RA ph c fi = Some b -> 0 < br b /\ bf b = fi.
Proof.
  intros Ha Hs. pose proof (ltf_step_int_ok ph c fi b Ha Hs) as Hi. apply bin_int_ok_L_pos in Hi.
  apply ltf_step_struct in Hs. destruct Hs as (Hf & Hr & _). split; [|exact Hf].
  rewrite Hr. cbn [div ofZ RA]. apply Rdiv_lt_0_compat; [apply (adm_fs c Ha)|exact Hi].
Qed.

Lemma ltf_loop_bmin ph fuel : forall c fi bs, admissible c -> fmin RA c <= fi ->
  ltf_loop RA ph fuel c fi = Ok bs -> Forall (fun b : bin RA => cbmin c - bf b / (2 * cfs c) <= bb b) bs.
Proof.
  induction fuel as [|fuel IH]; intros c fi bs Ha Hfi; cbn [ltf_loop].
  - destruct (ltb RA fi (fmax RA c)); [discriminate|]. intros H; inversion H; constructor.
  - destruct (ltb RA fi (fmax RA c)); [|intros H; inversion H; constructor].
    destruct (ltf_step RA ph c fi) as [b|] eqn:Hs; [|discriminate].
    destruct (ltf_loop RA ph fuel c (add RA fi (br b))) as [bs'| | |] eqn:Hl; try discriminate.
    intros H; inversion H; subst; clear H.
    destruct (ltf_step_r_pos ph c fi b Ha Hs) as [Hr Hf].
    constructor.
    + rewrite Hf. eapply ltf_step_bmin_slack; eauto.
    + eapply IH; [exact Ha| |exact Hl]. cbn [add RA]. lra.
Qed.

Lemma fmin_forms (a n b : R) : a / n * b = b * a / n.
Proof. unfold Rdiv. ring. Qed.

(* the complete C03 statement for the iterative scheduler at RA *)
Theorem ltf_grid_ok ph fuel c bs : admissible c -> ltf_bins RA ph fuel c = Ok bs ->
  chain RA (fmin RA c) bs /\ fmin RA c = cbmin c * cfs c / IZR (cN c) /\
  increasing_from (fmin RA c) bs /\
  Forall (fun b : bin RA => br b * IZR (bL b) = cfs c /\ bf b < cfs c / 2 /\ bb b = bf b * IZR (bL b) / cfs c /\
                           cbmin c - bf b / (2 * cfs c) <= bb b) bs.
Proof.
  intros Ha H. unfold ltf_bins in H.
  destruct (ltf_loop_struct RA ph fuel c _ bs H) as [Hc Hd].
  pose proof (ltf_loop_safe ph fuel c _ bs Ha H) as Hs.
  pose proof (ltf_loop_bmin ph fuel c _ bs Ha (Rle_refl _) H) as Hb.
  assert (Hp : Forall (fun b : bin RA => 0 < IZR (bL b)) bs).
  { eapply Forall_impl; [|exact Hs]. intros b [Hi _]. eapply bin_int_ok_L_pos; exact Hi. }
  destruct (chain_increasing c bs _ (adm_fs c Ha) Hc Hd Hp) as [Hi HF].
  split; [exact Hc|]. split.
  - unfold fmin. cbn [div mul ofZ RA]. apply fmin_forms.
  - split; [exact Hi|]. rewrite Forall_forall in *. intros b Hin.
    destruct (HF b Hin) as (A1 & A2 & A3). repeat split; auto.
Qed.

(* ------------------------------------------------------------------ analyzer-side plan validation (analysis.py:473-498) *)
Definition validate_bin (N Lmin l k : Z) (d : list Z) : bool :=
  (Lmin <=? l)%Z && (1 <=? l)%Z && negb (Nat.eqb (length d) 0) &&
  forallb (fun x => (0 <=? x)%Z && (x <=? N - l)%Z) d && (k =? Z.of_nat (length d))%Z.

Lemma safe_validates c l k d : bin_int_ok c l k -> starts_ok (cN c) l k d ->
  validate_bin (cN c) (cLmin c) l k d = true.
Proof.
  intros (H1 & H2 & H3) (Hlen & _ & _ & _ & Hr). unfold validate_bin.
  repeat (apply andb_true_intro; split).
  - apply Z.leb_le. lia.
  - apply Z.leb_le. lia.
  - rewrite Hlen. destruct (Z.to_nat k) eqn:E; [lia|reflexivity].
  - apply forallb_forall. intros x Hx. destruct (In_nth d x (-1)%Z Hx) as (i & Hi & <-).
    rewrite Hlen in Hi. specialize (Hr i Hi). apply andb_true_intro. split; apply Z.leb_le; lia.
  - apply Z.eqb_eq. rewrite Hlen. lia.
Qed.
