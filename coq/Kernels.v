(* Kernels.v — hand-written reference for the single-bin statistics kernels, generic in the carrier.
   The generated kernels (gen/KernelsGen.v, produced from the Python source on every run) are proved equal
   to these in GenRef.v; the mathematical content (Goertzel = DFT, detrending, bounds) is proved about
   these in KernelThms.v. *)
From Coq Require Import ZArith List Bool.
From SK Require Import Arith KernelPrims.
Import ListNotations.
Open Scope Z_scope.

Section Ref.
Variable A : Arith.
Local Notation "x +! y" := (add A x y) (at level 50, left associativity).
Local Notation "x -! y" := (sub A x y) (at level 50, left associativity).
Local Notation "x *! y" := (mul A x y) (at level 40, left associativity).
Local Notation "x /! y" := (div A x y) (at level 40, left associativity).
Local Notation Z0T := (ofZ A 0).

(* three-register Goertzel step; state order (s0, s2, s1) as the loop-carried variables appear in the source *)
Definition gstep3 (coeff : T A) (st : T A * T A * T A) (v : T A) : T A * T A * T A :=
  let '(s0, s2, s1) := st in
  let s0 := v +! coeff *! s1 -! s2 in
  let s2 := s1 in
  let s1 := s0 in
  (s0, s2, s1).
Definition goertzel_idx (coeff : T A) (v : Z -> T A) (L : Z) : T A * T A * T A :=
  fold_left (fun st n_ => gstep3 coeff st (v (Z.of_nat n_))) (seq 0 (Z.to_nat L)) (Z0T, Z0T, Z0T).
Definition binval (cosw sinw : T A) (st : T A * T A * T A) : T A * T A :=
  let '(s0, s2, s1) := st in (s1 -! s2 *! cosw, s2 *! sinw).
Definition ref_bin (cosw sinw : T A) (v : Z -> T A) (L : Z) : T A * T A :=
  binval cosw sinw (goertzel_idx (ofZ A 2 *! cosw) v L).

(* per-segment products: power (auto) and cross terms Re/Im{X conj Y} *)
Definition pw_auto (a : T A * T A) : T A * T A * T A * T A :=
  let '(r, i) := a in let p := r *! r +! i *! i in (p, p, p, Z0T).
Definition pw_csd (a b : T A * T A) : T A * T A * T A * T A :=
  let '(r1, i1) := a in let '(r2, i2) := b in
  (r1 *! r1 +! i1 *! i1, r2 *! r2 +! i2 *! i2, r1 *! r2 +! i1 *! i2, i1 *! r2 -! r1 *! i2).

(* detrending *)
Definition seg_mean (x : list (T A)) (s L : Z) : T A :=
  fold_left (fun m n_ => m +! nthT A x (s + Z.of_nat n_)) (seq 0 (Z.to_nat L)) Z0T /! ofZ A L.
Definition alpha_ref (x : list (T A)) (Q : list (list (T A))) (s L : Z) : list (T A) :=
  map (fun k_ => fold_left (fun acc n_ => acc +! nth2T A Q (Z.of_nat n_) (Z.of_nat k_) *! nthT A x (s + Z.of_nat n_))
                           (seq 0 (Z.to_nat L)) Z0T)
      (seq 0 (length (hd [] Q))).
Definition rowdot (Q : list (list (T A))) (n : Z) (alpha : list (T A)) : T A :=
  fold_left (fun acc k_ => acc +! nth2T A Q n (Z.of_nat k_) *! nthT A alpha (Z.of_nat k_)) (seq 0 (Z.to_nat (Z.of_nat (length (hd [] Q))))) Z0T.

(* windowed, detrended sample n of the segment starting at s *)
Definition samp_win (x w : list (T A)) (s : Z) : Z -> T A := fun n => nthT A x (s + n) *! nthT A w n.
Definition samp_mean0 (x w : list (T A)) (L s : Z) : Z -> T A :=
  let m := seg_mean x s L in fun n => (nthT A x (s + n) -! m) *! nthT A w n.
Definition samp_poly (x w : list (T A)) (Q : list (list (T A))) (L s : Z) : Z -> T A :=
  let alpha := alpha_ref x Q s L in fun n => (nthT A x (s + n) -! rowdot Q n alpha) *! nthT A w n.

(* reduction over segments: means and M2 = mean |XY_k - mean|^2 (K >= 2), 0 for K = 1, zeros for K = 0 *)
Definition ref_reduce (xx yy xyr xyi : list (T A)) : T A * T A * T A * T A * T A :=
  let K := Z.of_nat (length xx) in
  if K =? 0 then (Z0T, Z0T, Z0T, Z0T, Z0T) else
  let MXX := meanT A xx in
  let MYY := meanT A yy in
  let mu_r := meanT A xyr in
  let mu_i := meanT A xyi in
  let M2 := if K >=? 2 then
      let dr := map (fun z_ => z_ -! mu_r) xyr in
      let di := map (fun z_ => z_ -! mu_i) xyi in
      meanT A (zipT (add A) (zipT (mul A) dr dr) (zipT (mul A) di di))
    else Z0T in
  (MXX, MYY, mu_r, mu_i, M2).
Definition reduce_rows (rows : list (T A * T A * T A * T A)) :=
  ref_reduce (map proj4_1 rows) (map proj4_2 rows) (map proj4_3 rows) (map proj4_4 rows).

(* the statistics of one bin, parameterised by the per-segment sample function(s) *)
Definition ref_auto (cosw sinw : T A) (samp : Z -> Z -> T A) (starts : list Z) (L : Z) :=
  reduce_rows (map (fun s => pw_auto (ref_bin cosw sinw (samp s) L)) starts).
Definition ref_csd (cosw sinw : T A) (samp1 samp2 : Z -> Z -> T A) (starts : list Z) (L : Z) :=
  reduce_rows (map (fun s => pw_csd (ref_bin cosw sinw (samp1 s) L) (ref_bin cosw sinw (samp2 s) L)) starts).

(* ---- NumPy fallbacks (core.py:858-1101): gather, detrend, (seg*w) @ e, Z = X conj(Y).
   e is the phasor table exp(-/+ i omega n) as evaluated by NumPy (data in executions, cos/sin at R). *)
Definition dot_phasor (v : Z -> T A) (er ei : list (T A)) (L : Z) : T A * T A :=
  (fold_left (fun acc n_ => acc +! v (Z.of_nat n_) *! nthT A er (Z.of_nat n_)) (seq 0 (Z.to_nat L)) Z0T,
   fold_left (fun acc n_ => acc +! v (Z.of_nat n_) *! nthT A ei (Z.of_nat n_)) (seq 0 (Z.to_nat L)) Z0T).
Definition np_auto (er ei : list (T A)) (samp : Z -> Z -> T A) (starts : list Z) (L : Z) :=
  reduce_rows (map (fun s => pw_auto (dot_phasor (samp s) er ei L)) starts).
Definition np_csd (er ei : list (T A)) (samp1 samp2 : Z -> Z -> T A) (starts : list Z) (L : Z) :=
  reduce_rows (map (fun s => pw_csd (dot_phasor (samp1 s) er ei L) (dot_phasor (samp2 s) er ei L)) starts).
End Ref.
