(* SchedMono.v — C04: along the iterative LTF/LPSD plan the segment length never increases and the number of averages never
   decreases with frequency (at the reals, with x**0.5 the real square root). *)
From Coq Require Import ZArith List Bool Reals Lra Lia Psatz.
From Flocq Require Import Raux.
From SK Require Import Arith Sched SchedThms.
Import ListNotations.
Open Scope R_scope.

Definition sqrt_oracle (x : R) : option R := Some (sqrt x).

Section Mono.
Variable c : cfg RA.
Hypothesis Ha : admissible c.
Hypothesis Hlf : 0 < clogfact c.

Lemma fresmin_pos : 0 < fresmin RA c.
Proof. unfold fresmin. cbn [div ofZ RA]. destruct Ha. apply Rdiv_lt_0_compat; [assumption|apply IZR_lt; lia]. Qed.
Lemma freslim_ge_fresmin : fresmin RA c <= freslim RA c.
Proof.
  unfold freslim. cbn [mul add one ofZ RA]. unfold xov. cbn [sub one RA]. pose proof fresmin_pos. destruct Ha as [_ _ Ho _ _ HK].
  assert (0 <= IZR (cKdes c - 1)) by (apply IZR_le; lia).
  assert (0 <= (1 - colap c) * IZR (cKdes c - 1)) by (apply Rmult_le_pos; lra). nra.
Qed.

(* the resolution compromise as a real function *)
Definition res (fi : R) : R :=
  let fres := fi * clogfact c in
  if Rle_dec (freslim RA c) fres then fres
  else let s := sqrt (freslim RA c * fres) in if Rlt_dec (fresmin RA c) s then s else fresmin RA c.
Lemma ltf_res_is_res fi : ltf_res RA sqrt_oracle c fi = Some (res fi).
Proof.
  unfold ltf_res, res, sqrt_oracle. cbn [leb ltb mul RA]. unfold r_leb, r_ltb.
  destruct (Rle_dec (freslim RA c) (fi * clogfact c)); [reflexivity|].
  destruct (Rlt_dec (fi * clogfact c) (freslim RA c)); [|lra].
  destruct (Rlt_dec (fresmin RA c) (sqrt (freslim RA c * (fi * clogfact c)))); reflexivity.
Qed.
Lemma res_pos fi : 0 < fi -> 0 < res fi.
Proof.
  intros Hfi. unfold res. pose proof fresmin_pos. pose proof freslim_ge_fresmin.
  destruct (Rle_dec _ _); [nra|]. destruct (Rlt_dec _ _); lra.
Qed.
Lemma res_mono f1 f2 : 0 < f1 -> f1 <= f2 -> res f1 <= res f2.
Proof.
  intros H1 H12. unfold res. pose proof fresmin_pos as Hm. pose proof freslim_ge_fresmin as Hl.
  set (a := f1 * clogfact c). set (b := f2 * clogfact c).
  assert (Hab : a <= b) by (subst a b; nra). assert (Ha0 : 0 < a) by (subst a; nra).
  assert (HL : 0 < freslim RA c) by lra.
  destruct (Rle_dec (freslim RA c) a) as [A1|A1], (Rle_dec (freslim RA c) b) as [B1|B1]; try lra.
  - (* a below the limit, b above: sqrt(lim a) < lim <= b and fresmin <= lim <= b *)
    assert (sqrt (freslim RA c * a) <= freslim RA c).
    { rewrite <- (sqrt_square (freslim RA c)) at 2 by lra. apply sqrt_le_1_alt. nra. }
    destruct (Rlt_dec _ _); lra.
  - assert (Hs : sqrt (freslim RA c * a) <= sqrt (freslim RA c * b)) by (apply sqrt_le_1_alt; nra).
    destruct (Rlt_dec (fresmin RA c) (sqrt (freslim RA c * a))), (Rlt_dec (fresmin RA c) (sqrt (freslim RA c * b))); lra.
Qed.

(* after the bmin enforcement: min (res fi) (fi / bmin) *)
Definition res' (fi : R) : R := if Rlt_dec (fi / res fi) (cbmin c) then fi / cbmin c else res fi.
Lemma res'_pos fi : 0 < fi -> 0 < res' fi.
Proof. intros H. unfold res'. destruct Ha as [_ _ _ [Hb _] _ _]. destruct (Rlt_dec _ _); [apply Rdiv_lt_0_compat; lra|apply res_pos; exact H]. Qed.
Lemma res'_is_min fi : 0 < fi -> res' fi = Rmin (res fi) (fi / cbmin c).
Proof.
  intros H. unfold res'. pose proof (res_pos fi H) as Hr. destruct Ha as [_ _ _ [Hb _] _ _].
  assert (Hbp : 0 < cbmin c) by lra.
  destruct (Rlt_dec (fi / res fi) (cbmin c)) as [E|E].
  - assert (fi / cbmin c < res fi).
    { apply Rmult_lt_reg_r with (cbmin c); [exact Hbp|]. unfold Rdiv. rewrite Rmult_assoc, Rinv_l by lra.
      apply Rmult_lt_compat_r with (r := res fi) in E; [|exact Hr]. unfold Rdiv in E. rewrite Rmult_assoc, Rinv_l in E by lra. lra. }
    rewrite Rmin_right; lra.
  - assert (res fi <= fi / cbmin c).
    { apply Rnot_lt_le in E. apply Rmult_le_reg_r with (cbmin c); [exact Hbp|]. unfold Rdiv. rewrite Rmult_assoc, Rinv_l by lra.
      apply Rmult_le_compat_r with (r := res fi) in E; [|lra]. unfold Rdiv in E. rewrite Rmult_assoc, Rinv_l in E by lra. lra. }
    rewrite Rmin_left; lra.
Qed.
Lemma res'_mono f1 f2 : 0 < f1 -> f1 <= f2 -> res' f1 <= res' f2.
Proof.
  intros H1 H12. rewrite !res'_is_min by lra. destruct Ha as [_ _ _ [Hb _] _ _].
  apply Rle_min_compat_r with (z := f1 / cbmin c) (x := res f1) (y := res f2) in H1 || idtac.
  assert (res f1 <= res f2) by (apply res_mono; assumption).
  assert (f1 / cbmin c <= f2 / cbmin c) by (unfold Rdiv; apply Rmult_le_compat_r; [left; apply Rinv_0_lt_compat; lra|lra]).
  unfold Rmin. destruct (Rle_dec (res f1) (f1 / cbmin c)), (Rle_dec (res f2) (f2 / cbmin c)); lra.
Qed.

Lemma clampL_mono (a b : Z) : (a <= b)%Z -> (clampL RA c a <= clampL RA c b)%Z.
Proof.
  intros H. unfold clampL.
  destruct (Z.ltb_spec (cN c) a), (Z.ltb_spec (cN c) b); try lia;
    repeat match goal with |- context [(?x <? ?y)%Z] => destruct (Z.ltb_spec x y) end; lia.
Qed.

(* integer part: rounded, clamped length is non-increasing in fi; the capped count is non-increasing in the length *)
Definition len0 (fi : R) : Z := clampL RA c (r_rhu (cfs c / res' fi)).
Lemma len0_mono f1 f2 : 0 < f1 -> f1 <= f2 -> (len0 f2 <= len0 f1)%Z.
Proof.
  intros H1 H12. unfold len0.
  assert (Hr : (r_rhu (cfs c / res' f2) <= r_rhu (cfs c / res' f1))%Z).
  { apply r_rhu_mono. pose proof (res'_pos f1 H1). pose proof (res'_mono f1 f2 H1 H12). destruct Ha as [_ Hfs _ _ _ _].
    unfold Rdiv. apply Rmult_le_compat_l; [lra|]. apply Rinv_le_contravar; lra. }
  apply clampL_mono. exact Hr.
Qed.
Lemma nseg_raw_mono l1 l2 : (1 <= l2 <= l1)%Z -> (l1 <= cN c)%Z ->
  (nseg_raw RA (rhuZ RA) c l1 <= nseg_raw RA (rhuZ RA) c l2)%Z.
Proof.
  intros Hl HN. unfold nseg_raw. cbn [rhuZ add div mul sub ofZ one RA xov]. apply r_rhu_mono.
  destruct Ha as [_ _ Ho _ _ _].
  assert (P1 : 0 < IZR l1) by (apply IZR_lt; lia). assert (P2 : 0 < IZR l2) by (apply IZR_lt; lia).
  assert (IZR l2 <= IZR l1) by (apply IZR_le; lia). assert (IZR l1 <= IZR (cN c)) by (apply IZR_le; lia).
  rewrite !minus_IZR.
  (* (N - l1)/(x l1) <= (N - l2)/(x l2)  <=>  (N - l1) l2 <= (N - l2) l1  <=>  N l2 <= N l1 *)
  assert (0 < (1 - colap c)) by lra.
  apply Rplus_le_compat_r. unfold Rdiv.
  replace ((IZR (cN c) - IZR l1) * / ((1 - colap c) * IZR l1)) with ((IZR (cN c) * / IZR l1 - 1) * / (1 - colap c)) by (field; lra).
  replace ((IZR (cN c) - IZR l2) * / ((1 - colap c) * IZR l2)) with ((IZR (cN c) * / IZR l2 - 1) * / (1 - colap c)) by (field; lra).
  apply Rmult_le_compat_r; [left; apply Rinv_0_lt_compat; lra|].
  assert (/ IZR l1 <= / IZR l2) by (apply Rinv_le_contravar; lra).
  assert (0 <= IZR (cN c)) by lra.
  assert (IZR (cN c) * / IZR l1 <= IZR (cN c) * / IZR l2) by (apply Rmult_le_compat_l; assumption). lra.
Qed.

Theorem ltf_step_monotone f1 f2 b1 b2 : 0 < f1 -> f1 <= f2 ->
  ltf_step RA sqrt_oracle c f1 = Some b1 -> ltf_step RA sqrt_oracle c f2 = Some b2 ->
  (bL b2 <= bL b1)%Z /\ (bK b1 <= bK b2)%Z.
Proof.
  intros H1 H12. unfold ltf_step. rewrite !ltf_res_is_res. cbn [ltb div RA].
  assert (E : forall fi, (if r_ltb (fi / res fi) (cbmin c) then fi / cbmin c else res fi) = res' fi).
  { intros fi. unfold res', r_ltb. destruct (Rlt_dec (fi / res fi) (cbmin c)); reflexivity. }
  rewrite !E. cbn [rhuZ RA]. fold (len0 f1). fold (len0 f2).
  intros B1 B2. inversion B1; subst b1; clear B1. inversion B2; subst b2; clear B2. cbn [bL bK].
  pose proof (len0_mono f1 f2 H1 H12) as Hl.
  pose proof (adm_Lmin c Ha) as HLm.
  assert (R1 : (cLmin c <= len0 f1 <= cN c)%Z) by (apply clampL_bounds; lia).
  assert (R2 : (cLmin c <= len0 f2 <= cN c)%Z) by (apply clampL_bounds; lia).
  pose proof (nseg_raw_mono (len0 f1) (len0 f2) ltac:(lia) ltac:(lia)) as Hn.
  assert (G1 : (1 <= nseg_raw RA (rhuZ RA) c (len0 f1))%Z) by (apply nseg_ge_1; [intros; apply rhu_ge_1; assumption|exact Ha|lia]).
  assert (G2 : (1 <= nseg_raw RA (rhuZ RA) c (len0 f2))%Z) by (apply nseg_ge_1; [intros; apply rhu_ge_1; assumption|exact Ha|lia]).
  cbn [rhuZ RA] in Hn, G1, G2.
  unfold capK.
  destruct (Z.eqb_spec (Z.min (nseg_raw RA r_rhu c (len0 f1)) (cN c - len0 f1 + 1)) 1) as [K1|K1],
           (Z.eqb_spec (Z.min (nseg_raw RA r_rhu c (len0 f2)) (cN c - len0 f2 + 1)) 1) as [K2|K2]; cbn [rhuZ RA] in *; lia.
Qed.
End Mono.

(* along the whole plan: each bin's L is at most the previous bin's, each K at least the previous bin's *)
Fixpoint plan_monotone (bs : list (bin RA)) : Prop :=
  match bs with
  | b1 :: ((b2 :: _) as tl) => (bL b2 <= bL b1)%Z /\ (bK b1 <= bK b2)%Z /\ plan_monotone tl
  | _ => True
  end.
Theorem ltf_plan_monotone fuel (c : cfg RA) : admissible c -> 0 < clogfact c -> forall fi bs, 0 < fi ->
  ltf_loop RA sqrt_oracle fuel c fi = Ok bs -> plan_monotone bs.
Proof.
  intros Ha Hlf. induction fuel as [|fuel IH]; intros fi bs Hfi; cbn [ltf_loop].
  - destruct (ltb RA fi (fmax RA c)); [discriminate|]. intros H; inversion H; exact I.
  - destruct (ltb RA fi (fmax RA c)); [|intros H; inversion H; exact I].
    destruct (ltf_step RA sqrt_oracle c fi) as [b|] eqn:Hs; [|discriminate].
    destruct (ltf_loop RA sqrt_oracle fuel c (add RA fi (br b))) as [bs'| | |] eqn:Hl; try discriminate.
    intros H; inversion H; subst; clear H.
    destruct (ltf_step_r_pos sqrt_oracle c fi b Ha Hs) as [Hr _].
    assert (Hfi' : 0 < add RA fi (br b)) by (cbn [add RA]; lra).
    pose proof (IH _ _ Hfi' Hl) as Hm.
    destruct bs' as [|b2 bs'']; [exact I|]. cbn [plan_monotone]. split; [|split]; try exact Hm.
    + (* first bin of the rest was produced at frequency fi + r >= fi *)
      destruct fuel; cbn [ltf_loop] in Hl; [destruct (ltb RA _ _); discriminate|].
      destruct (ltb RA (add RA fi (br b)) (fmax RA c)); [|discriminate].
      destruct (ltf_step RA sqrt_oracle c (add RA fi (br b))) as [b2'|] eqn:Hs2; [|discriminate].
      destruct (ltf_loop RA sqrt_oracle fuel c _); try discriminate. inversion Hl; subst.
      apply (ltf_step_monotone c Ha Hlf fi (add RA fi (br b)) b b2 Hfi); [cbn [add RA]; lra|exact Hs|exact Hs2].
    + destruct fuel; cbn [ltf_loop] in Hl; [destruct (ltb RA _ _); discriminate|].
      destruct (ltb RA (add RA fi (br b)) (fmax RA c)); [|discriminate].
      destruct (ltf_step RA sqrt_oracle c (add RA fi (br b))) as [b2'|] eqn:Hs2; [|discriminate].
      destruct (ltf_loop RA sqrt_oracle fuel c _); try discriminate. inversion Hl; subst.
      apply (ltf_step_monotone c Ha Hlf fi (add RA fi (br b)) b b2 Hfi); [cbn [add RA]; lra|exact Hs|exact Hs2].
Qed.
