From Coq Require Import ZArith QArith List Bool Reals Qreals Lra Lia.
From SK Require Import Arith Lagrange PolyQ.
Import ListNotations.

Definition nodeZ (h : Z) (m : nat) : Z := Z.of_nat m - (h - 1).
Definition nodesR (h : Z) : list R := map (fun m => IZR (nodeZ h m)) (seq 0 (Z.to_nat (2 * h))).

(* ---------------- computed side ---------------- *)
Definition cfacQ (h i : Z) : Q := ((inject_Z (-1) * (inject_Z 1 - inject_Z i / inject_Z h)) / (inject_Z 1 + inject_Z i / inject_Z h))%Q.
Definition DkZ (h : Z) (k : nat) : Z :=
  fold_left (fun acc m => if Nat.eqb m k then acc else acc * (nodeZ h k - nodeZ h m))%Z (seq 0 (Z.to_nat (2 * h))) 1%Z.
Definition Npoly (h : Z) : zpoly := fold_left (fun p m => zmul [(- nodeZ h m)%Z; 1%Z] p) (seq 0 (Z.to_nat (2 * h))) [1%Z].
Definition Mz (h : Z) : Z := (fold_left (fun t i => t * (Z.of_nat i * Z.of_nat i)) (seq 2 (Z.to_nat h - 2)) 1 * h)%Z.
Definition PZpoly (h : Z) : zpoly :=
  zmul [1%Z; 1%Z] (zmul [h; (-1)%Z]
    (fold_left (fun p i => zmul [(Z.of_nat i * Z.of_nat i)%Z; 0%Z; (-1)%Z] p) (seq 2 (Z.to_nat h - 2)) [1%Z])).
Definition kappaZ (h : Z) : Z := DkZ h (Z.to_nat (h - 1)).
(* per tap: N'(node) <> 0, and the recurrences that tie the running factor C_j to N' on both sides of the centre *)
Definition chk_k (h : Z) (k : nat) : bool :=
  let kz := Z.of_nat k in
  negb (DkZ h k =? 0)%Z &&
  (if (kz =? h - 1)%Z then true
   else if (kz =? h)%Z then (DkZ h k =? - kappaZ h)%Z
   else if (kz <? h - 1)%Z then Qeq_bool (inject_Z (DkZ h (S k))) (cfacQ h (h - 1 - kz) * inject_Z (DkZ h k))
   else Qeq_bool (inject_Z (DkZ h (pred k))) (cfacQ h (kz - h) * inject_Z (DkZ h k))).
Definition chk (h : Z) : bool :=
  negb (Mz h =? 0)%Z &&
  zeqb (zscale (Mz h) (Npoly h)) (zscale (kappaZ h) (zmul [0%Z; 1%Z; (-1)%Z] (PZpoly h))) && forallb (chk_k h) (seq 0 (Z.to_nat (2 * h))).


(* ---------------- lifting to every real fraction ---------------- *)
Open Scope R_scope.

Lemma fold_mul_acc {X} (g : X -> R) (l : list X) : forall t, fold_left (fun t i => t * g i) l t = t * fold_left (fun t i => t * g i) l 1.
Proof.
  induction l as [|x l IH]; intros t; cbn [fold_left]; [ring|]. rewrite IH, (IH (1 * g x)). ring.
Qed.
Lemma fold_left_ext_in2 {S X} (f g : S -> X -> S) (l : list X) : forall a,
  (forall st x, In x l -> f st x = g st x) -> fold_left f l a = fold_left g l a.
Proof.
  induction l as [|x l IH]; intros a H; cbn [fold_left]; [reflexivity|].
  rewrite H by (left; reflexivity). apply IH. intros st y Hy. apply H. right. exact Hy.
Qed.

Definition Preal (h : Z) (d : R) : R :=
  fold_left (fun t i => t * (1 - (d / IZR (Z.of_nat i)) * (d / IZR (Z.of_nat i)))) (seq 2 (Z.to_nat h - 2)) 1 * ((1 + d) * (1 - d / IZR h)).
Lemma post_Preal h d t : post RA h d t = t * Preal h d.
Proof.
  unfold post, Preal. cbn [mul sub add div ofZ RA]. simpl T in *.
  rewrite fold_mul_acc. ring.
Qed.

Lemma IZR_nz z : (z <> 0)%Z -> IZR z <> 0.
Proof. intros H. apply not_0_IZR. exact H. Qed.

(* the integer polynomial PZ evaluates to M * P *)
Lemma PZpoly_eval h d : (2 <= h)%Z -> zevalR (PZpoly h) d = IZR (Mz h) * Preal h d.
Proof.
  intros Hh. unfold PZpoly, Mz, Preal. rewrite !zevalR_zmul.
  rewrite (zevalR_fold_zmul _ (fun i => IZR (Z.of_nat i * Z.of_nat i) - d * d) d (seq 2 (Z.to_nat h - 2)) ) with (t := 1).
  2:{ intros i _. cbn [zevalR]. ring. }
  2:{ cbn [zevalR]. ring. }
  rewrite mult_IZR. cbn [zevalR].
  assert (E : forall l, (forall i, In i l -> (2 <= i)%nat) -> forall (a : R) (b : Z) (c : R), a = IZR b * c ->
     fold_left (fun t i => t * (IZR (Z.of_nat i * Z.of_nat i) - d * d)) l a
     = IZR (fold_left (fun t i => (t * (Z.of_nat i * Z.of_nat i))%Z) l b) *
       fold_left (fun t i => t * (1 - d / IZR (Z.of_nat i) * (d / IZR (Z.of_nat i)))) l c).
  { induction l as [|i l IH]; intros Hl a b c Ha; cbn [fold_left]; [exact Ha|].
    apply IH; [intros k Hk; apply Hl; right; exact Hk|]. rewrite Ha, !mult_IZR.
    assert (Hi : IZR (Z.of_nat i) <> 0) by (apply IZR_nz; specialize (Hl i (or_introl eq_refl)); lia).
    field. exact Hi. }
  rewrite (E (seq 2 (Z.to_nat h - 2)) (fun i Hi => proj1 (proj1 (in_seq _ _ _) Hi)) 1 1%Z 1) by ring.
  assert (Hh0 : IZR h <> 0) by (apply IZR_nz; lia). field. exact Hh0.
Qed.

Definition Nreal (h : Z) (d : R) : R := fold_left (fun t m => t * (d - IZR (nodeZ h m))) (seq 0 (Z.to_nat (2 * h))) 1.
Lemma Npoly_eval h d : zevalR (Npoly h) d = Nreal h d.
Proof.
  unfold Npoly, Nreal. apply zevalR_fold_zmul.
  - intros m _. cbn [zevalR]. rewrite opp_IZR. ring.
  - cbn [zevalR]. ring.
Qed.

Definition skipprod (a : nat -> R) (k : nat) (l : list nat) (t : R) : R :=
  fold_left (fun t m => t * (if Nat.eqb m k then 1 else a m)) l t.
Lemma IZR_fold (fz : Z -> nat -> Z) (fr : R -> nat -> R) (l : list nat) :
  (forall z m, IZR (fz z m) = fr (IZR z) m) -> forall z, IZR (fold_left fz l z) = fold_left fr l (IZR z).
Proof. intros H. induction l as [|m l IH]; intros z; cbn [fold_left]; [reflexivity|]. rewrite IH, H. reflexivity. Qed.
Lemma DkZ_real h k : IZR (DkZ h k) = skipprod (fun m => IZR (nodeZ h k) - IZR (nodeZ h m)) k (seq 0 (Z.to_nat (2 * h))) 1.
Proof.
  unfold DkZ, skipprod. apply (IZR_fold _ (fun t m => t * (if Nat.eqb m k then 1 else IZR (nodeZ h k) - IZR (nodeZ h m)))).
  intros z m. destruct (Nat.eqb m k); [ring|]. rewrite mult_IZR, minus_IZR. reflexivity.
Qed.

Lemma skipprod_cons a k m l t : skipprod a k (m :: l) t = skipprod a k l (t * (if Nat.eqb m k then 1 else a m)).
Proof. reflexivity. Qed.
(* product with one index skipped, times the skipped factor, is the full product *)
Lemma skipprod_notin a k l : ~ In k l -> forall t, skipprod a k l t = fold_left (fun t m => t * a m) l t.
Proof.
  unfold skipprod. induction l as [|m l IH]; intros Hk t; cbn [fold_left]; [reflexivity|].
  destruct (Nat.eqb_spec m k) as [->|Hne]; [exfalso; apply Hk; left; reflexivity|].
  apply IH. intros H. apply Hk. right. exact H.
Qed.
Lemma skipprod_full a k l : NoDup l -> In k l -> forall t, skipprod a k l t * a k = fold_left (fun t m => t * a m) l t.
Proof.
  induction l as [|m l IH]; intros Hnd Hin t; [destruct Hin|].
  inversion Hnd as [|? ? Hnotin Hnd']; subst. rewrite skipprod_cons. cbn [fold_left].
  destruct (Nat.eqb_spec m k) as [->|Hne].
  - rewrite skipprod_notin by exact Hnotin. rewrite (fold_mul_acc _ l (t * 1)), (fold_mul_acc _ l (t * a k)). ring.
  - destruct Hin as [->|Hin]; [congruence|]. apply IH; assumption.
Qed.

(* quotient of skip-products *)
Lemma skipprod_quot a b k l : (forall m, In m l -> m <> k -> b m <> 0) -> forall t1 t2,
  skipprod (fun m => a m / b m) k l t1 * skipprod b k l t2 = skipprod a k l (t1 * t2).
Proof.
  unfold skipprod. induction l as [|m l IH]; intros Hb t1 t2; cbn [fold_left]; [reflexivity|].
  rewrite IH by (intros m' Hm'; apply Hb; right; exact Hm'). f_equal.
  destruct (Nat.eqb_spec m k) as [->|Hne]; [ring|]. field. apply Hb; [left; reflexivity|exact Hne].
Qed.

Lemma nth_nodesR h m : (m < Z.to_nat (2 * h))%nat -> nth m (nodesR h) 0 = IZR (nodeZ h m).
Proof.
  intros Hm. unfold nodesR. rewrite nth_indep with (d' := IZR (nodeZ h 0)) by (rewrite map_length, seq_length; exact Hm).
  rewrite (map_nth (fun m => IZR (nodeZ h m))), seq_nth by exact Hm. reflexivity.
Qed.

Lemma lagrange_weight_skip h k x : (k < Z.to_nat (2 * h))%nat ->
  lagrange_weight (nodesR h) k x =
  skipprod (fun m => (x - IZR (nodeZ h m)) / (IZR (nodeZ h k) - IZR (nodeZ h m))) k (seq 0 (Z.to_nat (2 * h))) 1.
Proof.
  intros Hk. unfold lagrange_weight, skipprod. replace (length (nodesR h)) with (Z.to_nat (2 * h)) by (unfold nodesR; rewrite map_length, seq_length; reflexivity).
  apply fold_left_ext_in2. intros st m Hm. apply in_seq in Hm.
  destruct (Nat.eqb m k); [ring|]. rewrite !nth_nodesR by lia. reflexivity.
Qed.

(* textbook weight * N'(node k) * (x - node k) = N(x) *)
Lemma lagrange_weight_N h k x : (k < Z.to_nat (2 * h))%nat ->
  lagrange_weight (nodesR h) k x * IZR (DkZ h k) * (x - IZR (nodeZ h k)) = Nreal h x.
Proof.
  intros Hk. rewrite lagrange_weight_skip by exact Hk. rewrite DkZ_real.
  rewrite (skipprod_quot (fun m => x - IZR (nodeZ h m)) (fun m => IZR (nodeZ h k) - IZR (nodeZ h m))).
  - rewrite Rmult_1_l. apply (skipprod_full (fun m => x - IZR (nodeZ h m))); [apply seq_NoDup|apply in_seq; lia].
  - intros m _ Hne. rewrite <- minus_IZR. apply IZR_nz. unfold nodeZ. lia.
Qed.
Lemma lagrange_weight_at_node h k : (k < Z.to_nat (2 * h))%nat -> lagrange_weight (nodesR h) k (IZR (nodeZ h k)) = 1.
Proof.
  intros Hk. rewrite lagrange_weight_skip by exact Hk. unfold skipprod.
  rewrite fold_left_ext_in2 with (g := fun t (m : nat) => t * 1).
  - generalize (seq 0 (Z.to_nat (2 * h))). intros l. induction l as [|m l IH]; cbn [fold_left]; [reflexivity|]. rewrite Rmult_1_r. exact IH.
  - intros st m Hm. f_equal. destruct (Nat.eqb_spec m k) as [|Hne]; [reflexivity|].
    field. rewrite <- minus_IZR. apply IZR_nz. unfold nodeZ. lia.
Qed.

(* ---------------- the running factor ---------------- *)
Definition Creal (h : Z) (j : nat) : R := fold_left (fun t i => t * cfac RA h (Z.of_nat i)) (seq 1 j) 1.
Lemma factor_Creal h d j : factor RA h d j = d * (1 - d) * Creal h j.
Proof.
  unfold factor, Creal. cbn [one mul sub RA]. simpl T in *. rewrite fold_mul_acc. ring.
Qed.
Lemma Creal_S h j : Creal h (S j) = Creal h j * cfac RA h (Z.of_nat (S j)).
Proof. unfold Creal. rewrite seq_S, fold_left_app. cbn [fold_left]. reflexivity. Qed.

Lemma Q2R_Z z : Q2R (inject_Z z) = IZR z.
Proof. unfold Q2R, inject_Z. cbn. lra. Qed.
Lemma cfacQ_real h i : (0 < h)%Z -> (0 <= i)%Z -> Q2R (cfacQ h i) = cfac RA h i.
Proof.
  intros Hh Hi. unfold cfacQ, cfac. cbn [mul sub add div ofZ RA].
  assert (Hh0 : ~ (inject_Z h == 0)%Q). { intros E. apply Qeq_eqR in E. rewrite Q2R_Z in E. unfold Q2R in E. cbn in E. apply (IZR_nz h); [lia|lra]. }
  assert (Hq : Q2R (inject_Z i / inject_Z h) = IZR i / IZR h) by (rewrite Q2R_div, !Q2R_Z by exact Hh0; reflexivity).
  assert (Hpos : 0 <= IZR i / IZR h). { apply Rmult_le_pos; [apply IZR_le; lia|]. left. apply Rinv_0_lt_compat. apply IZR_lt. lia. }
  assert (Hd0 : ~ (inject_Z 1 + inject_Z i / inject_Z h == 0)%Q).
  { intros E. apply Qeq_eqR in E. rewrite Q2R_plus, Hq, Q2R_Z in E. unfold Q2R in E. cbn in E. lra. }
  rewrite Q2R_div by exact Hd0. rewrite Q2R_mult, Q2R_minus, Q2R_plus, Hq, !Q2R_Z. reflexivity.
Qed.

Section FromCheck.
Variable h : Z.
Hypothesis Hh : (2 <= h)%Z.
Hypothesis Hchk : forall k, (k < Z.to_nat (2 * h))%nat -> chk_k h k = true.

Lemma Dk_nz k : (k < Z.to_nat (2 * h))%nat -> IZR (DkZ h k) <> 0.
Proof.
  intros Hk. specialize (Hchk k Hk). unfold chk_k in Hchk. apply andb_prop in Hchk. destruct Hchk as [H _].
  apply IZR_nz. apply negb_true_iff in H. apply Z.eqb_neq in H. exact H.
Qed.
Lemma rec_lower k : (Z.of_nat k < h - 1)%Z -> IZR (DkZ h (S k)) = cfac RA h (h - 1 - Z.of_nat k) * IZR (DkZ h k).
Proof.
  intros Hk. assert (Hk' : (k < Z.to_nat (2 * h))%nat) by lia. specialize (Hchk k Hk'). unfold chk_k in Hchk.
  apply andb_prop in Hchk. destruct Hchk as [_ H].
  destruct (Z.eqb_spec (Z.of_nat k) (h - 1)); [lia|]. destruct (Z.eqb_spec (Z.of_nat k) h); [lia|].
  destruct (Z.ltb_spec (Z.of_nat k) (h - 1)); [|lia].
  apply Qeq_bool_iff in H. apply Qeq_eqR in H. rewrite Q2R_mult, !Q2R_Z, cfacQ_real in H by lia. exact H.
Qed.
Lemma rec_upper k : (h < Z.of_nat k)%Z -> (k < Z.to_nat (2 * h))%nat -> IZR (DkZ h (pred k)) = cfac RA h (Z.of_nat k - h) * IZR (DkZ h k).
Proof.
  intros Hk Hk'. specialize (Hchk k Hk'). unfold chk_k in Hchk.
  apply andb_prop in Hchk. destruct Hchk as [_ H].
  destruct (Z.eqb_spec (Z.of_nat k) (h - 1)); [lia|]. destruct (Z.eqb_spec (Z.of_nat k) h); [lia|].
  destruct (Z.ltb_spec (Z.of_nat k) (h - 1)); [lia|].
  apply Qeq_bool_iff in H. apply Qeq_eqR in H. rewrite Q2R_mult, !Q2R_Z, cfacQ_real in H by lia. exact H.
Qed.
Lemma D_centre_upper : IZR (DkZ h (Z.to_nat h)) = - IZR (kappaZ h).
Proof.
  assert (Hk' : (Z.to_nat h < Z.to_nat (2 * h))%nat) by lia. specialize (Hchk _ Hk'). unfold chk_k in Hchk.
  apply andb_prop in Hchk. destruct Hchk as [_ H]. rewrite Z2Nat.id in H by lia.
  destruct (Z.eqb_spec h (h - 1)); [lia|]. rewrite Z.eqb_refl in H. apply Z.eqb_eq in H. rewrite H, opp_IZR. reflexivity.
Qed.

Lemma C_lower j : (Z.of_nat j <= h - 1)%Z -> Creal h j * IZR (DkZ h (Z.to_nat (h - 1) - j)) = IZR (kappaZ h).
Proof.
  induction j as [|j IH]; intros Hj.
  - unfold Creal. cbn [seq fold_left]. rewrite Nat.sub_0_r. unfold kappaZ. ring.
  - rewrite Creal_S. rewrite <- IH by lia.
    replace (Z.to_nat (h - 1) - j)%nat with (S (Z.to_nat (h - 1) - S j)) by lia.
    rewrite rec_lower by lia. replace (h - 1 - Z.of_nat (Z.to_nat (h - 1) - S j))%Z with (Z.of_nat (S j)) by lia. ring.
Qed.
Lemma C_upper j : (Z.of_nat j <= h - 1)%Z -> Creal h j * IZR (DkZ h (Z.to_nat h + j)) = - IZR (kappaZ h).
Proof.
  induction j as [|j IH]; intros Hj.
  - unfold Creal. cbn [seq fold_left]. rewrite Nat.add_0_r, D_centre_upper. ring.
  - rewrite Creal_S. rewrite <- IH by lia.
    replace (Z.to_nat h + j)%nat with (pred (Z.to_nat h + S j)) by lia.
    rewrite rec_upper by lia. replace (Z.of_nat (Z.to_nat h + S j) - h)%Z with (Z.of_nat (S j)) by lia. ring.
Qed.

Hypothesis HM : Mz h <> 0%Z.
Hypothesis Hpoly : zeqb (zscale (Mz h) (Npoly h)) (zscale (kappaZ h) (zmul [0%Z; 1%Z; (-1)%Z] (PZpoly h))) = true.
Lemma N_closed x : Nreal h x = IZR (kappaZ h) * (x * (1 - x)) * Preal h x.
Proof.
  pose proof (zeqb_evalR _ _ Hpoly x) as E. rewrite !zevalR_zscale, zevalR_zmul, Npoly_eval, PZpoly_eval in E by exact Hh.
  cbn [zevalR] in E. apply Rmult_eq_reg_l with (r := IZR (Mz h)); [|apply IZR_nz; exact HM]. rewrite E. ring.
Qed.

Theorem tap_textbook_of_chk k d : (k < Z.to_nat (2 * h))%nat -> 0 <= d < 1 ->
  tap RA h d (Z.of_nat k) = lagrange_weight (nodesR h) k d.
Proof.
  intros Hk Hd. pose proof (lagrange_weight_N h k d Hk) as HL. rewrite N_closed in HL.
  pose proof (Dk_nz k Hk) as HD. set (W := lagrange_weight (nodesR h) k d) in *.
  assert (Hkap : IZR (kappaZ h) <> 0) by (apply (Dk_nz (Z.to_nat (h - 1))); lia).
  unfold tap. destruct (Z.eqb_spec h 1); [lia|].
  destruct (Z.eqb_spec (Z.of_nat k) (h - 1)) as [E1|N1].
  - (* centre-left tap, node 0 *)
    rewrite post_Preal. cbn [sub ofZ RA]. simpl T in *.
    assert (Ek : k = Z.to_nat (h - 1)) by lia.
    assert (En : IZR (nodeZ h k) = 0) by (unfold nodeZ; rewrite E1; f_equal; lia). rewrite En in HL.
    destruct (Req_dec d 0) as [D0|D0].
    + subst d. unfold W. replace (lagrange_weight (nodesR h) k 0) with (lagrange_weight (nodesR h) k (IZR (nodeZ h k))) by (rewrite En; reflexivity).
      rewrite lagrange_weight_at_node by exact Hk.
      pose proof (taps_at_zero h (Z.of_nat k)) as T0. unfold tap in T0. destruct (Z.eqb_spec h 1); [lia|].
      destruct (Z.eqb_spec (Z.of_nat k) (h - 1)); [|lia]. rewrite post_Preal in T0. cbn [sub ofZ RA] in T0. simpl T in *. apply T0; lia.
    + subst k. fold (kappaZ h) in HL. apply Rmult_eq_reg_r with (r := IZR (kappaZ h) * (d - 0)); [|apply Rmult_integral_contrapositive; split; [exact Hkap|lra]].
      replace (W * (IZR (kappaZ h) * (d - 0))) with (W * IZR (kappaZ h) * (d - 0)) by ring. rewrite HL. ring.
  - destruct (Z.eqb_spec (Z.of_nat k) h) as [E2|N2].
    + (* centre-right tap, node 1 *)
      rewrite post_Preal. assert (Ek : k = Z.to_nat h) by lia.
      assert (En : IZR (nodeZ h k) = 1) by (unfold nodeZ; rewrite E2; f_equal; lia). rewrite En in HL.
      subst k. rewrite D_centre_upper in HL.
      apply Rmult_eq_reg_r with (r := - IZR (kappaZ h) * (d - 1)); [|apply Rmult_integral_contrapositive; split; [lra|lra]].
      replace (W * (- IZR (kappaZ h) * (d - 1))) with (W * - IZR (kappaZ h) * (d - 1)) by ring. rewrite HL. ring.
    + destruct (Z.ltb_spec (Z.of_nat k) (h - 1)) as [Lt|Ge].
      * (* lower outer tap, node -j *)
        rewrite post_Preal, factor_Creal. cbn [div add ofZ RA]. simpl T in *.
        set (j := Z.to_nat (h - 1 - Z.of_nat k)).
        assert (En : IZR (nodeZ h k) = - IZR (h - 1 - Z.of_nat k)) by (unfold nodeZ; rewrite <- opp_IZR; f_equal; lia). rewrite En in HL.
        pose proof (C_lower j ltac:(lia)) as HC. replace (Z.to_nat (h - 1) - j)%nat with k in HC by lia.
        assert (Hpos : 0 < IZR (h - 1 - Z.of_nat k)) by (apply IZR_lt; lia).
        apply Rmult_eq_reg_r with (r := IZR (DkZ h k) * (d - - IZR (h - 1 - Z.of_nat k))); [|apply Rmult_integral_contrapositive; split; [exact HD|lra]].
        replace (W * (IZR (DkZ h k) * (d - - IZR (h - 1 - Z.of_nat k)))) with (W * IZR (DkZ h k) * (d - - IZR (h - 1 - Z.of_nat k))) by ring.
        rewrite HL. rewrite <- HC. field. lra.
      * (* upper outer tap, node j+1 *)
        rewrite post_Preal, factor_Creal. cbn [div sub ofZ RA]. simpl T in *.
        set (j := Z.to_nat (Z.of_nat k - h)).
        assert (En : IZR (nodeZ h k) = IZR (Z.of_nat k - h + 1)) by (unfold nodeZ; f_equal; lia). rewrite En in HL.
        pose proof (C_upper j ltac:(lia)) as HC. replace (Z.to_nat h + j)%nat with k in HC by lia.
        assert (Hpos : 1 < IZR (Z.of_nat k - h + 1)) by (apply IZR_lt; lia).
        apply Rmult_eq_reg_r with (r := IZR (DkZ h k) * (d - IZR (Z.of_nat k - h + 1))); [|apply Rmult_integral_contrapositive; split; [exact HD|lra]].
        replace (W * (IZR (DkZ h k) * (d - IZR (Z.of_nat k - h + 1)))) with (W * IZR (DkZ h k) * (d - IZR (Z.of_nat k - h + 1))) by ring.
        rewrite HL.
        assert (HK : IZR (kappaZ h) = - (Creal h j * IZR (DkZ h k))) by lra. rewrite HK. field. lra.
Qed.
End FromCheck.
