(* SchedMonoVec.v — C04 for the vectorised planner: along vectorized_ltf_plan the segment length never increases and the number
   of averages never decreases with frequency (at the reals, np.sqrt = real square root), for ANY sorted positive lookup grid. *)
From Coq Require Import ZArith List Bool Reals Lra Lia Psatz.
From Flocq Require Import Raux.
From SK Require Import Arith Sched SchedThms SchedMono.
Import ListNotations.
Open Scope R_scope.

Lemma r_rint_mono x y : x <= y -> (r_rint x <= r_rint y)%Z.
Proof.
  intros H. unfold r_rint.
  assert (Hf : (Zfloor (x + /2) <= Zfloor (y + /2))%Z) by (apply Zfloor_le; lra).
  pose proof (Zfloor_lb (x + /2)) as Lx. pose proof (Zfloor_ub (x + /2)) as Ux.
  pose proof (Zfloor_lb (y + /2)) as Ly. pose proof (Zfloor_ub (y + /2)) as Uy.
  destruct (r_eqb (y + /2) (IZR (Zfloor (y + /2))) && Z.odd (Zfloor (y + /2))) eqn:Ey;
  destruct (r_eqb (x + /2) (IZR (Zfloor (x + /2))) && Z.odd (Zfloor (x + /2))) eqn:Ex; try lia.
  (* y is a tie rounded down, x is not rounded down: then floor(x+1/2) < floor(y+1/2) *)
  apply andb_prop in Ey. destruct Ey as [Ey1 Ey2]. unfold r_eqb in Ey1. destruct (Req_EM_T (y + /2) (IZR (Zfloor (y + /2)))) as [Ey'|]; [|discriminate].
  destruct (Z.eq_dec (Zfloor (x + /2)) (Zfloor (y + /2))) as [E|E]; [|lia].
  exfalso. rewrite E in *. assert (Ex' : x + /2 = IZR (Zfloor (y + /2))) by lra.
  rewrite Ey2 in Ex. unfold r_eqb in Ex. destruct (Req_EM_T (x + /2) (IZR (Zfloor (y + /2)))); [discriminate|contradiction].
Qed.

Section MonoVec.
Variable c : cfg RA.
Hypothesis Ha : admissible c.
Hypothesis Hlf : 0 < clogfact c.

Lemma vec_res_is_res' g : vec_res RA sqrt c g = res' c g.
Proof.
  unfold vec_res, res', res. cbn [leb ltb mul div RA]. unfold r_leb, r_ltb.
  destruct (Rle_dec (freslim RA c) (g * clogfact c)).
  - destruct (Rlt_dec (g / (g * clogfact c)) (cbmin c)); reflexivity.
  - destruct (Rlt_dec (fresmin RA c) (sqrt (freslim RA c * (g * clogfact c)))); destruct (Rlt_dec _ (cbmin c)); reflexivity.
Qed.

Lemma nseg_raw_mono_rint l1 l2 : (1 <= l2 <= l1)%Z -> (l1 <= cN c)%Z ->
  (nseg_raw RA r_rint c l1 <= nseg_raw RA r_rint c l2)%Z.
Proof.
  intros Hl HN. unfold nseg_raw. cbn [add div mul sub ofZ one RA xov]. apply r_rint_mono.
  destruct Ha as [_ _ Ho _ _ _].
  assert (P1 : 0 < IZR l1) by (apply IZR_lt; lia). assert (P2 : 0 < IZR l2) by (apply IZR_lt; lia).
  assert (IZR l2 <= IZR l1) by (apply IZR_le; lia). assert (IZR l1 <= IZR (cN c)) by (apply IZR_le; lia).
  rewrite !minus_IZR. assert (0 < (1 - colap c)) by lra.
  apply Rplus_le_compat_r. unfold Rdiv.
  replace ((IZR (cN c) - IZR l1) * / ((1 - colap c) * IZR l1)) with ((IZR (cN c) * / IZR l1 - 1) * / (1 - colap c)) by (field; lra).
  replace ((IZR (cN c) - IZR l2) * / ((1 - colap c) * IZR l2)) with ((IZR (cN c) * / IZR l2 - 1) * / (1 - colap c)) by (field; lra).
  apply Rmult_le_compat_r; [left; apply Rinv_0_lt_compat; lra|].
  assert (/ IZR l1 <= / IZR l2) by (apply Rinv_le_contravar; lra).
  assert (0 <= IZR (cN c)) by lra.
  assert (IZR (cN c) * / IZR l1 <= IZR (cN c) * / IZR l2) by (apply Rmult_le_compat_l; assumption). lra.
Qed.

Definition vlen0 (g : R) : Z := Z.min (Z.max (r_rint (cfs c / res' c g)) (cLmin c)) (cN c).
Lemma vlen0_mono g1 g2 : 0 < g1 -> g1 <= g2 -> (vlen0 g2 <= vlen0 g1)%Z.
Proof.
  intros H1 H12. unfold vlen0.
  assert (Hr : (r_rint (cfs c / res' c g2) <= r_rint (cfs c / res' c g1))%Z).
  { apply r_rint_mono. pose proof (res'_pos c Ha g1 H1). pose proof (res'_mono c Ha Hlf g1 g2 H1 H12). destruct Ha as [_ Hfs _ _ _ _].
    unfold Rdiv. apply Rmult_le_compat_l; [lra|]. apply Rinv_le_contravar; lra. }
  lia.
Qed.

Theorem vec_point_monotone g1 g2 r1 l1 k1 r2 l2 k2 : 0 < g1 -> g1 <= g2 ->
  vec_point RA sqrt c g1 = (r1, l1, k1) -> vec_point RA sqrt c g2 = (r2, l2, k2) ->
  (l2 <= l1)%Z /\ (k1 <= k2)%Z.
Proof.
  intros H1 H12. unfold vec_point. rewrite !vec_res_is_res'. cbn [rintZ div RA]. fold (vlen0 g1). fold (vlen0 g2).
  intros B1 B2. inversion B1; subst; clear B1. inversion B2; subst; clear B2.
  pose proof (vlen0_mono g1 g2 H1 H12) as Hl. pose proof (adm_Lmin c Ha) as HLm.
  assert (R1 : (cLmin c <= vlen0 g1 <= cN c)%Z) by (unfold vlen0; lia).
  assert (R2 : (cLmin c <= vlen0 g2 <= cN c)%Z) by (unfold vlen0; lia).
  pose proof (nseg_raw_mono_rint (vlen0 g1) (vlen0 g2) ltac:(lia) ltac:(lia)) as Hn.
  assert (G1 : (1 <= nseg_raw RA r_rint c (vlen0 g1))%Z) by (apply nseg_ge_1; [apply rint_ge_1|exact Ha|lia]).
  assert (G2 : (1 <= nseg_raw RA r_rint c (vlen0 g2))%Z) by (apply nseg_ge_1; [apply rint_ge_1|exact Ha|lia]).
  destruct (Z.eqb_spec (nseg_raw RA r_rint c (vlen0 g1)) 1) as [K1|K1], (Z.eqb_spec (nseg_raw RA r_rint c (vlen0 g2)) 1) as [K2|K2].
  - split; lia.
  - (* g1 single segment (L = N), g2 not *)
    split; [lia|]. unfold capK. rewrite (nseg_raw_N r_rint c) by (try apply (r_rint_IZR 1); exact Ha).
    assert (1 <= nseg_raw RA r_rint c (vlen0 g2))%Z by lia.
    assert (vlen0 g2 < cN c \/ vlen0 g2 = cN c)%Z as [Hlt|Heq] by lia; [lia|].
    rewrite Heq in K2. rewrite (nseg_raw_N r_rint c) in K2 by (try apply (r_rint_IZR 1); exact Ha). lia.
  - (* impossible: K(g1) > 1 = K(g2) contradicts monotone K *) lia.
  - split; [exact Hl|]. unfold capK. lia.
Qed.
End MonoVec.

(* ---- along the whole vectorised walk ---- *)
Definition sorted_grid (grid : list R) : Prop :=
  forall i j gi gj, (i <= j)%nat -> nth_error grid i = Some gi -> nth_error grid j = Some gj -> gi <= gj.
Lemma ss_mono (grid : list R) x y : x <= y -> (searchsorted_left RA grid x <= searchsorted_left RA grid y)%nat.
Proof.
  intros H. induction grid as [|g gs IH]; cbn [searchsorted_left]; [lia|]. cbn [ltb RA]. unfold r_ltb.
  destruct (Rlt_dec g x), (Rlt_dec g y); try lia. lra.
Qed.
Lemma vec_point_r_pos c g r l k : admissible c -> vec_point RA sqrt c g = (r, l, k) -> 0 < r.
Proof.
  intros Ha Hp. pose proof (vec_point_int_ok sqrt c g r l k Ha Hp) as Hok. unfold vec_point in Hp. inversion Hp; subst. cbn [div ofZ RA].
  destruct Ha as [_ Hfs _ _ _ _]. apply Rdiv_lt_0_compat; [exact Hfs|]. apply IZR_lt. destruct Hok. lia.
Qed.

Theorem vec_plan_monotone fuel (c : cfg RA) (grid : list R) : admissible c -> 0 < clogfact c ->
  sorted_grid grid -> Forall (fun g => 0 < g) grid ->
  forall f bs, vec_walk RA sqrt fuel c grid f = Ok bs -> plan_monotone bs.
Proof.
  intros Ha Hlf Hs Hpos. induction fuel as [|fuel IH]; intros f bs; cbn [vec_walk].
  - destruct (ltb RA f (fmax RA c)); [discriminate|]. intros H; inversion H; exact I.
  - destruct (ltb RA f (fmax RA c)); [|intros H; inversion H; exact I].
    destruct (@nth_error (T RA) grid (searchsorted_left RA grid f)) as [g|] eqn:Hg; [|intros H; inversion H; exact I].
    destruct (vec_point RA sqrt c g) as [[r l] k] eqn:Hp.
    destruct (vec_walk RA sqrt fuel c grid (add RA f r)) as [bs'| | |] eqn:Hw; try discriminate.
    intros H; inversion H; subst; clear H.
    pose proof (IH _ _ Hw) as Hm.
    destruct bs' as [|b2 bs'']; [exact I|]. cbn [plan_monotone].
    assert (Hstep : (bL b2 <= l)%Z /\ (k <= bK b2)%Z).
    { destruct fuel; cbn [vec_walk] in Hw; [destruct (ltb RA _ _); discriminate|].
      destruct (ltb RA (add RA f r) (fmax RA c)); [|discriminate].
      destruct (@nth_error (T RA) grid (searchsorted_left RA grid (add RA f r))) as [g2|] eqn:Hg2; [|discriminate].
      destruct (vec_point RA sqrt c g2) as [[r2 l2] k2] eqn:Hp2.
      destruct (vec_walk RA sqrt fuel c grid _); try discriminate. inversion Hw; subst. cbn [bL bK].
      pose proof (vec_point_r_pos c g r l k Ha Hp) as Hr.
      assert (Hidx : (searchsorted_left RA grid f <= searchsorted_left RA grid (add RA f r))%nat) by (apply ss_mono; cbn [add RA]; lra).
      pose proof (Hs _ _ _ _ Hidx Hg Hg2) as Hgg.
      assert (Hg0 : 0 < g) by (rewrite Forall_forall in Hpos; apply Hpos; eapply nth_error_In; exact Hg).
      exact (vec_point_monotone c Ha Hlf g g2 r l k r2 l2 k2 Hg0 Hgg Hp Hp2). }
    cbn [bL bK]. destruct Hstep as [HL HK]. split; [exact HL|split; [exact HK|exact Hm]].
Qed.
