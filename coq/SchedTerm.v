(* SchedTerm.v — C02: building a plan never fails: with the x**0.5 oracle total, the iterative loop ends within
   ceil(N/2) steps (each step advances the frequency by fs/L >= fs/N), so fuel N is always enough. *)
From Coq Require Import ZArith List Bool Reals Lra Lia Psatz.
From SK Require Import Arith Sched SchedThms NewLtf.
Import ListNotations.
Open Scope R_scope.

Lemma step_advance ph (c : cfg RA) fi b : admissible c -> ltf_step RA ph c fi = Some b -> cfs c / IZR (cN c) <= br b.
Proof.
  intros Ha Hs. pose proof (ltf_step_int_ok ph c fi b Ha Hs) as (HL & _ & _).
  apply ltf_step_struct in Hs. destruct Hs as (_ & Hr & _). rewrite Hr. cbn [div ofZ RA].
  pose proof (adm_fs c Ha). pose proof (adm_Lmin c Ha).
  assert (0 < IZR (bL b)) by (apply IZR_lt; lia). assert (IZR (bL b) <= IZR (cN c)) by (apply IZR_le; lia).
  unfold Rdiv. apply Rmult_le_compat_l; [lra|]. apply Rinv_le_contravar; lra.
Qed.

Theorem ltf_loop_terminates ph (c : cfg RA) : admissible c -> (forall x, ph x <> None) ->
  forall fuel fi, fmax RA c - fi < INR fuel * (cfs c / IZR (cN c)) ->
  exists bs, ltf_loop RA ph fuel c fi = Ok bs.
Proof.
  intros Ha Hph. pose proof (adm_fs c Ha) as Hfs. pose proof (adm_N c Ha) as HN.
  assert (Hq : 0 < cfs c / IZR (cN c)) by (apply Rdiv_lt_0_compat; [exact Hfs|apply IZR_lt; lia]).
  induction fuel as [|fuel IH]; intros fi Hm; cbn [ltf_loop ltb RA].
  - destruct (r_ltb fi (fmax RA c)) eqn:E; [apply r_ltb_true in E; cbn [INR] in Hm; lra|eexists; reflexivity].
  - destruct (r_ltb fi (fmax RA c)) eqn:E; [|eexists; reflexivity].
    destruct (ltf_step RA ph c fi) as [b|] eqn:Hs.
    + pose proof (step_advance ph c fi b Ha Hs) as Hadv.
      destruct (IH (add RA fi (br b))) as [bs Hbs].
      { cbn [add RA]. rewrite S_INR in Hm. nra. }
      rewrite Hbs. eexists; reflexivity.
    + exfalso. unfold ltf_step in Hs. destruct (ltf_res RA ph c fi) eqn:Er; [discriminate|].
      unfold ltf_res in Er. destruct (leb RA _ _); [discriminate|]. destruct (ltb RA _ _); [|discriminate].
      destruct (ph _) eqn:Ep; [destruct (ltb RA _ _); discriminate|]. apply (Hph _ Ep).
Qed.

Theorem ltf_plan_never_fails ph (c : cfg RA) : admissible c -> (forall x, ph x <> None) ->
  exists bs, ltf_bins RA ph (Z.to_nat (cN c)) c = Ok bs.
Proof.
  intros Ha Hph. unfold ltf_bins. apply ltf_loop_terminates; [exact Ha|exact Hph|].
  pose proof (adm_fs c Ha) as Hfs. pose proof (adm_N c Ha) as HN. destruct (adm_bmin c Ha) as [Hb _].
  rewrite INR_IZR_INZ, Z2Nat.id by lia.
  assert (0 < IZR (cN c)) by (apply IZR_lt; lia).
  assert (0 < fmin RA c). { unfold fmin. cbn [div mul ofZ RA]. apply Rmult_lt_0_compat; [apply Rdiv_lt_0_compat; lra|lra]. }
  assert (E : IZR (cN c) * (cfs c / IZR (cN c)) = cfs c) by (simpl T in *; field; lra).
  rewrite E. unfold fmax, two. cbn [div ofZ RA]. simpl T in *. lra.
Qed.

(* ---- C04: where the desired averaging is attainable, at least Kdes averages are taken ----
   log-spaced regime (fres = f*logfact >= freslim), L = round(fs/fres) >= 1, and the record long enough that rounding L by
   half a sample cannot cost an average:  N*xov >= (1 + xov(Kdes-1)) (1 + xov(Kdes-3/2)).  Then round(1+(N-L)/(xov L)) >= Kdes. *)
Theorem Kdes_attained (c : cfg RA) (fres : R) : admissible c -> 0 < fres -> freslim RA c <= fres ->
  let L0 := r_rhu (cfs c / fres) in (1 <= L0)%Z ->
  let x := 1 - colap c in let a := 1 + x * IZR (cKdes c - 1) in
  a * (a - x / 2) <= IZR (cN c) * x ->
  (cKdes c <= nseg_raw RA (rhuZ RA) c L0)%Z.
Proof.
  intros Ha Hfres Hlim L0 HL0 x a Hatt.
  pose proof (adm_fs c Ha) as Hfs. pose proof (adm_N c Ha) as HN. destruct (adm_olap c Ha) as [Ho0 Ho1]. pose proof (adm_Kdes c Ha) as HK.
  assert (Hx : 0 < x <= 1) by (subst x; lra).
  assert (HKr : 0 <= IZR (cKdes c - 1)) by (apply IZR_le; lia).
  assert (Hap : 1 <= a) by (subst a; nra).
  assert (HNp : 0 < IZR (cN c)) by (apply IZR_lt; lia).
  (* fs/fres <= N/a *)
  assert (HM : cfs c / fres <= IZR (cN c) / a).
  { unfold freslim, fresmin in Hlim. cbn [mul add div one ofZ RA xov sub] in Hlim. fold x in Hlim. fold a in Hlim.
    apply Rmult_le_reg_r with (fres * a); [nra|].
    replace (cfs c / fres * (fres * a)) with (cfs c * a) by (field; lra).
    replace (IZR (cN c) / a * (fres * a)) with (IZR (cN c) * fres) by (field; lra).
    assert (cfs c / IZR (cN c) * a * IZR (cN c) <= fres * IZR (cN c)) by (apply Rmult_le_compat_r; lra).
    replace (cfs c / IZR (cN c) * a * IZR (cN c)) with (cfs c * a) in H by (field; lra). lra. }
  pose proof (r_rhu_bracket (cfs c / fres)) as [Hub _]. fold L0 in Hub.
  assert (HLr : IZR L0 <= IZR (cN c) / a + / 2) by lra.
  assert (HLp : 0 < IZR L0) by (apply IZR_lt; lia).
  unfold nseg_raw. cbn [rhuZ add div mul sub ofZ one RA xov]. fold x.
  (* y + 1/2 >= Kdes  =>  floor(y + 1/2) >= Kdes *)
  unfold r_rhu. apply Raux.Zfloor_lub.
  set (y := IZR (cN c - L0) / (x * IZR L0) + 1).
  assert (Hy : IZR (cKdes c) - / 2 <= y); [|lra].
  subst y. rewrite minus_IZR.
  assert (Hxl : 0 < x * IZR L0) by nra.
  apply Rmult_le_reg_r with (x * IZR L0); [exact Hxl|].
  replace (((IZR (cN c) - IZR L0) / (x * IZR L0) + 1) * (x * IZR L0)) with (IZR (cN c) - IZR L0 + x * IZR L0) by (field; lra).
  (* need: (Kdes - 1/2) x L0 <= N - L0 + x L0, i.e. L0 (1 + x (Kdes - 3/2)) <= N; with a - x/2 = 1 + x (Kdes - 3/2) *)
  assert (Ea : a - x / 2 = 1 + x * (IZR (cKdes c) - 3 / 2)) by (subst a; rewrite minus_IZR; lra).
  assert (Hpos : 0 <= a - x / 2) by lra.
  assert (IZR L0 * (a - x / 2) <= (IZR (cN c) / a + / 2) * (a - x / 2)) by (apply Rmult_le_compat_r; assumption).
  assert ((IZR (cN c) / a + / 2) * (a - x / 2) <= IZR (cN c)).
  { replace ((IZR (cN c) / a + / 2) * (a - x / 2)) with (IZR (cN c) - (IZR (cN c) * x - a * (a - x / 2)) / (2 * a)) by (field; lra).
    assert (0 <= (IZR (cN c) * x - a * (a - x / 2)) / (2 * a)); [|lra].
    apply Rmult_le_pos; [lra|]. left. apply Rinv_0_lt_compat. lra. }
  rewrite Ea in H, H0. nra.
Qed.
