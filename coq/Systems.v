(* Systems.v — C15: the residual expression of systems.py  S00 - Sum1 - Sum2 + Sum3  (with the code's index/conjugate pairing)
   is, per segment and for ANY coefficients H, the squared modulus |Y - sum_i conj(H_i) X_i|^2; hence it is >= 0,
   and at the solution of the code's linear system it is <= S00 (one input: = S00 - |S10|^2/T11). Complex = pairs of reals. *)
From Coq Require Import ZArith List Reals Lra Lia Psatz.
Import ListNotations.
Open Scope R_scope.

Definition C := (R * R)%type.
Definition cadd (a b : C) : C := (fst a + fst b, snd a + snd b).
Definition csub (a b : C) : C := (fst a - fst b, snd a - snd b).
Definition cmul (a b : C) : C := (fst a * fst b - snd a * snd b, fst a * snd b + snd a * fst b).
Definition cconj (a : C) : C := (fst a, - snd a).
Definition cabs2 (a : C) : R := fst a * fst a + snd a * snd a.
Definition ofR (x : R) : C := (x, 0).

(* per-segment spectra: S_i0 = X_i conj(Y), S_0i = conj(S_i0), T_ij = X_i conj(X_j), S00 = |Y|^2 *)
Definition S_i0 (X Y : C) : C := cmul X (cconj Y).
Definition T_ij (Xi Xj : C) : C := cmul Xi (cconj Xj).

(* one input: S00 - H S01 - conj(H) S10 + conj(H) H T11 *)
Definition resid1 (H X Y : C) : C :=
  cadd (csub (csub (ofR (cabs2 Y)) (cmul H (cconj (S_i0 X Y)))) (cmul (cconj H) (S_i0 X Y))) (cmul (cmul (cconj H) H) (T_ij X X)).
Theorem resid1_is_square H X Y : resid1 H X Y = ofR (cabs2 (csub Y (cmul (cconj H) X))).
Proof.
  destruct H as [h1 h2], X as [x1 x2], Y as [y1 y2].
  unfold resid1, S_i0, T_ij, cadd, csub, cmul, cconj, cabs2, ofR. cbn [fst snd]. f_equal; ring.
Qed.

(* two inputs, with the double sum  sum_i sum_j conj(H_j) H_i T_ji  exactly as coded *)
Definition resid2 (H1 H2 X1 X2 Y : C) : C :=
  let Sum1 := cadd (cmul H1 (cconj (S_i0 X1 Y))) (cmul H2 (cconj (S_i0 X2 Y))) in
  let Sum2 := cadd (cmul (cconj H1) (S_i0 X1 Y)) (cmul (cconj H2) (S_i0 X2 Y)) in
  let Sum3 := cadd (cadd (cmul (cmul (cconj H1) H1) (T_ij X1 X1)) (cmul (cmul (cconj H2) H1) (T_ij X2 X1)))
                   (cadd (cmul (cmul (cconj H1) H2) (T_ij X1 X2)) (cmul (cmul (cconj H2) H2) (T_ij X2 X2))) in
  cadd (csub (csub (ofR (cabs2 Y)) Sum1) Sum2) Sum3.
Theorem resid2_is_square H1 H2 X1 X2 Y :
  resid2 H1 H2 X1 X2 Y = ofR (cabs2 (csub (csub Y (cmul (cconj H1) X1)) (cmul (cconj H2) X2))).
Proof.
  destruct H1 as [a1 a2], H2 as [b1 b2], X1 as [x1 x2], X2 as [u1 u2], Y as [y1 y2].
  unfold resid2, S_i0, T_ij, cadd, csub, cmul, cconj, cabs2, ofR. cbn [fst snd]. f_equal; ring.
Qed.
Theorem resid_nonneg_1 H X Y : 0 <= fst (resid1 H X Y) /\ snd (resid1 H X Y) = 0.
Proof. rewrite resid1_is_square. unfold ofR, cabs2. cbn [fst snd]. split; [nra|reflexivity]. Qed.
Theorem resid_nonneg_2 H1 H2 X1 X2 Y : 0 <= fst (resid2 H1 H2 X1 X2 Y) /\ snd (resid2 H1 H2 X1 X2 Y) = 0.
Proof. rewrite resid2_is_square. unfold ofR, cabs2. cbn [fst snd]. split; [nra|reflexivity]. Qed.

(* averaged statistics, one input: with real T11 > 0, S00 and complex S10, the expression at the solution H = S10/T11
   of the code's system (T11 H = S10) equals S00 - |S10|^2/T11 = S00 (1 - coherence): between 0 and S00 when |S10|^2 <= T11 S00 *)
Definition resid1_avg (H S10 : C) (S00 T11 : R) : C :=
  cadd (csub (csub (ofR S00) (cmul H (cconj S10))) (cmul (cconj H) S10)) (cmul (cmul (cconj H) H) (ofR T11)).
Theorem siso_residual_at_solution (S10 : C) (S00 T11 : R) : 0 < T11 ->
  resid1_avg (fst S10 / T11, snd S10 / T11) S10 S00 T11 = ofR (S00 - cabs2 S10 / T11).
Proof.
  intros HT. destruct S10 as [s1 s2]. unfold resid1_avg, cadd, csub, cmul, cconj, cabs2, ofR. cbn [fst snd]. f_equal; field; lra.
Qed.
Theorem siso_residual_bounds (S10 : C) (S00 T11 : R) : 0 < T11 -> 0 <= S00 -> cabs2 S10 <= T11 * S00 ->
  0 <= S00 - cabs2 S10 / T11 <= S00.
Proof.
  intros HT H0 HCS. assert (0 <= cabs2 S10) by (unfold cabs2; nra).
  assert (cabs2 S10 / T11 <= S00).
  { apply Rmult_le_reg_r with T11; [exact HT|]. unfold Rdiv. rewrite Rmult_assoc, Rinv_l by lra. lra. }
  assert (0 <= cabs2 S10 / T11) by (apply Rmult_le_pos; [assumption|left; apply Rinv_0_lt_compat; exact HT]).
  lra.
Qed.
(* exact static combination Y = conj(H) X: the per-segment residual vanishes *)
Theorem exact_combination_zero H X : resid1 H X (cmul (cconj H) X) = ofR 0.
Proof.
  rewrite resid1_is_square. destruct H as [h1 h2], X as [x1 x2]. unfold ofR, cabs2, csub, cmul, cconj. cbn [fst snd]. f_equal. ring.
Qed.
(* reordering the two inputs does not change the residual *)
Theorem permutation_invariant_2 H1 H2 X1 X2 Y : resid2 H1 H2 X1 X2 Y = resid2 H2 H1 X2 X1 Y.
Proof.
  rewrite !resid2_is_square. f_equal. destruct H1, H2, X1, X2, Y. unfold cabs2, csub, cmul, cconj. cbn [fst snd]. ring.
Qed.
