(* Kaiser.v — C12: the alpha(psll) cubic of utils.kaiser_alpha (utils.py:114-147), generic in the carrier;
   at the reals it is strictly increasing on the whole range of side-lobe levels. *)
From Coq Require Import ZArith Reals Lra Lia Psatz.
From SK Require Import Arith.
Section K.
Variable A : Arith.
Variables a0 a1 a2 a3 : T A.
Definition kaiser_alpha (psll : T A) : T A :=
  let x := div A psll (ofZ A 100) in
  add A (mul A (add A (mul A (add A (mul A a3 x) a2) x) a1) x) a0.
End K.
Open Scope R_scope.
Definition A0 : R := -821377 / 10000000.
Definition A1 : R := 471469 / 100000.
Definition A2 : R := -493285 / 1000000.
Definition A3 : R := 889732 / 10000000.
Definition alphaR (p : R) : R := kaiser_alpha RA A0 A1 A2 A3 p.
Theorem kaiser_alpha_increasing p q : 0 <= p -> p < q -> q <= 400 -> alphaR p < alphaR q.
Proof.
  intros Hp Hpq Hq. unfold alphaR, kaiser_alpha, A0, A1, A2, A3. cbn [add mul div ofZ RA].
  set (x := p / 100). set (y := q / 100).
  assert (Hx : 0 <= x) by (subst x; lra). assert (Hxy : x < y) by (subst x y; lra). assert (Hy : y <= 4) by (subst y; lra).
  (* p(y) - p(x) = (y - x) (a3 (x^2 + x y + y^2) + a2 (x + y) + a1) *)
  assert (Hq' : 0 < 889732 / 10000000 * (x * x + x * y + y * y) + -493285 / 1000000 * (x + y) + 471469 / 100000).
  { assert (0 <= (x - y) * (x - y)) by nra. nra. }
  nra.
Qed.
Theorem kaiser_alpha_values : 1 < alphaR 40 /\ alphaR 200 < 9.
Proof. unfold alphaR, kaiser_alpha, A0, A1, A2, A3. cbn [add mul div ofZ RA]. split; lra. Qed.
