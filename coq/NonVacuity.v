(* NonVacuity.v — the hypotheses that stand for external contracts in the property theorems are satisfiable
   (an implication no state satisfies would mean nothing). *)
From Coq Require Import ZArith List Bool Reals Lra Lia.
From SK Require Import Arith KernelPrims Kernels DetrendPoly Sched SchedThms SchedMono SchedMonoVec.
Import ListNotations.
Open Scope R_scope.

(* C08: an orthonormal basis exists — two rows, the two columns (1,1)/sqrt 2 and (1,-1)/sqrt 2 *)
Example orthonormal_exists : orthonormal [[/ sqrt 2; / sqrt 2]; [/ sqrt 2; - / sqrt 2]] 2.
Proof.
  assert (H2 : sqrt 2 * sqrt 2 = 2) by (apply sqrt_sqrt; lra).
  assert (Hp : 0 < sqrt 2) by (apply sqrt_lt_R0; lra).
  assert (Hi : / sqrt 2 * / sqrt 2 = / 2) by (rewrite <- Rinv_mult; rewrite H2; reflexivity).
  intros k k' Hk Hk'. cbn [hd length] in Hk, Hk'.
  change (Z.to_nat 2) with 2%nat. unfold Sum. cbn [seq fold_left].
  assert (Ek : k = 0%nat \/ k = 1%nat) by lia. assert (Ek' : k' = 0%nat \/ k' = 1%nat) by lia.
  destruct Ek as [-> | ->]; destruct Ek' as [-> | ->]; unfold q, nth2T, nthT; cbn; change (Pos.to_nat 1) with 1%nat; cbn; simpl T in *; nra.
Qed.

(* C04 (vectorised): a sorted positive lookup grid exists *)
Example sorted_grid_exists : sorted_grid [1; 2; 4] /\ Forall (fun g => 0 < g) [1; 2; 4].
Proof.
  split.
  - intros i j gi gj Hij Hi Hj.
    destruct i as [|[|[|i]]]; destruct j as [|[|[|j]]]; cbn in Hi, Hj; try (destruct i; discriminate); try (destruct j; discriminate); try (exfalso; lia);
      inversion Hi; inversion Hj; subst; lra.
  - repeat constructor; lra.
Qed.
