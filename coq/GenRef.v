(* GenRef.v — each GENERATED kernel (gen/KernelsGen.v, regenerated from the Python source on every run)
   equals the hand-written reference of Kernels.v, for an arbitrary arithmetic carrier.
   These are the proof obligations that tie the kernel theorems to the current source text. *)
From Coq Require Import ZArith List Bool Lia.
From SK Require Import Arith KernelPrims Kernels.
From SK.gen Require Import KernelsGen.
Import ListNotations.
Open Scope Z_scope.

Section GenRef.
Variable A : Arith.
Variables cosT sinT : T A -> T A.

Lemma map_seq_nthZ {X} (f : Z -> X) (g : nat -> X) (starts : list Z) :
  (forall j_, g j_ = f (nthZ starts (Z.of_nat j_))) ->
  map g (seq 0 (Z.to_nat (Z.of_nat (length starts)))) = map f starts.
Proof.
  intros Hg. rewrite Nat2Z.id.
  assert (H : forall (l : list Z) (off : nat) (pre : list Z), starts = pre ++ l -> off = length pre ->
              map g (seq off (length l)) = map f l).
  { induction l as [|a l IH]; intros off pre Hs Ho; [reflexivity|].
    cbn [length seq map]. f_equal.
    - rewrite Hg. unfold nthZ. rewrite Nat2Z.id. subst. rewrite app_nth2, Nat.sub_diag by lia. reflexivity.
    - apply (IH (S off) (pre ++ [a])); [rewrite <- app_assoc; exact Hs|rewrite app_length; cbn; lia]. }
  apply (H starts 0%nat []); reflexivity.
Qed.

Lemma gen_reduce_ref xx yy xyr xyi :
  gen_reduce_stats_nb A cosT sinT xx yy xyr xyi = ref_reduce A xx yy xyr xyi.
Proof. reflexivity. Qed.

Lemma gen_mean_ref x s L : gen_apply_detrend0_inplace_nb_mean A cosT sinT x s L = seg_mean A x s L.
Proof. reflexivity. Qed.

Lemma gen_val_ref xn m : gen_apply_detrend0_inplace_nb_val A cosT sinT xn m = sub A xn m.
Proof. reflexivity. Qed.

(* building a local array by storing element k in iteration k equals a map *)
Lemma fold_upd_map {X} (g : nat -> X) (z : X) : forall n m (pre : list X), (n <= m)%nat ->
  fold_left (fun a k_ => updT a (Z.of_nat k_) (g k_)) (seq (length pre) n) (pre ++ repeat z m)
  = pre ++ map g (seq (length pre) n) ++ repeat z (m - n).
Proof.
  induction n as [|n IH]; intros m pre Hle; cbn [seq fold_left map].
  - rewrite Nat.sub_0_r. reflexivity.
  - destruct m as [|m]; [lia|]. cbn [repeat].
    assert (Hu : updT (pre ++ z :: repeat z m) (Z.of_nat (length pre)) (g (length pre)) = (pre ++ [g (length pre)]) ++ repeat z m).
    { unfold updT. rewrite Nat2Z.id. generalize (g (length pre)) as v. clear. intros v.
      induction pre as [|p pre IHp]; cbn; [reflexivity|]. f_equal. exact IHp. }
    rewrite Hu. replace (S (length pre)) with (length (pre ++ [g (length pre)])) by (rewrite app_length; cbn; lia).
    rewrite IH by lia. rewrite <- app_assoc. cbn [app]. replace (S m - S n)%nat with (m - n)%nat by lia.
    rewrite app_length. cbn [length]. rewrite Nat.add_1_r. reflexivity.
Qed.

Lemma gen_alpha_ref x Q s L :
  gen_apply_poly_detrend_inplace_nb_alpha A cosT sinT x Q s L = alpha_ref A x Q s L.
Proof.
  unfold gen_apply_poly_detrend_inplace_nb_alpha, alpha_ref, repeatT. cbv zeta. rewrite !Nat2Z.id.
  set (g := fun k_ : nat => fold_left _ (seq 0 (Z.to_nat L)) (ofZ A 0)).
  change (fold_left _ (seq 0 (length (hd [] Q))) _) with
    (fold_left (fun a k_ => updT a (Z.of_nat k_) (g k_)) (seq (length (@nil (T A))) (length (hd [] Q))) ([] ++ repeat (zero A) (length (hd [] Q)))).
  rewrite fold_upd_map by lia. rewrite Nat.sub_diag. cbn [repeat app length]. rewrite app_nil_r. reflexivity.
Qed.

Lemma gen_rowdot_ref Q n alpha :
  gen_apply_poly_detrend_inplace_nb_rowdot A cosT sinT Q n alpha = rowdot A Q n alpha.
Proof. reflexivity. Qed.

Ltac gen_body_tac :=
  rewrite ?gen_mean_ref, ?gen_alpha_ref;
  cbv beta zeta delta [pw_auto pw_csd ref_bin binval goertzel_idx gstep3 samp_win samp_mean0 samp_poly
                       gen_apply_detrend0_inplace_nb_val gen_apply_poly_detrend_inplace_nb_rowdot rowdot];
  repeat match goal with
         | |- context [fold_left ?f ?l (?a, ?b, ?c)] =>
           let s0 := fresh "s0" in let s2 := fresh "s2" in let s1 := fresh "s1" in
           destruct (fold_left f l (a, b, c)) as [[s0 s2] s1]
         end;
  reflexivity.

(* ---------------- Numba kernels ---------------- *)
Theorem Gen_win_only_auto_ref x starts L w omega :
  gen_stats_win_only_auto A cosT sinT x starts L w omega =
  ref_auto A (cosT omega) (sinT omega) (samp_win A x w) starts L.
Proof.
  unfold gen_stats_win_only_auto, ref_auto, reduce_rows. cbv zeta. rewrite gen_reduce_ref.
  rewrite (map_seq_nthZ (fun s => pw_auto A (ref_bin A (cosT omega) (sinT omega) (samp_win A x w s) L))); [reflexivity|].
  intros j_. gen_body_tac.
Qed.

Theorem Gen_win_only_csd_ref x1 x2 starts L w omega :
  gen_stats_win_only_csd A cosT sinT x1 x2 starts L w omega =
  ref_csd A (cosT omega) (sinT omega) (samp_win A x1 w) (samp_win A x2 w) starts L.
Proof.
  unfold gen_stats_win_only_csd, ref_csd, reduce_rows. cbv zeta. rewrite gen_reduce_ref.
  rewrite (map_seq_nthZ (fun s => pw_csd A (ref_bin A (cosT omega) (sinT omega) (samp_win A x1 w s) L)
                                           (ref_bin A (cosT omega) (sinT omega) (samp_win A x2 w s) L))); [reflexivity|].
  intros j_. gen_body_tac.
Qed.

Theorem Gen_detrend0_auto_ref x starts L w omega :
  gen_stats_detrend0_auto A cosT sinT x starts L w omega =
  ref_auto A (cosT omega) (sinT omega) (samp_mean0 A x w L) starts L.
Proof.
  unfold gen_stats_detrend0_auto, ref_auto, reduce_rows. cbv zeta. rewrite gen_reduce_ref.
  rewrite (map_seq_nthZ (fun s => pw_auto A (ref_bin A (cosT omega) (sinT omega) (samp_mean0 A x w L s) L))); [reflexivity|].
  intros j_. gen_body_tac.
Qed.

Theorem Gen_detrend0_csd_ref x1 x2 starts L w omega :
  gen_stats_detrend0_csd A cosT sinT x1 x2 starts L w omega =
  ref_csd A (cosT omega) (sinT omega) (samp_mean0 A x1 w L) (samp_mean0 A x2 w L) starts L.
Proof.
  unfold gen_stats_detrend0_csd, ref_csd, reduce_rows. cbv zeta. rewrite gen_reduce_ref.
  rewrite (map_seq_nthZ (fun s => pw_csd A (ref_bin A (cosT omega) (sinT omega) (samp_mean0 A x1 w L s) L)
                                           (ref_bin A (cosT omega) (sinT omega) (samp_mean0 A x2 w L s) L))); [reflexivity|].
  intros j_. gen_body_tac.
Qed.
Theorem Gen_poly_auto_ref x starts L w omega Q :
  gen_stats_poly_auto A cosT sinT x starts L w omega Q =
  ref_auto A (cosT omega) (sinT omega) (samp_poly A x w Q L) starts L.
Proof.
  unfold gen_stats_poly_auto, ref_auto, reduce_rows. cbv zeta. rewrite gen_reduce_ref.
  rewrite (map_seq_nthZ (fun s => pw_auto A (ref_bin A (cosT omega) (sinT omega) (samp_poly A x w Q L s) L))); [reflexivity|].
  intros j_. gen_body_tac.
Qed.

Theorem Gen_poly_csd_ref x1 x2 starts L w omega Q :
  gen_stats_poly_csd A cosT sinT x1 x2 starts L w omega Q =
  ref_csd A (cosT omega) (sinT omega) (samp_poly A x1 w Q L) (samp_poly A x2 w Q L) starts L.
Proof.
  unfold gen_stats_poly_csd, ref_csd, reduce_rows. cbv zeta. rewrite gen_reduce_ref.
  rewrite (map_seq_nthZ (fun s => pw_csd A (ref_bin A (cosT omega) (sinT omega) (samp_poly A x1 w Q L s) L)
                                           (ref_bin A (cosT omega) (sinT omega) (samp_poly A x2 w Q L s) L))); [reflexivity|].
  intros j_. gen_body_tac.
Qed.
(* ---------------- CUDA kernels + host wrappers ---------------- *)
Lemma host_wrap (starts : list Z) (rows : list (T A * T A * T A * T A)) (f : Z -> T A * T A * T A * T A) :
  rows = map f starts ->
  (if (Z.of_nat (length starts) =? 0) then (ofZ A 0, ofZ A 0, ofZ A 0, ofZ A 0, ofZ A 0) else
   gen_reduce_stats_nb A cosT sinT (map (fun r_ => proj4_1 r_) rows) (map (fun r_ => proj4_2 r_) rows)
                       (map (fun r_ => proj4_3 r_) rows) (map (fun r_ => proj4_4 r_) rows))
  = reduce_rows A (map f starts).
Proof.
  intros ->. destruct starts as [|s0 st]; [reflexivity|].
  destruct (Z.eqb_spec (Z.of_nat (length (s0 :: st))) 0) as [E|_]; [cbn [length] in E; lia|reflexivity].
Qed.

Lemma fold_pair_split {X} (f1 f2 : T A -> X -> T A) (l : list X) : forall a b,
  fold_left (fun st x => let '(m1, m2) := st in (f1 m1 x, f2 m2 x)) l (a, b) = (fold_left f1 l a, fold_left f2 l b).
Proof. induction l as [|x l IH]; intros a b; cbn [fold_left]; [reflexivity|apply IH]. Qed.

Theorem Gen_win_only_auto_cuda_ref x starts L w omega :
  gen_stats_win_only_auto_cuda A cosT sinT x starts L w omega =
  ref_auto A (cosT omega) (sinT omega) (samp_win A x w) starts L.
Proof.
  unfold gen_stats_win_only_auto_cuda, gen_stats_win_only_auto_cuda_kernel, ref_auto. cbv zeta.
  apply host_wrap. apply map_seq_nthZ. intros j_. gen_body_tac.
Qed.

Theorem Gen_win_only_csd_cuda_ref x1 x2 starts L w omega :
  gen_stats_win_only_csd_cuda A cosT sinT x1 x2 starts L w omega =
  ref_csd A (cosT omega) (sinT omega) (samp_win A x1 w) (samp_win A x2 w) starts L.
Proof.
  unfold gen_stats_win_only_csd_cuda, gen_stats_win_only_csd_cuda_kernel, ref_csd. cbv zeta.
  apply host_wrap. apply map_seq_nthZ. intros j_. gen_body_tac.
Qed.

Theorem Gen_detrend0_auto_cuda_ref x starts L w omega :
  gen_stats_detrend0_auto_cuda A cosT sinT x starts L w omega =
  ref_auto A (cosT omega) (sinT omega) (samp_mean0 A x w L) starts L.
Proof.
  unfold gen_stats_detrend0_auto_cuda, gen_stats_detrend0_auto_cuda_kernel, ref_auto. cbv zeta.
  apply host_wrap. apply map_seq_nthZ. intros j_. unfold samp_mean0, seg_mean. gen_body_tac.
Qed.

Theorem Gen_detrend0_csd_cuda_ref x1 x2 starts L w omega :
  gen_stats_detrend0_csd_cuda A cosT sinT x1 x2 starts L w omega =
  ref_csd A (cosT omega) (sinT omega) (samp_mean0 A x1 w L) (samp_mean0 A x2 w L) starts L.
Proof.
  unfold gen_stats_detrend0_csd_cuda, gen_stats_detrend0_csd_cuda_kernel, ref_csd. cbv zeta.
  apply host_wrap. apply map_seq_nthZ. intros j_. unfold samp_mean0, seg_mean.
  match goal with |- context [fold_left ?f ?l (?a, ?b)] =>
    rewrite (fold_pair_split (fun m n_ => add A m (nthT A x1 (nthZ starts (Z.of_nat j_) + Z.of_nat n_)))
                             (fun m n_ => add A m (nthT A x2 (nthZ starts (Z.of_nat j_) + Z.of_nat n_))) l a b) end.
  gen_body_tac.
Qed.
Lemma fold_left_ext_in {S X} (f g : S -> X -> S) (l : list X) : forall a,
  (forall st x, In x l -> f st x = g st x) -> fold_left f l a = fold_left g l a.
Proof.
  induction l as [|x l IH]; intros a H; cbn [fold_left]; [reflexivity|].
  rewrite H by (left; reflexivity). apply IH. intros st y Hy. apply H. right. exact Hy.
Qed.

(* CUDA's fixed-size local array (3 slots) holds alpha_ref in its first p1 slots when p1 <= 3 *)
Lemma cuda_alpha x Q s L : (length (hd [] Q) <= 3)%nat ->
  fold_left (fun st_ k_ => updT st_ (Z.of_nat k_)
      (fold_left (fun acc n_ => add A acc (mul A (nth2T A Q (Z.of_nat n_) (Z.of_nat k_)) (nthT A x (s + Z.of_nat n_))))
                 (seq 0 (Z.to_nat L)) (ofZ A 0)))
    (seq 0 (Z.to_nat (Z.of_nat (length (hd [] Q))))) (repeatT A 3)
  = alpha_ref A x Q s L ++ repeat (zero A) (3 - length (hd [] Q)).
Proof.
  intros Hp. unfold repeatT, alpha_ref. rewrite Nat2Z.id.
  change (Z.to_nat 3) with 3%nat.
  set (g := fun k_ : nat => fold_left _ (seq 0 (Z.to_nat L)) (ofZ A 0)).
  change (fold_left _ (seq 0 (length (hd [] Q))) (repeat (zero A) 3)) with
    (fold_left (fun a k_ => updT a (Z.of_nat k_) (g k_)) (seq (length (@nil (T A))) (length (hd [] Q))) ([] ++ repeat (zero A) 3)).
  rewrite fold_upd_map by exact Hp. reflexivity.
Qed.

Lemma rowdot_pad Q n (a pad : list (T A)) : length a = length (hd [] Q) ->
  fold_left (fun acc k_ => add A acc (mul A (nth2T A Q n (Z.of_nat k_)) (nthT A (a ++ pad) (Z.of_nat k_))))
            (seq 0 (Z.to_nat (Z.of_nat (length (hd [] Q))))) (ofZ A 0)
  = rowdot A Q n a.
Proof.
  intros Hl. unfold rowdot. apply fold_left_ext_in. intros st k_ Hin. apply in_seq in Hin.
  rewrite Nat2Z.id in Hin. unfold nthT. rewrite Nat2Z.id, app_nth1 by lia. reflexivity.
Qed.

Lemma alpha_ref_length x Q s L : length (alpha_ref A x Q s L) = length (hd [] Q).
Proof. unfold alpha_ref. rewrite map_length, seq_length. reflexivity. Qed.

Theorem Gen_poly_auto_cuda_ref x starts L w omega Q : (length (hd [] Q) <= 3)%nat ->
  gen_stats_poly_auto_cuda A cosT sinT x starts L w omega Q =
  ref_auto A (cosT omega) (sinT omega) (samp_poly A x w Q L) starts L.
Proof.
  intros Hp. unfold gen_stats_poly_auto_cuda, gen_stats_poly_auto_cuda_kernel, ref_auto. cbv zeta.
  apply host_wrap. apply map_seq_nthZ. intros j_.
  rewrite (cuda_alpha x Q (nthZ starts (Z.of_nat j_)) L Hp).
  unfold samp_poly. cbv zeta.
  match goal with |- context [fold_left ?f (seq 0 (Z.to_nat L)) (?a, ?b, ?c)] =>
    rewrite (fold_left_ext_in f
      (fun st n_ => gstep3 A (mul A (ofZ A 2) (cosT omega)) st
         (mul A (sub A (nthT A x (nthZ starts (Z.of_nat j_) + Z.of_nat n_))
                       (rowdot A Q (Z.of_nat n_) (alpha_ref A x Q (nthZ starts (Z.of_nat j_)) L)))
                (nthT A w (Z.of_nat n_)))))
  end.
  - gen_body_tac.
  - intros [[s0 s2] s1] n_ _. unfold gstep3. cbv zeta.
    rewrite (rowdot_pad Q (Z.of_nat n_) _ _ (alpha_ref_length x Q _ L)). reflexivity.
Qed.

Theorem Gen_poly_csd_cuda_ref x1 x2 starts L w omega Q : (length (hd [] Q) <= 3)%nat ->
  gen_stats_poly_csd_cuda A cosT sinT x1 x2 starts L w omega Q =
  ref_csd A (cosT omega) (sinT omega) (samp_poly A x1 w Q L) (samp_poly A x2 w Q L) starts L.
Proof.
  intros Hp. unfold gen_stats_poly_csd_cuda, gen_stats_poly_csd_cuda_kernel, ref_csd. cbv zeta.
  apply host_wrap. apply map_seq_nthZ. intros j_.
  rewrite (cuda_alpha x1 Q (nthZ starts (Z.of_nat j_)) L Hp), (cuda_alpha x2 Q (nthZ starts (Z.of_nat j_)) L Hp).
  unfold samp_poly. cbv zeta.
  set (G := fun xx : list (T A) => fun st n_ => gstep3 A (mul A (ofZ A 2) (cosT omega)) st
         (mul A (sub A (nthT A xx (nthZ starts (Z.of_nat j_) + Z.of_nat n_))
                       (rowdot A Q (Z.of_nat n_) (alpha_ref A xx Q (nthZ starts (Z.of_nat j_)) L)))
                (nthT A w (Z.of_nat n_)))).
  repeat match goal with |- context [fold_left ?f (seq 0 (Z.to_nat L)) (ofZ A 0, ofZ A 0, ofZ A 0)] =>
    lazymatch f with
    | context [x1] => lazymatch f with context [rowdot] => fail | _ => rewrite (fold_left_ext_in f (G x1)) end
    | context [x2] => lazymatch f with context [rowdot] => fail | _ => rewrite (fold_left_ext_in f (G x2)) end
    end
  end.
  all: try (subst G; gen_body_tac).
  all: intros [[s0 s2] s1] n_ _; subst G; unfold gstep3; cbv zeta;
       rewrite (rowdot_pad Q (Z.of_nat n_) _ _ (alpha_ref_length _ Q _ L)); reflexivity.
Qed.
End GenRef.
