(* Hist.v — C14: results do not depend on thread scheduling or on call history.
   (1) parallel loop: one write per index, values independent of the schedule -> any interleaving gives the same arrays;
   (2) analyzer plan cache: any sequence of plan / compute / single-bin calls returns what a fresh analyzer returns;
   (3) lazy attribute cache: any access sequence returns the pure value, cached entries never change. *)
From Coq Require Import List Bool Arith Lia Permutation.
Import ListNotations.

(* ---------------- (1) schedule independence ---------------- *)
Section Race.
Variable V : Type.
Definition mem := nat -> V.
Definition write (m : mem) (iv : nat * V) : mem := fun k => if Nat.eqb k (fst iv) then snd iv else m k.
Definition run (ws : list (nat * V)) (m : mem) : mem := fold_left write ws m.

Lemma write_comm m a b : fst a <> fst b -> forall k, write (write m a) b k = write (write m b) a k.
Proof.
  intros Hne k. unfold write. destruct (Nat.eqb_spec k (fst b)), (Nat.eqb_spec k (fst a)); try reflexivity. congruence.
Qed.
Lemma run_ext ws : forall m m', (forall k, m k = m' k) -> forall k, run ws m k = run ws m' k.
Proof.
  induction ws as [|w ws IH]; intros m m' H k; cbn; [apply H|].
  apply IH. intros j. unfold write. destruct (Nat.eqb j (fst w)); [reflexivity|apply H].
Qed.
Theorem schedule_independent (ws ws' : list (nat * V)) :
  Permutation ws ws' -> NoDup (map fst ws) -> forall m k, run ws m k = run ws' m k.
Proof.
  intros Hp. induction Hp as [|x l l' Hp IH|x y l|l l' l'' H1 IH1 H2 IH2]; intros Hnd m k.
  - reflexivity.
  - cbn. apply IH. inversion Hnd; assumption.
  - cbn. apply run_ext. intros j. apply write_comm. inversion Hnd as [|? ? Hin _]; subst. cbn in Hin. intuition.
  - rewrite IH1 by assumption. apply IH2. eapply Permutation_NoDup; [apply Permutation_map; exact H1|assumption].
Qed.
(* a parallel loop whose iteration j writes only slot j: the write list of ANY schedule is a permutation of the sequential one *)
Definition loop_writes (f : nat -> V) (K : nat) : list (nat * V) := map (fun j => (j, f j)) (seq 0 K).
Lemma loop_writes_nodup f K : NoDup (map fst (loop_writes f K)).
Proof. unfold loop_writes. rewrite map_map. cbn. rewrite map_id. apply seq_NoDup. Qed.
Theorem parallel_loop_deterministic f K sched :
  Permutation (loop_writes f K) sched -> forall m k, run sched m k = run (loop_writes f K) m k.
Proof. intros Hp m k. symmetry. apply schedule_independent; [exact Hp|apply loop_writes_nodup]. Qed.
Lemma run_untouched (l : list (nat * V)) : forall m1 k, ~ In k (map fst l) -> run l m1 k = m1 k.
Proof.
  induction l as [|w l IHl]; intros m1 k Hn; [reflexivity|].
  cbn [run fold_left]. change (fold_left write l (write m1 w)) with (run l (write m1 w)).
  rewrite IHl.
  - unfold write. destruct (Nat.eqb_spec k (fst w)) as [E|E]; [exfalso; apply Hn; left; symmetry; exact E|reflexivity].
  - intros Hin. apply Hn. right. exact Hin.
Qed.
Lemma run_loop_value f K : forall m k, k < K -> run (loop_writes f K) m k = f k.
Proof.
  intros m k Hk. unfold loop_writes.
  assert (H : forall n off m0, off <= k < off + n -> run (map (fun j => (j, f j)) (seq off n)) m0 k = f k).
  { induction n as [|n IH]; intros off m0 Hr; [lia|]. cbn [seq map run fold_left].
    destruct (Nat.eq_dec k off) as [->|Hne].
    - change (fold_left write ?l ?a) with (run l a). rewrite run_untouched.
      + unfold write. cbn. rewrite Nat.eqb_refl. reflexivity.
      + rewrite map_map. cbn. rewrite map_id. intros Hin. apply in_seq in Hin. lia.
    - change (fold_left write ?l ?a) with (run l a). apply IH. lia. }
  apply H. lia.
Qed.
End Race.

(* ---------------- (2) plan cache ---------------- *)
Section PlanCache.
Variables (Plan Res Single Arg : Type).
Variable mkplan : Plan.                       (* the (pure) scheduler output for this analyzer's configuration *)
Variable compute_with : Plan -> Res.          (* compute() given the plan *)
Variable single : Arg -> Single.              (* compute_single_bin: does not read or write the plan cache *)
Inductive op := OpPlan | OpCompute | OpSingle (a : Arg).
Inductive outv := OutPlan (p : Plan) | OutRes (r : Res) | OutSingle (s : Single).
Definition state := option Plan.
Definition plan_step (st : state) : Plan * state := match st with Some p => (p, st) | None => (mkplan, Some mkplan) end.
Definition step (st : state) (o : op) : outv * state :=
  match o with
  | OpPlan => let '(p, st') := plan_step st in (OutPlan p, st')
  | OpCompute => let '(p, st') := plan_step st in (OutRes (compute_with p), st')
  | OpSingle a => (OutSingle (single a), st)
  end.
Fixpoint run_ops (st : state) (ops : list op) : list outv :=
  match ops with [] => [] | o :: os => let '(v, st') := step st o in v :: run_ops st' os end.
Definition fresh (o : op) : outv := fst (step None o).
Definition inv (st : state) : Prop := st = None \/ st = Some mkplan.
Lemma step_inv st o : inv st -> inv (snd (step st o)) /\ fst (step st o) = fresh o.
Proof.
  intros [->| ->]; destruct o; cbn; unfold inv; auto.
Qed.
Theorem history_independent ops : forall st, inv st -> run_ops st ops = map fresh ops.
Proof.
  induction ops as [|o os IH]; intros st Hi; [reflexivity|]. cbn [run_ops map].
  destruct (step st o) as [v st'] eqn:E. pose proof (step_inv st o Hi) as [Hi' Hv]. rewrite E in *. cbn in *.
  rewrite Hv. f_equal. apply IH. exact Hi'.
Qed.
End PlanCache.

(* ---------------- (3) lazy attribute cache ---------------- *)
Section AttrCache.
Variables (Name Val : Type).
Variable name_eqb : Name -> Name -> bool.
Variable pure_val : Name -> Val.               (* the attribute's value as a function of the immutable base data *)
Variable deps : Name -> list Name.             (* attributes evaluated (and cached) on the way *)
Definition cache := list (Name * Val).
Definition lookup (c : cache) (n : Name) : option Val :=
  match find (fun p => name_eqb (fst p) n) c with Some p => Some (snd p) | None => None end.
Definition getattr (c : cache) (n : Name) : Val * cache :=
  match lookup c n with
  | Some v => (v, c)
  | None => (pure_val n, (n, pure_val n) :: map (fun d => (d, pure_val d)) (deps n) ++ c)
  end.
Definition cinv (c : cache) : Prop := forall n v, In (n, v) c -> v = pure_val n.
Hypothesis name_eqb_eq : forall a b, name_eqb a b = true -> a = b.
Lemma lookup_inv c n v : cinv c -> lookup c n = Some v -> v = pure_val n.
Proof.
  intros Hc. unfold lookup. destruct (find _ c) as [p|] eqn:E; [|discriminate]. intros H; inversion H; subst.
  apply find_some in E. destruct E as [Hin He]. apply name_eqb_eq in He. subst. apply Hc. destruct p; exact Hin.
Qed.
Lemma getattr_ok c n : cinv c -> fst (getattr c n) = pure_val n /\ cinv (snd (getattr c n)).
Proof.
  intros Hc. unfold getattr. destruct (lookup c n) as [v|] eqn:E; cbn.
  - split; [eapply lookup_inv; eauto|exact Hc].
  - split; [reflexivity|]. intros m w [H|H]; [inversion H; reflexivity|].
    apply in_app_or in H. destruct H as [H|H]; [|apply Hc; exact H].
    apply in_map_iff in H. destruct H as (d & Hd & _). inversion Hd; reflexivity.
Qed.
Fixpoint access (c : cache) (ns : list Name) : list Val :=
  match ns with [] => [] | n :: ns' => let '(v, c') := getattr c n in v :: access c' ns' end.
Theorem attr_order_independent ns : forall c, cinv c -> access c ns = map pure_val ns.
Proof.
  induction ns as [|n ns IH]; intros c Hc; [reflexivity|]. cbn [access map].
  destruct (getattr c n) as [v c'] eqn:E. pose proof (getattr_ok c n Hc) as [Hv Hc']. rewrite E in *. cbn in *.
  rewrite Hv. f_equal. apply IH. exact Hc'.
Qed.
End AttrCache.
