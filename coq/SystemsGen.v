(* SystemsGen.v — C15 for ANY number of inputs q and any number of averaged segments: the expression of systems.py
      S00 - Sum1 - Sum2 + Sum3,   Sum1 = sum_i H_i S_0i,  Sum2 = sum_i conj(H_i) S_i0,  Sum3 = sum_i sum_j conj(H_j) H_i T_ji
   evaluated on spectra accumulated over segments (S_i0 = sum_k X_ik conj(Y_k), T_ji = sum_k X_jk conj(X_ik), S00 = sum_k |Y_k|^2)
   equals  sum_k |Y_k - sum_i conj(H_i) X_ik|^2  for ANY coefficients H — so it is real and non-negative whatever solver produced H,
   it vanishes when Y is an exact static combination of the inputs, and it does not depend on the order of the inputs. *)
From Coq Require Import List Reals Lra Lia Psatz Permutation.
From SK Require Import Systems.
Import ListNotations.
Open Scope R_scope.

Definition czero : C := (0, 0).
Definition csum (l : list C) : C := fold_right cadd czero l.
Definition csumf (f : nat -> C) (q : nat) : C := csum (map f (seq 0 q)).

Lemma c_eq (a b : C) : fst a = fst b -> snd a = snd b -> a = b.
Proof. destruct a, b. cbn. intros; subst; reflexivity. Qed.
Ltac cring := apply c_eq; unfold S_i0, T_ij; unfold csum, cadd, csub, cmul, cconj, cabs2, ofR, czero; cbn [fold_right map fst snd]; ring.

Lemma csum_cons a l : csum (a :: l) = cadd a (csum l).
Proof. reflexivity. Qed.
Lemma csum_mul_r (f : nat -> C) (c : C) l : csum (map (fun i => cmul (f i) c) l) = cmul (csum (map f l)) c.
Proof. induction l as [|i l IH]; cbn [map]; [cring|]. rewrite !csum_cons, IH. cring. Qed.
Lemma csum_mul_l (f : nat -> C) (c : C) l : csum (map (fun i => cmul c (f i)) l) = cmul c (csum (map f l)).
Proof. induction l as [|i l IH]; cbn [map]; [cring|]. rewrite !csum_cons, IH. cring. Qed.
Lemma csum_conj (f : nat -> C) l : csum (map (fun i => cconj (f i)) l) = cconj (csum (map f l)).
Proof. induction l as [|i l IH]; cbn [map]; [cring|]. rewrite !csum_cons, IH. cring. Qed.
Lemma csum_add (f g : nat -> C) l : csum (map (fun i => cadd (f i) (g i)) l) = cadd (csum (map f l)) (csum (map g l)).
Proof. induction l as [|i l IH]; cbn [map]; [cring|]. rewrite !csum_cons, IH. cring. Qed.
Lemma csum_ext (f g : nat -> C) l : (forall i, In i l -> f i = g i) -> csum (map f l) = csum (map g l).
Proof. intros H. f_equal. apply map_ext_in. exact H. Qed.

(* the expression as coded, on arbitrary spectra *)
Definition resid_expr (q : nat) (H : nat -> C) (S00 : R) (S : nat -> C) (T : nat -> nat -> C) : C :=
  let Sum1 := csumf (fun i => cmul (H i) (cconj (S i))) q in
  let Sum2 := csumf (fun i => cmul (cconj (H i)) (S i)) q in
  let Sum3 := csumf (fun i => csumf (fun j => cmul (cmul (cconj (H j)) (H i)) (T j i)) q) q in
  cadd (csub (csub (ofR S00) Sum1) Sum2) Sum3.

(* one segment *)
Definition model_out (q : nat) (H X : nat -> C) : C := csumf (fun i => cmul (cconj (H i)) (X i)) q.
Theorem resid_segment_is_square q H X Y :
  resid_expr q H (cabs2 Y) (fun i => S_i0 (X i) Y) (fun j i => T_ij (X j) (X i)) = ofR (cabs2 (csub Y (model_out q H X))).
Proof.
  unfold resid_expr, model_out, csumf. set (l := seq 0 q).
  set (Z := csum (map (fun i => cmul (cconj (H i)) (X i)) l)).
  assert (E2 : csum (map (fun i => cmul (cconj (H i)) (S_i0 (X i) Y)) l) = cmul Z (cconj Y)).
  { unfold Z. rewrite <- csum_mul_r. apply csum_ext. intros i _. cring. }
  assert (E1 : csum (map (fun i => cmul (H i) (cconj (S_i0 (X i) Y))) l) = cmul (cconj Z) Y).
  { unfold Z. rewrite <- csum_conj, <- csum_mul_r. apply csum_ext. intros i _. cring. }
  assert (E3 : csum (map (fun i => csum (map (fun j => cmul (cmul (cconj (H j)) (H i)) (T_ij (X j) (X i))) l)) l) = cmul Z (cconj Z)).
  { transitivity (csum (map (fun i => cmul Z (cconj (cmul (cconj (H i)) (X i)))) l)).
    - apply csum_ext. intros i _. unfold Z. rewrite <- csum_mul_r. apply csum_ext. intros j _. cring.
    - rewrite csum_mul_l. f_equal. unfold Z. rewrite csum_conj. reflexivity. }
  rewrite E1, E2, E3. cring.
Qed.

(* the expression is additive in the spectra (H fixed) *)
Lemma resid_expr_add q H a b S S' T T' :
  resid_expr q H (a + b) (fun i => cadd (S i) (S' i)) (fun j i => cadd (T j i) (T' j i))
  = cadd (resid_expr q H a S T) (resid_expr q H b S' T').
Proof.
  unfold resid_expr, csumf. set (l := seq 0 q).
  assert (E1 : csum (map (fun i => cmul (H i) (cconj (cadd (S i) (S' i)))) l)
             = cadd (csum (map (fun i => cmul (H i) (cconj (S i))) l)) (csum (map (fun i => cmul (H i) (cconj (S' i))) l))).
  { rewrite <- csum_add. apply csum_ext. intros i _. cring. }
  assert (E2 : csum (map (fun i => cmul (cconj (H i)) (cadd (S i) (S' i))) l)
             = cadd (csum (map (fun i => cmul (cconj (H i)) (S i)) l)) (csum (map (fun i => cmul (cconj (H i)) (S' i)) l))).
  { rewrite <- csum_add. apply csum_ext. intros i _. cring. }
  assert (E3 : csum (map (fun i => csum (map (fun j => cmul (cmul (cconj (H j)) (H i)) (cadd (T j i) (T' j i))) l)) l)
             = cadd (csum (map (fun i => csum (map (fun j => cmul (cmul (cconj (H j)) (H i)) (T j i)) l)) l))
                    (csum (map (fun i => csum (map (fun j => cmul (cmul (cconj (H j)) (H i)) (T' j i)) l)) l))).
  { rewrite <- csum_add. apply csum_ext. intros i _. rewrite <- csum_add. apply csum_ext. intros j _. cring. }
  rewrite E1, E2, E3. cring.
Qed.
Lemma resid_expr_zero q H : resid_expr q H 0 (fun _ => czero) (fun _ _ => czero) = czero.
Proof.
  unfold resid_expr, csumf. set (l := seq 0 q).
  assert (Z : forall f : nat -> C, (forall i, f i = czero) -> csum (map f l) = czero).
  { intros f Hf. induction l as [|i l IH]; [reflexivity|]. cbn [map]. rewrite csum_cons, Hf, IH. cring. }
  rewrite (Z (fun i => cmul (H i) (cconj czero))) by (intros; cring).
  rewrite (Z (fun i => cmul (cconj (H i)) czero)) by (intros; cring).
  rewrite (Z (fun i => csum (map (fun j => cmul (cmul (cconj (H j)) (H i)) czero) l))) by (intros; apply Z; intros; cring).
  cring.
Qed.

(* spectra accumulated over a list of segments (X_k, Y_k) *)
Fixpoint acc_S00 (segs : list ((nat -> C) * C)) : R := match segs with [] => 0 | (X, Y) :: r => cabs2 Y + acc_S00 r end.
Fixpoint acc_S (segs : list ((nat -> C) * C)) (i : nat) : C := match segs with [] => czero | (X, Y) :: r => cadd (S_i0 (X i) Y) (acc_S r i) end.
Fixpoint acc_T (segs : list ((nat -> C) * C)) (j i : nat) : C := match segs with [] => czero | (X, Y) :: r => cadd (T_ij (X j) (X i)) (acc_T r j i) end.
Fixpoint sum_sq (q : nat) (H : nat -> C) (segs : list ((nat -> C) * C)) : R :=
  match segs with [] => 0 | (X, Y) :: r => cabs2 (csub Y (model_out q H X)) + sum_sq q H r end.

Theorem resid_accumulated_is_sum_of_squares q H segs :
  resid_expr q H (acc_S00 segs) (acc_S segs) (acc_T segs) = ofR (sum_sq q H segs).
Proof.
  induction segs as [|[X Y] r IH].
  - cbn [acc_S00 sum_sq]. change (acc_S []) with (fun _ : nat => czero). change (acc_T []) with (fun _ _ : nat => czero).
    rewrite resid_expr_zero. reflexivity.
  - cbn [acc_S00 sum_sq].
    change (acc_S ((X, Y) :: r)) with (fun i => cadd (S_i0 (X i) Y) (acc_S r i)).
    change (acc_T ((X, Y) :: r)) with (fun j i => cadd (T_ij (X j) (X i)) (acc_T r j i)).
    rewrite (resid_expr_add q H (cabs2 Y) (acc_S00 r) (fun i => S_i0 (X i) Y) (acc_S r) (fun j i => T_ij (X j) (X i)) (acc_T r)).
    rewrite resid_segment_is_square, IH. cring.
Qed.
Lemma sum_sq_nonneg q H segs : 0 <= sum_sq q H segs.
Proof. induction segs as [|[X Y] r IH]; cbn [sum_sq]; [lra|]. unfold cabs2. nra. Qed.
Theorem resid_accumulated_physical q H segs :
  0 <= fst (resid_expr q H (acc_S00 segs) (acc_S segs) (acc_T segs)) /\ snd (resid_expr q H (acc_S00 segs) (acc_S segs) (acc_T segs)) = 0.
Proof. rewrite resid_accumulated_is_sum_of_squares. cbn [ofR fst snd]. split; [apply sum_sq_nonneg|reflexivity]. Qed.

(* scaling all spectra by one real factor (the estimator normalisation / the 1/K of the mean) scales the expression *)
Lemma resid_expr_scale q H (c : R) S00 S T :
  resid_expr q H (c * S00) (fun i => cmul (ofR c) (S i)) (fun j i => cmul (ofR c) (T j i)) = cmul (ofR c) (resid_expr q H S00 S T).
Proof.
  unfold resid_expr, csumf. set (l := seq 0 q).
  assert (E1 : csum (map (fun i => cmul (H i) (cconj (cmul (ofR c) (S i)))) l) = cmul (ofR c) (csum (map (fun i => cmul (H i) (cconj (S i))) l))).
  { rewrite <- csum_mul_l. apply csum_ext. intros i _. cring. }
  assert (E2 : csum (map (fun i => cmul (cconj (H i)) (cmul (ofR c) (S i))) l) = cmul (ofR c) (csum (map (fun i => cmul (cconj (H i)) (S i)) l))).
  { rewrite <- csum_mul_l. apply csum_ext. intros i _. cring. }
  assert (E3 : csum (map (fun i => csum (map (fun j => cmul (cmul (cconj (H j)) (H i)) (cmul (ofR c) (T j i))) l)) l)
             = cmul (ofR c) (csum (map (fun i => csum (map (fun j => cmul (cmul (cconj (H j)) (H i)) (T j i)) l)) l))).
  { rewrite <- csum_mul_l. apply csum_ext. intros i _. rewrite <- csum_mul_l. apply csum_ext. intros j _. cring. }
  rewrite E1, E2, E3. cring.
Qed.
Theorem resid_mean_physical q H segs (c : R) : 0 <= c ->
  let r := resid_expr q H (c * acc_S00 segs) (fun i => cmul (ofR c) (acc_S segs i)) (fun j i => cmul (ofR c) (acc_T segs j i)) in
  0 <= fst r /\ snd r = 0.
Proof.
  intros Hc r. unfold r. rewrite resid_expr_scale, resid_accumulated_is_sum_of_squares.
  unfold cmul, ofR. cbn [fst snd]. pose proof (sum_sq_nonneg q H segs). split; [nra|ring].
Qed.

(* exact static combination: every Y_k = sum_i conj(H_i) X_ik  gives a zero residual *)
Theorem resid_exact_combination_zero q H segs : (forall X Y, In (X, Y) segs -> Y = model_out q H X) ->
  resid_expr q H (acc_S00 segs) (acc_S segs) (acc_T segs) = czero.
Proof.
  intros Hex. rewrite resid_accumulated_is_sum_of_squares. unfold ofR, czero. f_equal.
  induction segs as [|[X Y] r IH]; cbn [sum_sq]; [reflexivity|].
  rewrite IH by (intros X' Y' Hin; apply Hex; right; exact Hin). rewrite (Hex X Y (or_introl eq_refl)).
  unfold cabs2, csub. cbn [fst snd]. ring.
Qed.

(* the two hand-expanded instances of Systems.v are this expression for q = 1, 2 *)
Lemma resid_expr_q1 H X Y : resid_expr 1 (fun _ => H) (cabs2 Y) (fun _ => S_i0 X Y) (fun _ _ => T_ij X X) = resid1 H X Y.
Proof. unfold resid_expr, csumf, csum, resid1. cbn [seq map fold_right]. cring. Qed.
Lemma resid_expr_q2 H1 H2 X1 X2 Y :
  let H := fun i => match i with O => H1 | _ => H2 end in let X := fun i => match i with O => X1 | _ => X2 end in
  resid_expr 2 H (cabs2 Y) (fun i => S_i0 (X i) Y) (fun j i => T_ij (X j) (X i)) = resid2 H1 H2 X1 X2 Y.
Proof. intros H X. unfold resid_expr, csumf, csum, resid2, H, X. cbn [seq map fold_right]. cring. Qed.

(* order of the inputs: the model output, hence the residual, is a sum over the inputs in any order *)
Lemma csum_perm (l l' : list C) : Permutation l l' -> csum l = csum l'.
Proof.
  induction 1 as [|a l l' _ IH|a b l|l l' l'' _ IH1 _ IH2]; [reflexivity| | |congruence].
  - rewrite !csum_cons, IH. reflexivity.
  - rewrite !csum_cons. cring.
Qed.
Theorem model_out_order_independent q H X (order : list nat) : Permutation (seq 0 q) order ->
  csum (map (fun i => cmul (cconj (H i)) (X i)) order) = model_out q H X.
Proof. intros P. unfold model_out, csumf. symmetry. apply csum_perm. apply Permutation_map. exact P. Qed.

(* ---- at a solution of the code's linear system  sum_j T_ij H_j = S_i0  (the normal equations) ---- *)
Lemma csum_swap (a : nat -> nat -> C) (l l' : list nat) :
  csum (map (fun i => csum (map (fun j => a i j) l')) l) = csum (map (fun j => csum (map (fun i => a i j) l)) l').
Proof.
  induction l as [|i l IH]; cbn [map].
  - induction l' as [|j l' IH']; [reflexivity|]. cbn [map]. rewrite csum_cons, <- IH'. cring.
  - rewrite csum_cons, IH. rewrite <- csum_add. apply csum_ext. intros j _. rewrite csum_cons. reflexivity.
Qed.
Lemma resid_expr_ext q H a S S' T T' : (forall i, S i = S' i) -> (forall j i, T j i = T' j i) ->
  resid_expr q H a S T = resid_expr q H a S' T'.
Proof.
  intros HS HT. unfold resid_expr, csumf. set (l := seq 0 q).
  rewrite (csum_ext (fun i => cmul (H i) (cconj (S i))) (fun i => cmul (H i) (cconj (S' i))) l) by (intros i _; rewrite HS; reflexivity).
  rewrite (csum_ext (fun i => cmul (cconj (H i)) (S i)) (fun i => cmul (cconj (H i)) (S' i)) l) by (intros i _; rewrite HS; reflexivity).
  rewrite (csum_ext (fun i => csum (map (fun j => cmul (cmul (cconj (H j)) (H i)) (T j i)) l))
                    (fun i => csum (map (fun j => cmul (cmul (cconj (H j)) (H i)) (T' j i)) l)) l)
    by (intros i _; apply csum_ext; intros j _; rewrite HT; reflexivity).
  reflexivity.
Qed.
Definition zeroY (segs : list ((nat -> C) * C)) : list ((nat -> C) * C) := map (fun s => (fst s, czero)) segs.
Fixpoint sum_model_sq (q : nat) (H : nat -> C) (segs : list ((nat -> C) * C)) : R :=
  match segs with [] => 0 | (X, Y) :: r => cabs2 (model_out q H X) + sum_model_sq q H r end.
Lemma sum_model_sq_nonneg q H segs : 0 <= sum_model_sq q H segs.
Proof. induction segs as [|[X Y] r IH]; cbn [sum_model_sq]; [lra|]. unfold cabs2. nra. Qed.

Lemma zeroY_S segs i : acc_S (zeroY segs) i = czero.
Proof. induction segs as [|[X Y] r IH]; [reflexivity|]. cbn [zeroY map acc_S fst]. fold (zeroY r). rewrite IH. cring. Qed.
Lemma zeroY_T segs j i : acc_T (zeroY segs) j i = acc_T segs j i.
Proof. induction segs as [|[X Y] r IH]; [reflexivity|]. cbn [zeroY map acc_T fst]. fold (zeroY r). rewrite IH. reflexivity. Qed.
Lemma zeroY_S00 segs : acc_S00 (zeroY segs) = 0.
Proof. induction segs as [|[X Y] r IH]; [reflexivity|]. cbn [zeroY map acc_S00 fst]. fold (zeroY r). rewrite IH. unfold cabs2, czero. cbn. ring. Qed.
Lemma zeroY_sq q H segs : sum_sq q H (zeroY segs) = sum_model_sq q H segs.
Proof.
  induction segs as [|[X Y] r IH]; [reflexivity|]. cbn [zeroY map sum_sq sum_model_sq fst]. fold (zeroY r). rewrite IH. f_equal.
  unfold cabs2, csub, czero. cbn [fst snd]. ring.
Qed.
Lemma Sum3_is_model_power q H segs :
  csumf (fun i => csumf (fun j => cmul (cmul (cconj (H j)) (H i)) (acc_T segs j i)) q) q = ofR (sum_model_sq q H segs).
Proof.
  pose proof (resid_accumulated_is_sum_of_squares q H (zeroY segs)) as E.
  rewrite (resid_expr_ext q H _ _ (fun _ => czero) _ (acc_T segs) (zeroY_S segs) (zeroY_T segs)), zeroY_S00, zeroY_sq in E.
  rewrite <- E. unfold resid_expr, csumf. set (l := seq 0 q).
  assert (Z : forall f : nat -> C, (forall i, f i = czero) -> csum (map f l) = czero).
  { intros f Hf. induction l as [|i l IH]; [reflexivity|]. cbn [map]. rewrite csum_cons, Hf, IH. cring. }
  rewrite (Z (fun i => cmul (H i) (cconj czero))) by (intros; cring).
  rewrite (Z (fun i => cmul (cconj (H i)) czero)) by (intros; cring).
  cring.
Qed.

Theorem resid_at_solution q H segs :
  (forall i, (i < q)%nat -> csumf (fun j => cmul (acc_T segs i j) (H j)) q = acc_S segs i) ->
  resid_expr q H (acc_S00 segs) (acc_S segs) (acc_T segs) = ofR (acc_S00 segs - sum_model_sq q H segs)
  /\ 0 <= acc_S00 segs - sum_model_sq q H segs <= acc_S00 segs.
Proof.
  intros Hsol.
  assert (E32 : csumf (fun i => csumf (fun j => cmul (cmul (cconj (H j)) (H i)) (acc_T segs j i)) q) q
              = csumf (fun j => cmul (cconj (H j)) (acc_S segs j)) q).
  { unfold csumf. rewrite csum_swap. apply csum_ext. intros j Hj. apply in_seq in Hj.
    rewrite <- (Hsol j) by lia. unfold csumf. rewrite <- csum_mul_l. apply csum_ext. intros i _. cring. }
  assert (E12 : csumf (fun i => cmul (H i) (cconj (acc_S segs i))) q = cconj (csumf (fun j => cmul (cconj (H j)) (acc_S segs j)) q)).
  { unfold csumf. rewrite <- csum_conj. apply csum_ext. intros i _. cring. }
  pose proof (Sum3_is_model_power q H segs) as E3.
  assert (Eq : resid_expr q H (acc_S00 segs) (acc_S segs) (acc_T segs) = ofR (acc_S00 segs - sum_model_sq q H segs)).
  { unfold resid_expr. rewrite E12. rewrite <- E32, E3. cring. }
  split; [exact Eq|].
  pose proof (resid_accumulated_is_sum_of_squares q H segs) as Esq. rewrite Eq in Esq.
  assert (E : acc_S00 segs - sum_model_sq q H segs = sum_sq q H segs) by (unfold ofR in Esq; congruence).
  pose proof (sum_sq_nonneg q H segs). pose proof (sum_model_sq_nonneg q H segs). lra.
Qed.

(* ---- optimality: a solution of the normal equations minimises the residual; consequences ---- *)
Definition Qform (q : nat) (A B : nat -> C) (T : nat -> nat -> C) : C :=
  csumf (fun i => csumf (fun j => cmul (cmul (cconj (A j)) (B i)) (T j i)) q) q.
Lemma Qform_add_both q H D T :
  Qform q (fun i => cadd (H i) (D i)) (fun i => cadd (H i) (D i)) T
  = cadd (cadd (Qform q H H T) (Qform q H D T)) (cadd (Qform q D H T) (Qform q D D T)).
Proof.
  unfold Qform, csumf. set (l := seq 0 q). rewrite <- !csum_add. apply csum_ext. intros i _.
  rewrite <- !csum_add. apply csum_ext. intros j _. cring.
Qed.
Lemma resid_expr_shift q H D S00 S T :
  (forall i j, T j i = cconj (T i j)) ->
  (forall i, (i < q)%nat -> csumf (fun j => cmul (T i j) (H j)) q = S i) ->
  resid_expr q (fun i => cadd (H i) (D i)) S00 S T = cadd (resid_expr q H S00 S T) (Qform q D D T).
Proof.
  intros Hherm Hsol. unfold resid_expr. fold (Qform q (fun i => cadd (H i) (D i)) (fun i => cadd (H i) (D i)) T). fold (Qform q H H T).
  rewrite Qform_add_both.
  assert (EDH : Qform q D H T = csumf (fun j => cmul (cconj (D j)) (S j)) q).
  { unfold Qform, csumf. rewrite csum_swap. apply csum_ext. intros j Hj. apply in_seq in Hj.
    rewrite <- (Hsol j) by lia. unfold csumf. rewrite <- csum_mul_l. apply csum_ext. intros i _. cring. }
  assert (EHD : Qform q H D T = csumf (fun i => cmul (D i) (cconj (S i))) q).
  { unfold Qform, csumf. apply csum_ext. intros i Hi. apply in_seq in Hi.
    rewrite <- (Hsol i) by lia. unfold csumf. rewrite <- csum_conj, <- csum_mul_l. apply csum_ext. intros j _.
    rewrite (Hherm i j). cring. }
  assert (E1 : csumf (fun i => cmul (cadd (H i) (D i)) (cconj (S i))) q
             = cadd (csumf (fun i => cmul (H i) (cconj (S i))) q) (csumf (fun i => cmul (D i) (cconj (S i))) q)).
  { unfold csumf. rewrite <- csum_add. apply csum_ext. intros i _. cring. }
  assert (E2 : csumf (fun i => cmul (cconj (cadd (H i) (D i))) (S i)) q
             = cadd (csumf (fun i => cmul (cconj (H i)) (S i)) q) (csumf (fun i => cmul (cconj (D i)) (S i)) q)).
  { unfold csumf. rewrite <- csum_add. apply csum_ext. intros i _. cring. }
  rewrite E1, E2, EDH, EHD. cring.
Qed.
Lemma acc_T_hermitian segs i j : acc_T segs j i = cconj (acc_T segs i j).
Proof. induction segs as [|[X Y] r IH]; [cbn [acc_T]; cring|]. cbn [acc_T]. rewrite IH. cring. Qed.

Definition csubf (A B : nat -> C) : nat -> C := fun i => csub (A i) (B i).
Theorem solution_minimises_residual q Hs H segs :
  (forall i, (i < q)%nat -> csumf (fun j => cmul (acc_T segs i j) (Hs j)) q = acc_S segs i) ->
  sum_sq q H segs = sum_sq q Hs segs + sum_model_sq q (csubf H Hs) segs.
Proof.
  intros Hsol.
  pose proof (resid_expr_shift q Hs (csubf H Hs) (acc_S00 segs) (acc_S segs) (acc_T segs) (acc_T_hermitian segs) Hsol) as E.
  unfold Qform in E. rewrite Sum3_is_model_power in E. rewrite (resid_accumulated_is_sum_of_squares q Hs segs) in E.
  assert (EH : resid_expr q (fun i => cadd (Hs i) (csubf H Hs i)) (acc_S00 segs) (acc_S segs) (acc_T segs)
             = resid_expr q H (acc_S00 segs) (acc_S segs) (acc_T segs)).
  { unfold resid_expr, csumf. set (l := seq 0 q).
    rewrite (csum_ext (fun i => cmul (cadd (Hs i) (csubf H Hs i)) (cconj (acc_S segs i))) (fun i => cmul (H i) (cconj (acc_S segs i))) l)
      by (intros i _; unfold csubf; cring).
    rewrite (csum_ext (fun i => cmul (cconj (cadd (Hs i) (csubf H Hs i))) (acc_S segs i)) (fun i => cmul (cconj (H i)) (acc_S segs i)) l)
      by (intros i _; unfold csubf; cring).
    rewrite (csum_ext (fun i => csum (map (fun j => cmul (cmul (cconj (cadd (Hs j) (csubf H Hs j))) (cadd (Hs i) (csubf H Hs i))) (acc_T segs j i)) l))
                      (fun i => csum (map (fun j => cmul (cmul (cconj (H j)) (H i)) (acc_T segs j i)) l)) l)
      by (intros i _; apply csum_ext; intros j _; unfold csubf; cring).
    reflexivity. }
  rewrite EH, (resid_accumulated_is_sum_of_squares q H segs) in E. unfold ofR, cadd in E. cbn [fst snd] in E. congruence.
Qed.
Corollary solution_is_optimal q Hs H segs :
  (forall i, (i < q)%nat -> csumf (fun j => cmul (acc_T segs i j) (Hs j)) q = acc_S segs i) ->
  sum_sq q Hs segs <= sum_sq q H segs.
Proof. intros Hsol. rewrite (solution_minimises_residual q Hs H segs Hsol). pose proof (sum_model_sq_nonneg q (csubf H Hs) segs). lra. Qed.
(* any two solutions (analytic or numeric solver, pinv or solve, singular systems included) give the same residual *)
Corollary residual_same_for_all_solutions q H1 H2 segs :
  (forall i, (i < q)%nat -> csumf (fun j => cmul (acc_T segs i j) (H1 j)) q = acc_S segs i) ->
  (forall i, (i < q)%nat -> csumf (fun j => cmul (acc_T segs i j) (H2 j)) q = acc_S segs i) ->
  resid_expr q H1 (acc_S00 segs) (acc_S segs) (acc_T segs) = resid_expr q H2 (acc_S00 segs) (acc_S segs) (acc_T segs).
Proof.
  intros S1 S2. rewrite !resid_accumulated_is_sum_of_squares. f_equal.
  pose proof (solution_is_optimal q H1 H2 segs S1). pose proof (solution_is_optimal q H2 H1 segs S2). lra.
Qed.

(* ---- invertible re-mixing of the inputs leaves the optimal residual unchanged ---- *)
Definition remix (M : nat -> nat -> C) (q : nat) (X : nat -> C) : nat -> C := fun i => csumf (fun m => cmul (M i m) (X m)) q.
Definition remix_segs (M : nat -> nat -> C) (q : nat) (segs : list ((nat -> C) * C)) : list ((nat -> C) * C) :=
  map (fun s => (remix M q (fst s), snd s)) segs.
Definition pullback (M : nat -> nat -> C) (q : nat) (H : nat -> C) : nat -> C := fun m => csumf (fun i => cmul (cconj (M i m)) (H i)) q.

Lemma model_out_remix M q H X : model_out q H (remix M q X) = model_out q (pullback M q H) X.
Proof.
  unfold model_out, remix, pullback, csumf. set (l := seq 0 q).
  transitivity (csum (map (fun i => csum (map (fun m => cmul (cmul (cconj (H i)) (M i m)) (X m)) l)) l)).
  - apply csum_ext. intros i _. rewrite <- csum_mul_l. apply csum_ext. intros m _. cring.
  - rewrite csum_swap. apply csum_ext. intros m _. rewrite <- csum_conj, <- csum_mul_r. apply csum_ext. intros i _. cring.
Qed.
Lemma sum_sq_remix M q H segs : sum_sq q H (remix_segs M q segs) = sum_sq q (pullback M q H) segs.
Proof.
  induction segs as [|[X Y] r IH]; [reflexivity|]. cbn [remix_segs map sum_sq fst snd]. fold (remix_segs M q r).
  rewrite IH, model_out_remix. reflexivity.
Qed.
Lemma model_out_ext q H X X' : (forall i, (i < q)%nat -> X i = X' i) -> model_out q H X = model_out q H X'.
Proof. intros E. unfold model_out, csumf. apply csum_ext. intros i Hi. apply in_seq in Hi. rewrite E by lia. reflexivity. Qed.
Lemma csum_delta (X : nat -> C) (i : nat) (l : list nat) : NoDup l -> In i l ->
  csum (map (fun m => cmul (if Nat.eqb i m then ofR 1 else czero) (X m)) l) = X i.
Proof.
  induction l as [|m l IH]; intros Hl Hin; [destruct Hin|]. inversion Hl as [|? ? Hnotin Hl']; subst. cbn [map]. rewrite csum_cons.
  destruct (Nat.eqb_spec i m) as [->|Hne].
  - assert (Z : csum (map (fun m0 => cmul (if Nat.eqb m m0 then ofR 1 else czero) (X m0)) l) = czero).
    { clear IH Hl Hin Hl'. induction l as [|k l IH]; [reflexivity|]. cbn [map]. rewrite csum_cons.
      destruct (Nat.eqb_spec m k) as [->|]; [exfalso; apply Hnotin; left; reflexivity|].
      rewrite IH by (intros Hk; apply Hnotin; right; exact Hk). cring. }
    rewrite Z. cring.
  - destruct Hin as [->|Hin]; [congruence|]. rewrite IH by assumption. cring.
Qed.
Lemma remix_inverse M N q X i : (i < q)%nat ->
  (forall a b, (a < q)%nat -> (b < q)%nat -> csumf (fun j => cmul (N a j) (M j b)) q = if Nat.eqb a b then ofR 1 else czero) ->
  remix N q (remix M q X) i = X i.
Proof.
  intros Hi Hinv. unfold remix, csumf. set (l := seq 0 q).
  transitivity (csum (map (fun j => csum (map (fun m => cmul (cmul (N i j) (M j m)) (X m)) l)) l)).
  - apply csum_ext. intros j _. rewrite <- csum_mul_l. apply csum_ext. intros m _. cring.
  - rewrite csum_swap. rewrite <- (csum_delta X i l) by (try apply seq_NoDup; apply in_seq; lia).
    apply csum_ext. intros m Hm. apply in_seq in Hm. rewrite <- (Hinv i m) by lia. unfold csumf. fold l.
    rewrite <- csum_mul_r. reflexivity.
Qed.
Lemma sum_sq_ext q H segs segs' :
  Forall2 (fun s s' => snd s = snd s' /\ forall i, (i < q)%nat -> fst s i = fst s' i) segs segs' -> sum_sq q H segs = sum_sq q H segs'.
Proof.
  induction 1 as [|[X Y] [X' Y'] r r' [EY EX] _ IH]; [reflexivity|]. cbn [sum_sq fst snd] in *. subst Y'.
  rewrite IH, (model_out_ext q H X X' EX). reflexivity.
Qed.

Theorem remix_invariant q M N Hs Hs' segs :
  (forall a b, (a < q)%nat -> (b < q)%nat -> csumf (fun j => cmul (N a j) (M j b)) q = if Nat.eqb a b then ofR 1 else czero) ->
  (forall i, (i < q)%nat -> csumf (fun j => cmul (acc_T segs i j) (Hs j)) q = acc_S segs i) ->
  (forall i, (i < q)%nat -> csumf (fun j => cmul (acc_T (remix_segs M q segs) i j) (Hs' j)) q = acc_S (remix_segs M q segs) i) ->
  resid_expr q Hs' (acc_S00 (remix_segs M q segs)) (acc_S (remix_segs M q segs)) (acc_T (remix_segs M q segs))
  = resid_expr q Hs (acc_S00 segs) (acc_S segs) (acc_T segs).
Proof.
  intros Hinv Hsol Hsol'. rewrite !resid_accumulated_is_sum_of_squares. f_equal. apply Rle_antisym.
  - (* the re-mixed optimum is at least as good as the original optimum pulled through N *)
    pose proof (solution_is_optimal q Hs' (pullback N q Hs) (remix_segs M q segs) Hsol') as Hle.
    rewrite <- sum_sq_remix in Hle.
    rewrite (sum_sq_ext q Hs (remix_segs N q (remix_segs M q segs)) segs) in Hle; [exact Hle|].
    clear Hsol Hsol' Hle. induction segs as [|[X Y] r IH]; [constructor|]. cbn [remix_segs map fst snd]. constructor; [|exact IH].
    cbn [fst snd]. split; [reflexivity|]. intros i Hi. apply remix_inverse; assumption.
  - pose proof (solution_is_optimal q Hs (pullback M q Hs') segs Hsol) as Hle. rewrite <- sum_sq_remix in Hle. exact Hle.
Qed.

(* non-vacuity: one input, one segment X = 1, Y = 2: H = 2 solves T H = S, residual 0 *)
Example normal_equations_satisfiable :
  let segs := [((fun _ : nat => (1, 0)), (2, 0))] in
  forall i, (i < 1)%nat -> csumf (fun j => cmul (acc_T segs i j) ((fun _ => (2, 0)) j)) 1 = acc_S segs i.
Proof. intros segs i Hi. unfold csumf, csum, segs. cbn [seq map fold_right acc_T acc_S]. cring. Qed.
