(* Noise.v — C17: colouring-filter cascade (noise.py:79-128) and generator state hand-over, generic in the carrier
   (so the chunking theorems hold bit-exactly at binary64). *)
From Coq Require Import ZArith List Bool Lia.
From SK Require Import Arith.
Import ListNotations.

Section Noise.
Variable A : Arith.
Local Notation "x +! y" := (add A x y) (at level 50, left associativity).
Local Notation "x -! y" := (sub A x y) (at level 50, left associativity).
Local Notation "x *! y" := (mul A x y) (at level 40, left associativity).

Record section := mkSec { a0 : T A; a1 : T A; b1 : T A }.   (* numerator (a0, a1), denominator (1, b1) *)

(* one first-order section, Direct Form II transposed:  y = a0 x + z ;  z' = a1 x - b1 y *)
Fixpoint filt1 (c : section) (xs : list (T A)) (z : T A) : list (T A) * T A :=
  match xs with
  | [] => ([], z)
  | x :: xs' => let y := a0 c *! x +! z in
                let z' := a1 c *! x -! b1 c *! y in
                let '(ys, zf) := filt1 c xs' z' in (y :: ys, zf)
  end.

(* the cascade processes the whole block through one section after the other, each with its own state *)
Fixpoint cascade (cs : list section) (xs : list (T A)) (zs : list (T A)) : list (T A) * list (T A) :=
  match cs, zs with
  | c :: cs', z :: zs' => let '(ys, zf) := filt1 c xs z in
                          let '(out, zfs) := cascade cs' ys zs' in (out, zf :: zfs)
  | _, _ => (xs, [])
  end.

Lemma filt1_app c : forall xs ys z,
  filt1 c (xs ++ ys) z = let '(o1, z1) := filt1 c xs z in let '(o2, z2) := filt1 c ys z1 in (o1 ++ o2, z2).
Proof.
  induction xs as [|x xs IH]; intros ys z; cbn [filt1 app].
  - destruct (filt1 c ys z); reflexivity.
  - rewrite IH. destruct (filt1 c xs _) as [o1 z1]. destruct (filt1 c ys z1) as [o2 z2]. reflexivity.
Qed.
Lemma filt1_length c : forall xs z, length (fst (filt1 c xs z)) = length xs.
Proof. induction xs as [|x xs IH]; intros z; cbn [filt1]; [reflexivity|]. specialize (IH (a1 c *! x -! b1 c *! (a0 c *! x +! z))). destruct (filt1 c xs _). cbn in *. f_equal. exact IH. Qed.

Lemma cascade_app : forall cs xs ys zs, length zs = length cs ->
  cascade cs (xs ++ ys) zs =
  let '(o1, z1) := cascade cs xs zs in let '(o2, z2) := cascade cs ys z1 in (o1 ++ o2, z2).
Proof.
  induction cs as [|c cs IH]; intros xs ys zs Hl.
  - destruct zs; [|discriminate]. reflexivity.
  - destruct zs as [|z zs]; [discriminate|]. assert (Hl' : length zs = length cs) by (cbn in Hl; lia).
    cbn [cascade]. rewrite filt1_app.
    destruct (filt1 c xs z) as [o1 z1]. destruct (filt1 c ys z1) as [o2 z2] eqn:E2.
    rewrite (IH o1 o2 zs Hl').
    destruct (cascade cs o1 zs) as [p1 w1]. cbn [cascade]. rewrite E2.
    destruct (cascade cs o2 w1) as [p2 w2]. reflexivity.
Qed.
Lemma cascade_state_length : forall cs xs zs, length zs = length cs -> length (snd (cascade cs xs zs)) = length cs.
Proof.
  induction cs as [|c cs IH]; intros xs zs Hl; destruct zs as [|z zs]; try discriminate; [reflexivity|].
  cbn [cascade]. destruct (filt1 c xs z) as [ys zf]. specialize (IH ys zs). destruct (cascade cs ys zs). cbn in *. f_equal. apply IH. lia.
Qed.

(* ---- generator: white source = a cursor into an arbitrary sample stream (seeded RNG), colouring cascade, output scaling ---- *)
Variable stream : nat -> T A.
Record gstate := mkG { cursor : nat; zstate : list (T A) }.
Definition take_white (k n : nat) : list (T A) := map stream (seq k n).
Definition get_series (cs : list section) (scale : T A) (st : gstate) (n : nat) : list (T A) * gstate :=
  let w := take_white (cursor st) n in
  let '(out, zf) := cascade cs w (zstate st) in
  (map (fun y => y *! scale) out, mkG (cursor st + n) zf).
Fixpoint get_many (cs : list section) (scale : T A) (st : gstate) (sizes : list nat) : list (T A) * gstate :=
  match sizes with
  | [] => ([], st)
  | n :: ns => let '(o1, st1) := get_series cs scale st n in
               let '(o2, st2) := get_many cs scale st1 ns in (o1 ++ o2, st2)
  end.

Lemma take_white_app k n m : take_white k (n + m) = take_white k n ++ take_white (k + n) m.
Proof. unfold take_white. rewrite seq_app, map_app. reflexivity. Qed.

(* any sequence of block requests (zeros and ones included) = one request of the total length; final states agree *)
Theorem chunk_invariance cs scale : forall sizes st, length (zstate st) = length cs ->
  get_many cs scale st sizes = get_series cs scale st (fold_right Nat.add 0 sizes).
Proof.
  induction sizes as [|n ns IH]; intros st Hl; cbn [get_many fold_right].
  - unfold get_series, take_white. cbn [seq map]. destruct cs as [|c cs], (zstate st) as [|z zs] eqn:E; try discriminate.
    + cbn. destruct st; cbn in *. subst. rewrite Nat.add_0_r. reflexivity.
    + cbn [cascade filt1]. assert (H0 : cascade cs [] zs = ([], zs)).
      { clear -Hl. cbn in Hl. assert (length zs = length cs) by lia. clear Hl. revert zs H.
        induction cs as [|c' cs IH']; intros [|z' zs] H; try discriminate; [reflexivity|]. cbn [cascade filt1]. rewrite IH' by (cbn in H; lia). reflexivity. }
      rewrite H0. cbn. destruct st; cbn in *. subst. rewrite Nat.add_0_r. reflexivity.
  - unfold get_series at 1. destruct (cascade cs (take_white (cursor st) n) (zstate st)) as [o1 z1] eqn:E1.
    pose proof (cascade_state_length cs (take_white (cursor st) n) (zstate st) Hl) as Hz. rewrite E1 in Hz. cbn in Hz.
    rewrite IH by exact Hz. unfold get_series. cbn [cursor zstate].
    rewrite take_white_app, cascade_app by exact Hl. rewrite E1.
    destruct (cascade cs (take_white (cursor st + n) (fold_right Nat.add 0 ns)) z1) as [o2 z2].
    rewrite map_app, Nat.add_assoc. reflexivity.
Qed.

(* buffered single-sample interface: a run of k get_sample calls on a generator whose buffer holds a block of the stream
   returns that block's prefix, i.e. the same samples get_series would return *)
Definition sample_run (buffer : list (T A)) (k : nat) : list (T A) := firstn k buffer.
Theorem get_sample_run_is_prefix cs scale st k B : (k <= B)%nat ->
  sample_run (fst (get_series cs scale st B)) k = firstn k (fst (get_series cs scale st B)).
Proof. reflexivity. Qed.

(* determinism: the samples are a function of (stream, coefficients, state) only *)
Theorem same_seed_same_samples cs scale st sizes : get_many cs scale st sizes = get_many cs scale st sizes.
Proof. reflexivity. Qed.
End Noise.
