(* KernelThms2.v — C07 (gain/sign) and C08 (detrending) facts at the reals, about the reference of Kernels.v
   (to which the regenerated kernels are proved equal in GenRef.v). *)
From Coq Require Import ZArith List Bool Reals Lra Lia Psatz.
From SK Require Import Arith KernelPrims Kernels KernelThms.
Import ListNotations.
Open Scope R_scope.

(* ---- linearity of the windowed DFT in the sample function ---- *)
Lemma dft_def_scale w g (v : Z -> R) L :
  dft_def w (fun n => g * v n) L = (g * fst (dft_def w v L), g * snd (dft_def w v L)).
Proof.
  unfold dft_def. generalize (seq 0 (Z.to_nat L)) as l.
  assert (H : forall l a b, fold_left (dft_step w (fun n => g * v n)) l (g * a, g * b) =
              (g * fst (fold_left (dft_step w v) l (a, b)), g * snd (fold_left (dft_step w v) l (a, b)))).
  { induction l as [|n l IH]; intros a b; cbn [fold_left fst snd]; [reflexivity|].
    assert (E : dft_step w (fun n0 => g * v n0) (g * a, g * b) n =
                (g * fst (dft_step w v (a, b) n), g * snd (dft_step w v (a, b) n))).
    { unfold dft_step. cbn [fst snd]. f_equal; ring. }
    rewrite E. rewrite IH. destruct (dft_step w v (a, b) n); reflexivity. }
  intros l. specialize (H l 0 0). rewrite !Rmult_0_r in H. exact H.
Qed.

(* second channel = g * first channel (per segment): XY = g XX (real), YY = g^2 XX *)
Lemma pw_csd_gain (g : R) (X : R * R) :
  pw_csd RA X (g * fst X, g * snd X) =
  (fst X * fst X + snd X * snd X, g * g * (fst X * fst X + snd X * snd X), g * (fst X * fst X + snd X * snd X), 0).
Proof. destruct X as [a b]. unfold pw_csd. cbn [fst snd add sub mul RA]. apply pair4_eq; ring. Qed.

(* X conj(Y) is what the cross statistic holds: the sign convention, once, for every backend *)
Lemma pw_csd_is_X_conjY (X Y : R * R) :
  let '(_, _, re, im) := pw_csd RA X Y in
  (re, im) = (fst X * fst Y + snd X * snd Y, snd X * fst Y - fst X * snd Y).
Proof. destruct X, Y. reflexivity. Qed.

(* a pure delay on a single-frequency signal: Y = e^{-i w d} X  =>  conj(X) Y = |X|^2 e^{-i w d} (negative phase for a lag) *)
Lemma delayed_phasor (X : R * R) (th : R) :
  let Y := (fst X * cos th + snd X * sin th, snd X * cos th - fst X * sin th) in   (* Y = X e^{-i th} *)
  let '(_, _, re, im) := pw_csd RA X Y in
  (re, - im) = ((fst X * fst X + snd X * snd X) * cos th, - ((fst X * fst X + snd X * snd X) * sin th)).
Proof. destruct X as [a b]. cbn [pw_csd fst snd add sub mul RA]. f_equal; ring. Qed.

(* ---- C08: order-0 detrending removes a constant offset exactly ---- *)
Lemma fold_sum_acc (f : nat -> R) (l : list nat) : forall a c,
  fold_left (fun m n_ => m + f n_) l (a + c) = fold_left (fun m n_ => m + f n_) l a + c.
Proof.
  induction l as [|n l IH]; intros a c; cbn [fold_left]; [reflexivity|].
  replace (a + c + f n) with (a + f n + c) by ring. apply IH.
Qed.
Lemma fold_sum_shift (f g : nat -> R) (c : R) (l : list nat) : (forall n, In n l -> g n = f n + c) ->
  forall a, fold_left (fun m n_ => m + g n_) l a = fold_left (fun m n_ => m + f n_) l a + INR (length l) * c.
Proof.
  induction l as [|n l IH]; intros H a; cbn [fold_left length]; [cbn; ring|].
  rewrite IH by (intros k Hk; apply H; right; exact Hk). rewrite H by (left; reflexivity).
  replace (a + (f n + c)) with (a + f n + c) by ring. rewrite fold_sum_acc. rewrite S_INR. ring.
Qed.

Theorem seg_mean_offset (x x' : list R) (c : R) (s L : Z) : (1 <= L)%Z ->
  (forall n, (0 <= n < L)%Z -> nthT RA x' (s + n) = nthT RA x (s + n) + c) ->
  seg_mean RA x' s L = seg_mean RA x s L + c.
Proof.
  intros HL H. unfold seg_mean. cbn [add div ofZ RA].
  rewrite (fold_sum_shift (fun n_ => nthT RA x (s + Z.of_nat n_)) (fun n_ => nthT RA x' (s + Z.of_nat n_)) c).
  - rewrite seq_length. rewrite INR_IZR_INZ, Z2Nat.id by lia.
    assert (0 < IZR L) by (apply IZR_lt; lia). simpl T in *. field. lra.
  - intros n Hin. apply in_seq in Hin. apply H. lia.
Qed.

Theorem detrend0_kills_constants (x x' w : list R) (c : R) (s L : Z) : (1 <= L)%Z ->
  (forall n, (0 <= n < L)%Z -> nthT RA x' (s + n) = nthT RA x (s + n) + c) ->
  forall n, (0 <= n < L)%Z -> samp_mean0 RA x' w L s n = samp_mean0 RA x w L s n.
Proof.
  intros HL H n Hn. unfold samp_mean0. rewrite (seg_mean_offset x x' c s L HL H). rewrite H by exact Hn.
  cbn [sub mul RA]. simpl T in *. ring.
Qed.

(* the per-segment Goertzel value only depends on the samples inside the segment *)
Lemma goertzel_idx_ext (coeff : R) (v v' : Z -> R) (L : Z) :
  (forall n, (0 <= n < L)%Z -> v' n = v n) -> goertzel_idx RA coeff v' L = goertzel_idx RA coeff v L.
Proof.
  intros H. unfold goertzel_idx.
  assert (G : forall l a, (forall n_, In n_ l -> (Z.of_nat n_ < L)%Z) ->
              fold_left (fun st n_ => gstep3 RA coeff st (v' (Z.of_nat n_))) l a = fold_left (fun st n_ => gstep3 RA coeff st (v (Z.of_nat n_))) l a).
  { induction l as [|k l IH]; intros a Hl; cbn [fold_left]; [reflexivity|].
    rewrite H by (split; [lia|apply Hl; left; reflexivity]). apply IH. intros m Hm. apply Hl. right. exact Hm. }
  apply G. intros n_ Hin. apply in_seq in Hin. lia.
Qed.

Theorem stats_invariant_under_offset (cosw sinw : R) (x x' w : list R) (c : R) (starts : list Z) (L : Z) : (1 <= L)%Z ->
  (forall s n, In s starts -> (0 <= n < L)%Z -> nthT RA x' (s + n) = nthT RA x (s + n) + c) ->
  ref_auto RA cosw sinw (samp_mean0 RA x' w L) starts L = ref_auto RA cosw sinw (samp_mean0 RA x w L) starts L.
Proof.
  intros HL H. unfold ref_auto. f_equal. apply map_ext_in. intros s Hs. unfold ref_bin. f_equal. f_equal.
  apply goertzel_idx_ext. intros n Hn. apply (detrend0_kills_constants x x' w c s L HL); [intros k Hk; apply H; assumption|exact Hn].
Qed.

(* order -1: no detrending at all — the sample function is the raw windowed sample (by definition) *)
Theorem order_m1_is_raw (x w : list R) s n : samp_win RA x w s n = nthT RA x (s + n) * nthT RA w n.
Proof. reflexivity. Qed.
