(* Interp.v — C20: get_measurement = np.interp on the result's frequency grid (real and imaginary parts separately):
   tabulated value at a grid frequency, affine in between, boundary values outside. Generic in the carrier. *)
From Coq Require Import ZArith List Bool Reals Lra Lia.
From SK Require Import Arith.
Import ListNotations.

Section Interp.
Variable A : Arith.
(* np.interp(x, xp, fp) for increasing xp (left/right = boundary values) *)
Fixpoint interp_go (x : T A) (pts : list (T A * T A)) : T A :=
  match pts with
  | [] => zero A
  | [(_, y0)] => y0
  | (x0, y0) :: (((x1, y1) :: _) as tl) =>
      if ltb A x x1 then add A (mul A (div A (sub A y1 y0) (sub A x1 x0)) (sub A x x0)) y0
      else interp_go x tl
  end.
Definition interp (x : T A) (pts : list (T A * T A)) : T A :=
  match pts with
  | [] => zero A
  | (x0, y0) :: _ => if leb A x x0 then y0 else interp_go x pts
  end.
Definition interp_cpx (x : T A) (xp : list (T A)) (fp : list (T A * T A)) : T A * T A :=
  (interp x (combine xp (map fst fp)), interp x (combine xp (map snd fp))).
End Interp.

Open Scope R_scope.
Fixpoint strictly_increasing (pts : list (R * R)) : Prop :=
  match pts with
  | (x0, _) :: (((x1, _) :: _) as tl) => x0 < x1 /\ strictly_increasing tl
  | _ => True
  end.
Lemma interp_go_cons2 x x0 y0 x1 y1 tl :
  interp_go RA x ((x0, y0) :: (x1, y1) :: tl) =
  if r_ltb x x1 then (y1 - y0) / (x1 - x0) * (x - x0) + y0 else interp_go RA x ((x1, y1) :: tl).
Proof. reflexivity. Qed.

(* clamps: below the first grid frequency the first value, above the last one the last value *)
Theorem interp_below x x0 y0 tl : x <= x0 -> interp RA x ((x0, y0) :: tl) = y0.
Proof. intros H. unfold interp. cbn [leb RA]. apply r_leb_true in H. rewrite H. reflexivity. Qed.
Lemma interp_go_above : forall pts x d, strictly_increasing pts -> pts <> [] -> fst (last pts d) <= x -> interp_go RA x pts = snd (last pts d).
Proof.
  induction pts as [|[x0 y0] tl IH]; intros x d Hs Hne Hx; [contradiction|].
  destruct tl as [|[x1 y1] tl']; [reflexivity|].
  rewrite interp_go_cons2. cbn [strictly_increasing] in Hs. destruct Hs as [H01 Hs].
  assert (Hx1 : x1 <= x).
  { clear IH. assert (G : forall l a, strictly_increasing (a :: l) -> fst a <= fst (last (a :: l) d)).
    { induction l as [|[b1 b2] l IHl]; intros [a1 a2] Hi; [cbn; lra|]. cbn [strictly_increasing] in Hi. destruct Hi as [H1 H2].
      change (last ((a1, a2) :: (b1, b2) :: l) d) with (last ((b1, b2) :: l) d). specialize (IHl (b1, b2) H2). cbn [fst] in *. lra. }
    specialize (G tl' (x1, y1) Hs). change (last ((x0, y0) :: (x1, y1) :: tl') d) with (last ((x1, y1) :: tl') d) in Hx. cbn [fst] in G. lra. }
  destruct (r_ltb x x1) eqn:E; [apply r_ltb_true in E; lra|].
  change (last ((x0, y0) :: (x1, y1) :: tl') d) with (last ((x1, y1) :: tl') d). apply IH; [exact Hs|discriminate|exact Hx].
Qed.
Theorem interp_above pts x d : strictly_increasing pts -> pts <> [] -> fst (last pts d) <= x -> interp RA x pts = snd (last pts d).
Proof.
  intros Hs Hne Hx. destruct pts as [|[x0 y0] tl]; [contradiction|]. unfold interp. cbn [leb RA].
  destruct (r_leb x x0) eqn:E; [|apply interp_go_above; assumption].
  apply r_leb_true in E. destruct tl as [|[x1 y1] tl']; [reflexivity|exfalso].
  cbn [strictly_increasing] in Hs. destruct Hs as [H01 Hs].
  assert (G : forall l a, strictly_increasing (a :: l) -> fst a <= fst (last (a :: l) d)).
  { induction l as [|[b1 b2] l IHl]; intros [a1 a2] Hi; [cbn; lra|]. cbn [strictly_increasing] in Hi. destruct Hi as [H1 H2].
    change (last ((a1, a2) :: (b1, b2) :: l) d) with (last ((b1, b2) :: l) d). specialize (IHl (b1, b2) H2). cbn [fst] in *. lra. }
  specialize (G tl' (x1, y1) Hs). change (last ((x0, y0) :: (x1, y1) :: tl') d) with (last ((x1, y1) :: tl') d) in Hx. cbn [fst] in G. lra.
Qed.

(* between two consecutive grid frequencies the value is the affine interpolant; at a grid frequency it is the tabulated value *)
Theorem interp_between pre x0 y0 x1 y1 post x : strictly_increasing (pre ++ (x0, y0) :: (x1, y1) :: post) -> x0 <= x < x1 ->
  interp_go RA x (pre ++ (x0, y0) :: (x1, y1) :: post) = (y1 - y0) / (x1 - x0) * (x - x0) + y0.
Proof.
  intros Hs Hx. induction pre as [|[a b] pre IH].
  - cbn [app]. rewrite interp_go_cons2. destruct (r_ltb x x1) eqn:E; [reflexivity|apply r_ltb_false in E; lra].
  - destruct pre as [|[a' b'] pre'].
    + cbn [app] in *. rewrite interp_go_cons2. cbn [strictly_increasing] in Hs. destruct Hs as [H1 Hs].
      destruct (r_ltb x x0) eqn:E; [apply r_ltb_true in E; lra|]. apply IH. exact Hs.
    + cbn [app] in *. rewrite interp_go_cons2. cbn [strictly_increasing] in Hs. destruct Hs as [H1 Hs].
      assert (Ha' : a' <= x0).
      { clear IH H1. revert a' b' Hs. induction pre' as [|[c1 c2] l IHl]; intros a' b' Hs; cbn [app strictly_increasing] in Hs; [lra|].
        destruct Hs as [H2 Hs]. specialize (IHl c1 c2 Hs). lra. }
      destruct (r_ltb x a') eqn:E; [apply r_ltb_true in E; lra|]. apply IH. exact Hs.
Qed.
Lemma incr_mid pre (a b : R * R) post : strictly_increasing (pre ++ a :: b :: post) -> fst a < fst b.
Proof.
  induction pre as [|[p1 p2] pre IH]; intros Hs.
  - destruct a, b. cbn in Hs. cbn. tauto.
  - apply IH. destruct pre as [|[q1 q2] pre']; [destruct a; cbn [app strictly_increasing] in *; tauto|cbn [app strictly_increasing] in *; tauto].
Qed.
Theorem interp_at_grid pre x0 y0 x1 y1 post : strictly_increasing (pre ++ (x0, y0) :: (x1, y1) :: post) ->
  interp_go RA x0 (pre ++ (x0, y0) :: (x1, y1) :: post) = y0.
Proof.
  intros Hs. pose proof (incr_mid pre (x0, y0) (x1, y1) post Hs) as H01. cbn [fst] in H01.
  rewrite (interp_between pre x0 y0 x1 y1 post x0 Hs) by lra. unfold Rdiv. simpl T in *. ring.
Qed.
