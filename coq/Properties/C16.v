(* C16 — fractional time shifting is exact Lagrange interpolation (statements only).
   The textbook-weight identity is proved for every odd order 1..111 (halfp 1..56), every tap and every real fraction
   0 <= d < 1: polynomial identities with integer coefficients decided per order by computation and lifted to the reals. *)
From Coq Require Import ZArith List Reals.
From Flocq Require Import Raux.
From SK Require Import Arith Lagrange LagrangeQ LagrangeAll LagrangeInterp LagrangeShift.
Import ListNotations.
Theorem C16_integer_shift_is_displacement : forall h k, (1 <= h)%Z -> (0 <= k < 2 * h)%Z ->
  tap RA h 0%R k = if (k =? h - 1)%Z then 1%R else 0%R.
Proof. exact taps_at_zero. Qed.
Theorem C16_order1_linear : forall d, taps RA 1 d = [(1 - d)%R; d].
Proof. exact taps_linear. Qed.
Theorem C16_order3_textbook : forall d, (0 <= d < 1)%R ->
  taps RA 2 d = map (fun k => lagrange_weight [(-1)%R; 0%R; 1%R; 2%R] k d) [0; 1; 2; 3]%nat.
Proof. exact taps_cubic_textbook. Qed.
Theorem C16_taps_are_textbook_lagrange : forall (h : Z) (k : nat) (d : R),
  (1 <= h <= 56)%Z -> (k < Z.to_nat (2 * h))%nat -> (0 <= d < 1)%R ->
  tap RA h d (Z.of_nat k) = lagrange_weight (nodesR h) k d.
Proof. exact taps_are_textbook_lagrange. Qed.
(* headline: at every sample whose stencil is interior the shifted record is the value at n+s of the polynomial through the
   surrounding samples — any polynomial with at most 2*halfp coefficients (degree <= order) is reproduced exactly *)
Theorem C16_shift_reproduces_polynomials : forall (h : Z) (q : rpoly) (data : list R) (s : R) (n : nat),
  (1 <= h <= 56)%Z -> (length q <= Z.to_nat (2 * h))%nat ->
  (forall i, (i < length data)%nat -> nth i data 0%R = reval q (IZR (Z.of_nat i))) ->
  (n < length data)%nat ->
  (0 <= Z.of_nat n + Zfloor s - (h - 1))%Z -> (Z.of_nat n + Zfloor s + h <= Z.of_nat (length data) - 1)%Z ->
  nth n (timeshift_const RA data s h) 0%R = reval q (IZR (Z.of_nat n) + s)%R.
Proof. exact timeshift_const_reproduces_polynomials. Qed.
Theorem C16_taps_sum_to_one : forall (h : Z) (d : R), (1 <= h <= 56)%Z -> (0 <= d < 1)%R ->
  fold_left (fun t k => (t + tap RA h d (Z.of_nat k))%R) (seq 0 (Z.to_nat (2 * h))) 0%R = 1%R.
Proof. exact taps_sum_to_one. Qed.
Theorem C16_integer_shift_holds_ends : forall (h : Z) (data : list R) (m : Z) (n : nat),
  (1 <= h)%Z -> (n < length data)%nat ->
  nth n (timeshift_const RA data (IZR m) h) 0%R
  = nth (Z.to_nat (clampZ 0 (Z.of_nat (length data) - 1) (Z.of_nat n + m))) data 0%R.
Proof. exact timeshift_const_integer_shift. Qed.
Theorem C16_zero_shift_is_identity : forall (h : Z) (data : list R), (1 <= h)%Z -> timeshift_const RA data 0%R h = data.
Proof. exact timeshift_const_zero_is_identity. Qed.
(* the time-varying path (clip, zero padding, sliding window) agrees with the constant path wherever the stencil is interior *)
Theorem C16_paths_agree_interior : forall (h : Z) (data shifts : list R) (n : nat),
  (1 <= h)%Z -> (n < length data)%nat ->
  let s := nth n shifts 0%R in
  (0 <= Z.of_nat n + Zfloor s - (h - 1))%Z -> (Z.of_nat n + Zfloor s + h <= Z.of_nat (length data) - 1)%Z ->
  nth n (timeshift_var RA data shifts h) 0%R = nth n (timeshift_const RA data s h) 0%R.
Proof. exact timeshift_paths_agree_interior. Qed.
Theorem C16_variable_shift_reproduces_polynomials : forall (h : Z) (q : rpoly) (data shifts : list R) (n : nat),
  (1 <= h <= 56)%Z -> (length q <= Z.to_nat (2 * h))%nat ->
  (forall i, (i < length data)%nat -> nth i data 0%R = reval q (IZR (Z.of_nat i))) ->
  (n < length data)%nat ->
  let s := nth n shifts 0%R in
  (0 <= Z.of_nat n + Zfloor s - (h - 1))%Z -> (Z.of_nat n + Zfloor s + h <= Z.of_nat (length data) - 1)%Z ->
  nth n (timeshift_var RA data shifts h) 0%R = reval q (IZR (Z.of_nat n) + s)%R.
Proof. exact timeshift_var_reproduces_polynomials. Qed.
Theorem C16_shift_beyond_start_holds_first_value : forall (h : Z) (data : list R) (s : R) (n : nat),
  (1 <= h <= 56)%Z -> (n < length data)%nat -> (Z.of_nat n + Zfloor s + h <= 0)%Z ->
  nth n (timeshift_const RA data s h) 0%R = nth 0 data 0%R.
Proof. exact timeshift_const_beyond_start. Qed.
(* interpolation theory for any distinct real nodes (no bound on their number) *)
Theorem C16_lagrange_reproduces : forall (xs : list R), NoDup xs -> forall (q : rpoly) (x : R), (length q <= length xs)%nat ->
  fold_left (fun t k => (t + reval q (nth k xs 0%R) * lagrange_weight xs k x)%R) (seq 0 (length xs)) 0%R = reval q x.
Proof. exact lagrange_reproduces. Qed.
Print Assumptions C16_integer_shift_is_displacement.
Print Assumptions C16_shift_reproduces_polynomials.
Print Assumptions C16_zero_shift_is_identity.
Print Assumptions C16_taps_are_textbook_lagrange.
Print Assumptions C16_order3_textbook.
Print Assumptions C16_order1_linear.
Print Assumptions C16_taps_sum_to_one.
Print Assumptions C16_integer_shift_holds_ends.
Print Assumptions C16_paths_agree_interior.
Print Assumptions C16_variable_shift_reproduces_polynomials.
Print Assumptions C16_shift_beyond_start_holds_first_value.
Print Assumptions C16_lagrange_reproduces.
