(* C16 — fractional time shifting is exact Lagrange interpolation (statements only).
   The textbook-weight identity is proved for every odd order 1..111 (halfp 1..56), every tap and every real fraction
   0 <= d < 1: polynomial identities with integer coefficients decided per order by computation and lifted to the reals. *)
From Coq Require Import ZArith List Reals.
From SK Require Import Arith Lagrange LagrangeQ LagrangeAll.
Import ListNotations.
Theorem C16_integer_shift_is_displacement : forall h k, (1 <= h)%Z -> (0 <= k < 2 * h)%Z ->
  tap RA h 0%R k = if (k =? h - 1)%Z then 1%R else 0%R.
Proof. exact taps_at_zero. Qed.
Theorem C16_order1_linear : forall d, taps RA 1 d = [(1 - d)%R; d].
Proof. exact taps_linear. Qed.
Theorem C16_order3_textbook : forall d, (0 <= d < 1)%R ->
  taps RA 2 d = map (fun k => lagrange_weight [(-1)%R; 0%R; 1%R; 2%R] k d) [0; 1; 2; 3]%nat.
Proof. exact taps_cubic_textbook. Qed.
Theorem C16_taps_are_textbook_lagrange : forall (h : Z) (k : nat) (d : R),
  (1 <= h <= 56)%Z -> (k < Z.to_nat (2 * h))%nat -> (0 <= d < 1)%R ->
  tap RA h d (Z.of_nat k) = lagrange_weight (nodesR h) k d.
Proof. exact taps_are_textbook_lagrange. Qed.
Print Assumptions C16_integer_shift_is_displacement.
Print Assumptions C16_taps_are_textbook_lagrange.
Print Assumptions C16_order3_textbook.
