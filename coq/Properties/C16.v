(* C16 — fractional time shifting is exact Lagrange interpolation (statements only).
   PARTIAL: textbook-weight identity proved for orders 1 and 3 for every fraction; for the other orders up to 111 the
   exact-rational model is evaluated against the textbook product at 2*halfp+1 fractions per order (supporting test). *)
From Coq Require Import ZArith List Reals.
From SK Require Import Arith Lagrange.
Import ListNotations.
Theorem C16_integer_shift_is_displacement : forall h k, (1 <= h)%Z -> (0 <= k < 2 * h)%Z ->
  tap RA h 0%R k = if (k =? h - 1)%Z then 1%R else 0%R.
Proof. exact taps_at_zero. Qed.
Theorem C16_order1_linear : forall d, taps RA 1 d = [(1 - d)%R; d].
Proof. exact taps_linear. Qed.
Theorem C16_order3_textbook : forall d, (0 <= d < 1)%R ->
  taps RA 2 d = map (fun k => lagrange_weight [(-1)%R; 0%R; 1%R; 2%R] k d) [0; 1; 2; 3]%nat.
Proof. exact taps_cubic_textbook. Qed.
Print Assumptions C16_integer_shift_is_displacement.
Print Assumptions C16_order3_textbook.
