(* C20 — derived result quantities are consistent views of one estimate (statements only; on the GENERATED table) *)
From Coq Require Import ZArith List Bool String Reals.
From SK Require Import Arith Cpx AttrThms Interp.
From SK.gen Require Import AttrsGen.
Section C20.
Variable angle : R * R -> R. Variable unwrap : R -> R.
Notation F := (FR angle unwrap).
Theorem C20_asd_sq_is_psd : forall e : env RA, (0 <= g_psd_auto RA F e)%R -> (g_asd_auto RA F e * g_asd_auto RA F e = g_psd_auto RA F e)%R.
Proof. exact (asd_sq_is_psd angle unwrap). Qed.
Theorem C20_psd_nonneg : forall e : env RA, (0 <= e_XX e)%R -> (0 < e_fs e)%R -> (0 < e_S2 e)%R -> (0 <= g_psd_auto RA F e)%R.
Proof. exact (psd_nonneg angle unwrap). Qed.
Theorem C20_ps_is_psd_ENBW : forall e : env RA, g_ps_auto RA F e = (g_psd_auto RA F e * g_ENBW_auto RA F e)%R.
Proof. exact (ps_is_psd_ENBW angle unwrap). Qed.
Theorem C20_cs_is_csd_ENBW : forall e : env RA, g_cs_csd RA F e = cscale RA (g_ENBW_csd RA F e) (g_csd_csd RA F e).
Proof. exact (cs_is_csd_ENBW angle unwrap). Qed.
Theorem C20_cf_is_abs_Hxy : forall e : env RA, g_cf_csd RA F e = cabs RA sqrt (g_Hxy_csd RA F e).
Proof. exact (cf_is_abs_Hxy angle unwrap). Qed.
Theorem C20_cf_db : forall e : env RA, g_cf_db_csd RA F e = (20 * log10 (g_cf_csd RA F e))%R.
Proof. exact (cf_db_is_20log10 angle unwrap). Qed.
Theorem C20_deg_is_rad : forall e : env RA,
  g_cf_deg_csd RA F e = (g_cf_rad_csd RA F e * (180 / PI))%R /\
  g_cf_deg_unwrapped_csd RA F e = (g_cf_rad_unwrapped_csd RA F e * (180 / PI))%R /\
  g_Hxy_deg_error_csd RA F e = (g_Hxy_rad_error_csd RA F e * (180 / PI))%R.
Proof. intros e. repeat split. Qed.
Theorem C20_conjugates : forall e : env RA,
  g_Gyx_csd RA F e = cconj RA (g_Gxy_csd RA F e) /\ g_Hyx_csd RA F e = cconj RA (g_Hxy_csd RA F e) /\
  g_tf_csd RA F e = g_Hxy_csd RA F e /\ g_csd_csd RA F e = g_Gxy_csd RA F e /\
  g_psd_auto RA F e = g_Gxx_auto RA F e /\ g_G_auto RA F e = g_Gxx_auto RA F e.
Proof. intros e. repeat split. Qed.
Theorem C20_none_table : same_set none_table expected_none = true.
Proof. exact none_table_exact. Qed.
End C20.
(* interpolated measurements: tabulated value at a grid frequency, affine in between, boundary values outside *)
Theorem C20_interp_at_grid : forall pre x0 y0 x1 y1 post, strictly_increasing (pre ++ (x0, y0) :: (x1, y1) :: post) ->
  interp_go RA x0 (pre ++ (x0, y0) :: (x1, y1) :: post) = y0.
Proof. exact interp_at_grid. Qed.
Theorem C20_interp_between : forall pre x0 y0 x1 y1 post x, strictly_increasing (pre ++ (x0, y0) :: (x1, y1) :: post) -> (x0 <= x < x1)%R ->
  interp_go RA x (pre ++ (x0, y0) :: (x1, y1) :: post) = ((y1 - y0) / (x1 - x0) * (x - x0) + y0)%R.
Proof. exact interp_between. Qed.
Theorem C20_interp_clamps : forall pts x d x0 y0 tl,
  ((x <= x0)%R -> interp RA x ((x0, y0) :: tl) = y0) /\
  (strictly_increasing pts -> pts <> nil -> (fst (last pts d) <= x)%R -> interp RA x pts = snd (last pts d)).
Proof. intros. split; [apply interp_below|apply interp_above]. Qed.
Print Assumptions C20_interp_between.
Print Assumptions C20_asd_sq_is_psd.
Print Assumptions C20_none_table.
Print Assumptions C20_conjugates.
Print Assumptions C20_psd_nonneg.
Print Assumptions C20_ps_is_psd_ENBW.
Print Assumptions C20_cs_is_csd_ENBW.
Print Assumptions C20_cf_is_abs_Hxy.
Print Assumptions C20_cf_db.
Print Assumptions C20_deg_is_rad.
Print Assumptions C20_interp_at_grid.
Print Assumptions C20_interp_clamps.
