(* C03 — the frequency grid obeys the DFT and stepping constraints (statements only) *)
From Coq Require Import ZArith List Reals.
From SK Require Import Arith Sched SchedThms NewLtf.
Import ListNotations.

(* For ANY arithmetic carrier (so bit-exactly at binary64): f[j+1] = f[j] + r[j] starting at fmin,
   r = fs / L as computed, b = f / r as computed, every f below fmax.  Iterative and vectorised schedulers. *)
Theorem C03_ltf_grid_structural : forall (A : Arith) ph fuel (c : cfg A) fi bs,
  ltf_loop A ph fuel c fi = Ok bs -> chain A fi bs /\ Forall (bin_dft A c) bs.
Proof. exact ltf_loop_struct. Qed.
Print Assumptions C03_ltf_grid_structural.

Theorem C03_vec_grid_structural : forall (A : Arith) sq fuel (c : cfg A) grid f bs,
  vec_walk A sq fuel c grid f = Ok bs -> chain A f bs /\ Forall (bin_dft A c) bs.
Proof. exact vec_walk_struct. Qed.
Print Assumptions C03_vec_grid_structural.

Theorem C03_new_ltf_grid_structural : forall (A : Arith) ph ex lg fuel (c : cfg A) J st fi bs,
  new_loop A ph ex lg fuel c J st fi = Ok bs -> chain A fi bs /\ Forall (bin_dft A c) bs.
Proof. exact new_loop_struct. Qed.
Print Assumptions C03_new_ltf_grid_structural.

(* At the reals: r*L = fs exactly, grid starts at bmin*fs/N, strictly increasing, below Nyquist,
   b = f*L/fs, and b >= bmin - f/(2 fs) (the half-sample rounding of L). *)
Theorem C03_ltf_grid_real : forall ph fuel (c : cfg RA) bs, admissible c -> ltf_bins RA ph fuel c = Ok bs ->
  chain RA (fmin RA c) bs /\ fmin RA c = (cbmin c * cfs c / IZR (cN c))%R /\
  increasing_from (fmin RA c) bs /\
  Forall (fun b : bin RA => (br b * IZR (bL b) = cfs c /\ bf b < cfs c / 2 /\ bb b = bf b * IZR (bL b) / cfs c /\
                           cbmin c - bf b / (2 * cfs c) <= bb b)%R) bs.
Proof. exact ltf_grid_ok. Qed.
Print Assumptions C03_ltf_grid_real.

Theorem C03_vectorized_grid_real : forall sq fuel (c : cfg RA) grid bs, admissible c -> vec_bins RA sq fuel c grid = Ok bs ->
  chain RA (fmin_vec RA c) bs /\ increasing_from (fmin_vec RA c) bs /\
  Forall (fun b : bin RA => (br b * IZR (bL b) = cfs c /\ bf b < cfs c / 2 /\ bb b = bf b * IZR (bL b) / cfs c)%R) bs.
Proof. exact vec_grid_ok. Qed.
Theorem C03_new_ltf_grid_real : forall ph ex lg fuel (c : cfg RA) J bs, admissible c -> new_bins RA ph ex lg fuel c J = Ok bs ->
  chain RA (fmin RA c) bs /\ increasing_from (fmin RA c) bs /\
  Forall (fun b : bin RA => (br b * IZR (bL b) = cfs c /\ bf b < cfs c / 2 /\ bb b = bf b * IZR (bL b) / cfs c)%R) bs.
Proof. exact new_grid_ok. Qed.
Print Assumptions C03_new_ltf_grid_real.

Theorem C03_lpsd_is_ltf : forall (A : Arith) ph fuel (c : cfg A),
  ltf_bins A ph fuel (lpsd_cfg c) = ltf_bins A ph fuel (mkCfg (cN c) (cfs c) (colap c) (one A) 1%Z (cKdes c) (clogfact c)).
Proof. exact lpsd_is_ltf. Qed.
Print Assumptions C03_lpsd_is_ltf.
Print Assumptions C03_vectorized_grid_real.
