(* C09 — cross-spectral identities and bounds (statements only; on the GENERATED table) *)
From Coq Require Import ZArith List Bool Reals.
From SK Require Import Arith Cpx AttrThms KernelPrims Kernels GenRef CauchySchwarz KernelCS.
From SK.gen Require Import AttrsGen KernelsGen.
Import ListNotations.
Section C09.
Variable angle : R * R -> R. Variable unwrap : R -> R.
Notation F := (FR angle unwrap).
Theorem C09_coh_in_unit_interval : forall e : env RA, (0 <= e_XX e)%R -> (0 <= e_YY e)%R -> (cabs2 (e_XY e) <= e_XX e * e_YY e)%R ->
  (0 <= g_coh_csd RA F e <= 1)%R.
Proof. exact (coh_in_unit_interval angle unwrap). Qed.
Theorem C09_coh_one : forall e : env RA, e_XX e <> 0%R -> e_YY e <> 0%R -> cabs2 (e_XY e) = (e_XX e * e_YY e)%R -> g_coh_csd RA F e = 1%R.
Proof. exact (coh_one angle unwrap). Qed.
Theorem C09_swap_channels : forall e : env RA,
  g_coh_csd RA F (swap_env e) = g_coh_csd RA F e /\ g_Gxy_csd RA F (swap_env e) = g_Gyx_csd RA F e /\
  g_Gxx_csd RA F (swap_env e) = g_Gyy_csd RA F e /\ g_Gyy_csd RA F (swap_env e) = g_Gxx_csd RA F e.
Proof. exact (swap_channels angle unwrap). Qed.
Theorem C09_coherent_plus_residual : forall e : env RA, (g_GyyCx_csd RA F e + g_GyyRx_csd RA F e = g_Gyy_csd RA F e)%R.
Proof. exact (coherent_plus_residual angle unwrap). Qed.
Theorem C09_residual_formula : forall e : env RA, (0 < e_XX e)%R -> (0 < e_YY e)%R -> (0 < e_S2 e)%R -> (0 < e_fs e)%R ->
  (cabs2 (e_XY e) <= e_XX e * e_YY e)%R -> g_GyySx_csd RA F e = (g_Gyy_csd RA F e * (1 - g_coh_csd RA F e))%R.
Proof. exact (residual_formula angle unwrap). Qed.
Theorem C09_auto_in_pair : forall e : env RA, g_Gxx_csd RA F e = g_Gxx_auto RA F e.
Proof. intros e. reflexivity. Qed.
(* Cauchy-Schwarz is not an assumption about the data: it holds for the statistics every cross kernel (regenerated from
   source) returns, for any records, window, frequency, detrend basis and non-empty start vector *)
Theorem C09_kernel_cauchy_schwarz_win : forall (x1 x2 w : list R) (starts : list Z) L omega, starts <> [] ->
  let '(MXX, MYY, mur, mui, M2) := gen_stats_win_only_csd RA cos sin x1 x2 starts L w omega in
  (mur * mur + mui * mui <= MXX * MYY /\ 0 <= MXX /\ 0 <= MYY)%R.
Proof.
  intros. rewrite Gen_win_only_csd_ref. pose proof (ref_csd_cauchy_schwarz (cos omega) (sin omega) (samp_win RA x1 w) (samp_win RA x2 w) starts L H) as C.
  destruct (ref_csd RA _ _ _ _ starts L) as [[[[a b] c] d] e]. tauto.
Qed.
Theorem C09_kernel_cauchy_schwarz_detrend0 : forall (x1 x2 w : list R) (starts : list Z) L omega, starts <> [] ->
  let '(MXX, MYY, mur, mui, M2) := gen_stats_detrend0_csd RA cos sin x1 x2 starts L w omega in
  (mur * mur + mui * mui <= MXX * MYY /\ 0 <= MXX /\ 0 <= MYY)%R.
Proof.
  intros. rewrite Gen_detrend0_csd_ref. pose proof (ref_csd_cauchy_schwarz (cos omega) (sin omega) (samp_mean0 RA x1 w L) (samp_mean0 RA x2 w L) starts L H) as C.
  destruct (ref_csd RA _ _ _ _ starts L) as [[[[a b] c] d] e]. tauto.
Qed.
Theorem C09_kernel_cauchy_schwarz_poly : forall (x1 x2 w : list R) (starts : list Z) L omega Q, starts <> [] ->
  let '(MXX, MYY, mur, mui, M2) := gen_stats_poly_csd RA cos sin x1 x2 starts L w omega Q in
  (mur * mur + mui * mui <= MXX * MYY /\ 0 <= MXX /\ 0 <= MYY)%R.
Proof.
  intros. rewrite Gen_poly_csd_ref. pose proof (ref_csd_cauchy_schwarz (cos omega) (sin omega) (samp_poly RA x1 w Q L) (samp_poly RA x2 w Q L) starts L H) as C.
  destruct (ref_csd RA _ _ _ _ starts L) as [[[[a b] c] d] e]. tauto.
Qed.
(* hence the coherence computed from kernel output lies in [0,1] *)
Theorem C09_coherence_of_kernel_output : forall (x1 x2 w : list R) (starts : list Z) L omega S2 S12 navg fs, starts <> [] ->
  let '(MXX, MYY, mur, mui, M2) := gen_stats_win_only_csd RA cos sin x1 x2 starts L w omega in
  (0 <= g_coh_csd RA F (mkEnv RA MXX MYY S2 S12 M2 navg fs (mur, mui)) <= 1)%R.
Proof.
  intros. pose proof (C09_kernel_cauchy_schwarz_win x1 x2 w starts L omega H) as C.
  destruct (gen_stats_win_only_csd RA cos sin x1 x2 starts L w omega) as [[[[a b] c] d] e].
  apply C09_coh_in_unit_interval; cbn [e_XX e_YY e_XY]; unfold cabs2; cbn [fst snd]; tauto.
Qed.
End C09.
Print Assumptions C09_residual_formula.
Print Assumptions C09_coh_in_unit_interval.
Print Assumptions C09_coherence_of_kernel_output.
Print Assumptions C09_coh_one.
Print Assumptions C09_swap_channels.
Print Assumptions C09_coherent_plus_residual.
Print Assumptions C09_auto_in_pair.
Print Assumptions C09_kernel_cauchy_schwarz_win.
Print Assumptions C09_kernel_cauchy_schwarz_detrend0.
Print Assumptions C09_kernel_cauchy_schwarz_poly.
