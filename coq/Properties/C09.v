(* C09 — cross-spectral identities and bounds (statements only; on the GENERATED table) *)
From Coq Require Import ZArith List Bool Reals.
From SK Require Import Arith Cpx AttrThms.
From SK.gen Require Import AttrsGen.
Section C09.
Variable angle : R * R -> R. Variable unwrap : R -> R.
Notation F := (FR angle unwrap).
Theorem C09_coh_in_unit_interval : forall e : env RA, (0 <= e_XX e)%R -> (0 <= e_YY e)%R -> (cabs2 (e_XY e) <= e_XX e * e_YY e)%R ->
  (0 <= g_coh_csd RA F e <= 1)%R.
Proof. exact (coh_in_unit_interval angle unwrap). Qed.
Theorem C09_coh_one : forall e : env RA, e_XX e <> 0%R -> e_YY e <> 0%R -> cabs2 (e_XY e) = (e_XX e * e_YY e)%R -> g_coh_csd RA F e = 1%R.
Proof. exact (coh_one angle unwrap). Qed.
Theorem C09_swap_channels : forall e : env RA,
  g_coh_csd RA F (swap_env e) = g_coh_csd RA F e /\ g_Gxy_csd RA F (swap_env e) = g_Gyx_csd RA F e /\
  g_Gxx_csd RA F (swap_env e) = g_Gyy_csd RA F e /\ g_Gyy_csd RA F (swap_env e) = g_Gxx_csd RA F e.
Proof. exact (swap_channels angle unwrap). Qed.
Theorem C09_coherent_plus_residual : forall e : env RA, (g_GyyCx_csd RA F e + g_GyyRx_csd RA F e = g_Gyy_csd RA F e)%R.
Proof. exact (coherent_plus_residual angle unwrap). Qed.
Theorem C09_residual_formula : forall e : env RA, (0 < e_XX e)%R -> (0 < e_YY e)%R -> (0 < e_S2 e)%R -> (0 < e_fs e)%R ->
  (cabs2 (e_XY e) <= e_XX e * e_YY e)%R -> g_GyySx_csd RA F e = (g_Gyy_csd RA F e * (1 - g_coh_csd RA F e))%R.
Proof. exact (residual_formula angle unwrap). Qed.
Theorem C09_auto_in_pair : forall e : env RA, g_Gxx_csd RA F e = g_Gxx_auto RA F e.
Proof. intros e. reflexivity. Qed.
End C09.
Print Assumptions C09_residual_formula.
Print Assumptions C09_coh_in_unit_interval.
