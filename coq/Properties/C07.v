(* C07 — transfer-function estimates recover gain and phase with the right sign (statements only) *)
From Coq Require Import ZArith List Bool Reals.
From SK Require Import Arith Cpx KernelPrims Kernels KernelThms KernelThms2 GenRef AttrThms AttrThms3 KernelLin DetrendPoly Sinusoid.
From SK.gen Require Import AttrsGen KernelsGen.
Import ListNotations.
Close Scope Z_scope.
Section C07.
Variable angle : R * R -> R. Variable unwrap : R -> R.
Notation F := (FR angle unwrap).
(* on the regenerated attribute table *)
Theorem C07_gain_recovered : forall (e : env RA) (g : R), e_XX e <> 0%R -> g <> 0%R ->
  e_XY e = ((g * e_XX e)%R, 0%R) -> e_YY e = (g * g * e_XX e)%R -> g_Hxy_csd RA F e = (g, 0%R) /\ g_coh_csd RA F e = 1%R.
Proof. exact (gain_recovered angle unwrap). Qed.
Theorem C07_delay_gives_negative_phase : forall (e : env RA) (th : R), e_XX e <> 0%R ->
  e_XY e = ((e_XX e * cos th)%R, (e_XX e * sin th)%R) -> g_Hxy_csd RA F e = (cos th, (- sin th)%R).
Proof. exact (delay_gives_negative_phase angle unwrap). Qed.
(* on the kernels: per segment, Y = g X gives XY = g|X|^2 (real), YY = g^2|X|^2; Y = X e^{-i th} gives XY = |X|^2 e^{+i th} *)
Theorem C07_segment_gain : forall (g : R) (X : R * R), pw_csd RA X ((g * fst X)%R, (g * snd X)%R) =
  ((fst X * fst X + snd X * snd X)%R, (g * g * (fst X * fst X + snd X * snd X))%R, (g * (fst X * fst X + snd X * snd X))%R, 0%R).
Proof. exact pw_csd_gain. Qed.
Theorem C07_dft_linear : forall w g (v : Z -> R) L, dft_def w (fun n => (g * v n)%R) L = ((g * fst (dft_def w v L))%R, (g * snd (dft_def w v L))%R).
Proof. exact dft_def_scale. Qed.
(* second channel = g * first channel, any detrend mode: the regenerated kernels return YY = g^2 XX, XY = g XX (real) —
   exactly the premises of C07_gain_recovered, so Hxy = g and coherence = 1 at every bin *)
Theorem C07_gain_statistics_poly : forall g (x w : list R) starts L omega Q,
  let '(MXX, MYY, mur, mui, M2) := gen_stats_poly_csd RA cos sin x (scaleL g x) starts L w omega Q in
  (MYY = g * g * MXX /\ mur = g * MXX /\ mui = 0)%R.
Proof. intros. rewrite Gen_poly_csd_ref. apply (gain_statistics _ _ (fun x => samp_poly RA x w Q L)). apply linear_samp_poly. Qed.
Theorem C07_gain_statistics_detrend0 : forall g (x w : list R) starts L omega,
  let '(MXX, MYY, mur, mui, M2) := gen_stats_detrend0_csd RA cos sin x (scaleL g x) starts L w omega in
  (MYY = g * g * MXX /\ mur = g * MXX /\ mui = 0)%R.
Proof. intros. rewrite Gen_detrend0_csd_ref. apply (gain_statistics _ _ (fun x => samp_mean0 RA x w L)). apply linear_samp_mean0. Qed.
Theorem C07_gain_statistics_win : forall g (x w : list R) starts L omega,
  let '(MXX, MYY, mur, mui, M2) := gen_stats_win_only_csd RA cos sin x (scaleL g x) starts L w omega in
  (MYY = g * g * MXX /\ mur = g * MXX /\ mui = 0)%R.
Proof. intros. rewrite Gen_win_only_csd_ref. apply (gain_statistics _ _ (fun x => samp_win RA x w)). apply linear_samp_win. Qed.
(* whichever backend: the regenerated Numba and CUDA cross kernels and the NumPy model all equal the same definition (C01) *)
Theorem C07_backends_agree_on_sign : forall (x1 x2 w : list R) starts L omega,
  gen_stats_win_only_csd RA cos sin x1 x2 starts L w omega = gen_stats_win_only_csd_cuda RA cos sin x1 x2 starts L w omega /\
  gen_stats_win_only_csd RA cos sin x1 x2 starts L w omega =
    np_csd RA (phasor_re omega L) (phasor_im omega (-1) L) (samp_win RA x1 w) (samp_win RA x2 w) starts L.
Proof.
  intros. split.
  - rewrite Gen_win_only_csd_ref, Gen_win_only_csd_cuda_ref. reflexivity.
  - rewrite Gen_win_only_csd_ref, ref_csd_is_definition, np_csd_is_definition. reflexivity.
Qed.
End C07.
(* a sinusoid delayed by th = w0*d radians, seen through any window with no leakage from the image (W(2 w0) = 0):
   per segment X conj(Y) = |X|^2 e^{+i th} — the premise of C07_delay_gives_negative_phase, so Hxy = e^{-i th} *)
Theorem C07_delayed_sinusoid : forall (win : nat -> R) (A w0 phi th : R) (L : Z),
  C2 win w0 phi L = 0%R -> S2 win w0 phi L = 0%R -> C2 win w0 (phi - th)%R L = 0%R -> S2 win w0 (phi - th)%R L = 0%R ->
  let X := dft_def w0 (sig win A w0 phi) L in let Y := dft_def w0 (sig win A w0 (phi - th)%R) L in
  let P := (fst X * fst X + snd X * snd X)%R in
  pw_csd RA X Y = (P, P, (P * cos th)%R, (P * sin th)%R).
Proof. exact delayed_sinusoid_cross. Qed.
Print Assumptions C07_delayed_sinusoid.
Print Assumptions C07_gain_recovered.
Print Assumptions C07_gain_statistics_poly.
Print Assumptions C07_backends_agree_on_sign.
Print Assumptions C07_delay_gives_negative_phase.
Print Assumptions C07_segment_gain.
Print Assumptions C07_dft_linear.
Print Assumptions C07_gain_statistics_detrend0.
Print Assumptions C07_gain_statistics_win.
