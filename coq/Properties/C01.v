(* C01 — per-bin statistics equal the windowed-DFT definition on every backend (statements only).
   Chain:  generated kernel (from the Python source, every run)  =  reference  [GenRef.v, any carrier]
           reference at the reals with cos/sin                    =  definition [KernelThms.v]            *)
From Coq Require Import ZArith List Reals.
From SK Require Import Arith KernelPrims Kernels KernelThms GenRef.
From SK.gen Require Import KernelsGen.
Import ListNotations.

Section Numba.
Variables (x x1 x2 w : list R) (starts : list Z) (L : Z) (omega : R) (Q : list (list R)).
Theorem C01_numba_win_only_auto : gen_stats_win_only_auto RA cos sin x starts L w omega = def_auto omega (samp_win RA x w) starts L.
Proof. rewrite Gen_win_only_auto_ref. exact (ref_auto_is_definition _ _ _ _). Qed.
Theorem C01_numba_win_only_csd : gen_stats_win_only_csd RA cos sin x1 x2 starts L w omega = def_csd omega (samp_win RA x1 w) (samp_win RA x2 w) starts L.
Proof. rewrite Gen_win_only_csd_ref. exact (ref_csd_is_definition _ _ _ _ _). Qed.
Theorem C01_numba_detrend0_auto : gen_stats_detrend0_auto RA cos sin x starts L w omega = def_auto omega (samp_mean0 RA x w L) starts L.
Proof. rewrite Gen_detrend0_auto_ref. exact (ref_auto_is_definition _ _ _ _). Qed.
Theorem C01_numba_detrend0_csd : gen_stats_detrend0_csd RA cos sin x1 x2 starts L w omega = def_csd omega (samp_mean0 RA x1 w L) (samp_mean0 RA x2 w L) starts L.
Proof. rewrite Gen_detrend0_csd_ref. exact (ref_csd_is_definition _ _ _ _ _). Qed.
Theorem C01_numba_poly_auto : gen_stats_poly_auto RA cos sin x starts L w omega Q = def_auto omega (samp_poly RA x w Q L) starts L.
Proof. rewrite Gen_poly_auto_ref. exact (ref_auto_is_definition _ _ _ _). Qed.
Theorem C01_numba_poly_csd : gen_stats_poly_csd RA cos sin x1 x2 starts L w omega Q = def_csd omega (samp_poly RA x1 w Q L) (samp_poly RA x2 w Q L) starts L.
Proof. rewrite Gen_poly_csd_ref. exact (ref_csd_is_definition _ _ _ _ _). Qed.

Theorem C01_cuda_win_only_auto : gen_stats_win_only_auto_cuda RA cos sin x starts L w omega = def_auto omega (samp_win RA x w) starts L.
Proof. rewrite Gen_win_only_auto_cuda_ref. exact (ref_auto_is_definition _ _ _ _). Qed.
Theorem C01_cuda_win_only_csd : gen_stats_win_only_csd_cuda RA cos sin x1 x2 starts L w omega = def_csd omega (samp_win RA x1 w) (samp_win RA x2 w) starts L.
Proof. rewrite Gen_win_only_csd_cuda_ref. exact (ref_csd_is_definition _ _ _ _ _). Qed.
Theorem C01_cuda_detrend0_auto : gen_stats_detrend0_auto_cuda RA cos sin x starts L w omega = def_auto omega (samp_mean0 RA x w L) starts L.
Proof. rewrite Gen_detrend0_auto_cuda_ref. exact (ref_auto_is_definition _ _ _ _). Qed.
Theorem C01_cuda_detrend0_csd : gen_stats_detrend0_csd_cuda RA cos sin x1 x2 starts L w omega = def_csd omega (samp_mean0 RA x1 w L) (samp_mean0 RA x2 w L) starts L.
Proof. rewrite Gen_detrend0_csd_cuda_ref. exact (ref_csd_is_definition _ _ _ _ _). Qed.
Theorem C01_cuda_poly_auto : (length (hd [] Q) <= 3)%nat -> gen_stats_poly_auto_cuda RA cos sin x starts L w omega Q = def_auto omega (samp_poly RA x w Q L) starts L.
Proof. intros H. rewrite Gen_poly_auto_cuda_ref by exact H. exact (ref_auto_is_definition _ _ _ _). Qed.
Theorem C01_cuda_poly_csd : (length (hd [] Q) <= 3)%nat -> gen_stats_poly_csd_cuda RA cos sin x1 x2 starts L w omega Q = def_csd omega (samp_poly RA x1 w Q L) (samp_poly RA x2 w Q L) starts L.
Proof. intros H. rewrite Gen_poly_csd_cuda_ref by exact H. exact (ref_csd_is_definition _ _ _ _ _). Qed.

(* NumPy fallbacks (hand model np_auto/np_csd, tied by correspondence): with e[n] = exp(-i w n) they are the definition *)
Theorem C01_numpy_auto : forall samp, np_auto RA (phasor_re omega L) (phasor_im omega (-1) L) samp starts L = def_auto omega samp starts L.
Proof. intros. exact (np_auto_is_definition _ _ _ _). Qed.
Theorem C01_numpy_csd : forall samp1 samp2, np_csd RA (phasor_re omega L) (phasor_im omega (-1) L) samp1 samp2 starts L = def_csd omega samp1 samp2 starts L.
Proof. intros. exact (np_csd_is_definition _ _ _ _ _). Qed.
End Numba.

(* the Goertzel value itself: e^{i w (L-1)} X(w) with X(w) = sum_n v_n e^{-i w n} *)
Theorem C01_goertzel_is_rotated_dft : forall w v L, ref_bin RA (cos w) (sin w) v L = rot (w * (INR (Z.to_nat L) - 1)) (dft_def w v L).
Proof. exact ref_bin_rot. Qed.

Print Assumptions C01_numba_poly_csd.
Print Assumptions C01_cuda_poly_csd.
Print Assumptions C01_numpy_csd.
Print Assumptions C01_goertzel_is_rotated_dft.
Print Assumptions C01_numba_win_only_auto.
Print Assumptions C01_numba_win_only_csd.
Print Assumptions C01_numba_detrend0_auto.
Print Assumptions C01_numba_detrend0_csd.
Print Assumptions C01_numba_poly_auto.
Print Assumptions C01_cuda_win_only_auto.
Print Assumptions C01_cuda_win_only_csd.
Print Assumptions C01_cuda_detrend0_auto.
Print Assumptions C01_cuda_detrend0_csd.
Print Assumptions C01_cuda_poly_auto.
Print Assumptions C01_numpy_auto.
