(* C08 — segment detrending removes polynomial trends and nothing else (statements only).
   PARTIAL: proved for order 0 (constants) and order -1 (raw); orders 1,2 (projection on the QR basis) are decided by the
   regenerated-kernel equality (which alpha goes to which channel) plus the oracle sweep with the LAPACK basis. *)
From Coq Require Import ZArith List Bool Reals.
From SK Require Import Arith KernelPrims Kernels KernelThms KernelThms2 GenRef.
From SK.gen Require Import KernelsGen.
Import ListNotations.
Theorem C08_detrend0_kills_constants : forall (x x' w : list R) (c : R) (s L : Z), (1 <= L)%Z ->
  (forall n, (0 <= n < L)%Z -> nthT RA x' (s + n) = (nthT RA x (s + n) + c)%R) ->
  forall n, (0 <= n < L)%Z -> samp_mean0 RA x' w L s n = samp_mean0 RA x w L s n.
Proof. exact detrend0_kills_constants. Qed.
Theorem C08_stats_invariant_under_offset : forall (cosw sinw : R) (x x' w : list R) (c : R) (starts : list Z) (L : Z), (1 <= L)%Z ->
  (forall s n, In s starts -> (0 <= n < L)%Z -> nthT RA x' (s + n) = (nthT RA x (s + n) + c)%R) ->
  ref_auto RA cosw sinw (samp_mean0 RA x' w L) starts L = ref_auto RA cosw sinw (samp_mean0 RA x w L) starts L.
Proof. exact stats_invariant_under_offset. Qed.
(* on the regenerated Numba kernel itself *)
Theorem C08_numba_detrend0_invariant : forall (x x' w : list R) (c : R) (starts : list Z) (L : Z) omega, (1 <= L)%Z ->
  (forall s n, In s starts -> (0 <= n < L)%Z -> nthT RA x' (s + n) = (nthT RA x (s + n) + c)%R) ->
  gen_stats_detrend0_auto RA cos sin x' starts L w omega = gen_stats_detrend0_auto RA cos sin x starts L w omega.
Proof. intros. rewrite !Gen_detrend0_auto_ref. apply (stats_invariant_under_offset _ _ x x' w c); assumption. Qed.
Theorem C08_order_m1_is_raw : forall (x w : list R) s n, samp_win RA x w s n = (nthT RA x (s + n) * nthT RA w n)%R.
Proof. exact order_m1_is_raw. Qed.
(* each channel is detrended with its own coefficients: the regenerated cross kernels equal the reference that does so *)
Theorem C08_poly_csd_each_channel_own_alpha : forall (A : Arith) c s (x1 x2 w : list (T A)) starts L omega Q,
  gen_stats_poly_csd A c s x1 x2 starts L w omega Q = ref_csd A (c omega) (s omega) (samp_poly A x1 w Q L) (samp_poly A x2 w Q L) starts L.
Proof. intros. apply Gen_poly_csd_ref. Qed.
Theorem C08_detrend0_csd_each_channel_own_mean : forall (A : Arith) c s (x1 x2 w : list (T A)) starts L omega,
  gen_stats_detrend0_csd A c s x1 x2 starts L w omega = ref_csd A (c omega) (s omega) (samp_mean0 A x1 w L) (samp_mean0 A x2 w L) starts L.
Proof. intros. apply Gen_detrend0_csd_ref. Qed.
Print Assumptions C08_numba_detrend0_invariant.
Print Assumptions C08_poly_csd_each_channel_own_alpha.
