(* C08 — segment detrending removes polynomial trends and nothing else (statements only).
   Order 0 (constants) and order -1 (raw) are proved outright. Orders 1,2 are proved for ANY basis Q with orthonormal columns:
   adding any combination of the basis columns (each channel with its own coefficients, each segment with its own) changes
   nothing. That LAPACK's Q is orthonormal and spans 1, t, t^2 is the oracle contract validated numerically on every run;
   that a trend of degree p+1 DOES change the estimate is decided by the sweep against the definition. *)
From Coq Require Import ZArith List Bool Reals.
From SK Require Import Arith KernelPrims Kernels KernelThms KernelThms2 GenRef DetrendPoly.
From SK.gen Require Import KernelsGen.
Import ListNotations.
Theorem C08_detrend0_kills_constants : forall (x x' w : list R) (c : R) (s L : Z), (1 <= L)%Z ->
  (forall n, (0 <= n < L)%Z -> nthT RA x' (s + n) = (nthT RA x (s + n) + c)%R) ->
  forall n, (0 <= n < L)%Z -> samp_mean0 RA x' w L s n = samp_mean0 RA x w L s n.
Proof. exact detrend0_kills_constants. Qed.
Theorem C08_stats_invariant_under_offset : forall (cosw sinw : R) (x x' w : list R) (c : R) (starts : list Z) (L : Z), (1 <= L)%Z ->
  (forall s n, In s starts -> (0 <= n < L)%Z -> nthT RA x' (s + n) = (nthT RA x (s + n) + c)%R) ->
  ref_auto RA cosw sinw (samp_mean0 RA x' w L) starts L = ref_auto RA cosw sinw (samp_mean0 RA x w L) starts L.
Proof. exact stats_invariant_under_offset. Qed.
(* on the regenerated Numba kernel itself *)
Theorem C08_numba_detrend0_invariant : forall (x x' w : list R) (c : R) (starts : list Z) (L : Z) omega, (1 <= L)%Z ->
  (forall s n, In s starts -> (0 <= n < L)%Z -> nthT RA x' (s + n) = (nthT RA x (s + n) + c)%R) ->
  gen_stats_detrend0_auto RA cos sin x' starts L w omega = gen_stats_detrend0_auto RA cos sin x starts L w omega.
Proof. intros. rewrite !Gen_detrend0_auto_ref. apply (stats_invariant_under_offset _ _ x x' w c); assumption. Qed.
Theorem C08_poly_kills_span_auto : forall (Q : list (list R)) (L : Z) (cosw sinw : R) x x' w (starts : list Z) (cs : Z -> nat -> R),
  (0 <= L)%Z -> orthonormal Q L -> (forall s, In s starts -> plus_span Q L x x' s (cs s)) ->
  ref_auto RA cosw sinw (samp_poly RA x' w Q L) starts L = ref_auto RA cosw sinw (samp_poly RA x w Q L) starts L.
Proof. exact stats_invariant_under_span. Qed.
Theorem C08_poly_kills_span_cross_numba : forall (Q : list (list R)) (L : Z) omega x1 x1' x2 x2' w (starts : list Z) (c1 c2 : Z -> nat -> R),
  (0 <= L)%Z -> orthonormal Q L -> (forall s, In s starts -> plus_span Q L x1 x1' s (c1 s)) -> (forall s, In s starts -> plus_span Q L x2 x2' s (c2 s)) ->
  gen_stats_poly_csd RA cos sin x1' x2' starts L w omega Q = gen_stats_poly_csd RA cos sin x1 x2 starts L w omega Q.
Proof. intros. rewrite !Gen_poly_csd_ref. apply (stats_invariant_under_span_csd Q L _ _ x1 x1' x2 x2' w starts c1 c2); assumption. Qed.
Theorem C08_order_m1_is_raw : forall (x w : list R) s n, samp_win RA x w s n = (nthT RA x (s + n) * nthT RA w n)%R.
Proof. exact order_m1_is_raw. Qed.
(* each channel is detrended with its own coefficients: the regenerated cross kernels equal the reference that does so *)
Theorem C08_poly_csd_each_channel_own_alpha : forall (A : Arith) c s (x1 x2 w : list (T A)) starts L omega Q,
  gen_stats_poly_csd A c s x1 x2 starts L w omega Q = ref_csd A (c omega) (s omega) (samp_poly A x1 w Q L) (samp_poly A x2 w Q L) starts L.
Proof. intros. apply Gen_poly_csd_ref. Qed.
Theorem C08_detrend0_csd_each_channel_own_mean : forall (A : Arith) c s (x1 x2 w : list (T A)) starts L omega,
  gen_stats_detrend0_csd A c s x1 x2 starts L w omega = ref_csd A (c omega) (s omega) (samp_mean0 A x1 w L) (samp_mean0 A x2 w L) starts L.
Proof. intros. apply Gen_detrend0_csd_ref. Qed.
Print Assumptions C08_numba_detrend0_invariant.
Print Assumptions C08_poly_csd_each_channel_own_alpha.
Print Assumptions C08_poly_kills_span_cross_numba.
Print Assumptions C08_detrend0_kills_constants.
Print Assumptions C08_stats_invariant_under_offset.
Print Assumptions C08_poly_kills_span_auto.
Print Assumptions C08_order_m1_is_raw.
Print Assumptions C08_detrend0_csd_each_channel_own_mean.
