(* C19 — time-domain detrending and RMS integration (statements only).
   Detrending: order 0 is proved outright; for every order p the three claims (orthogonal to every polynomial of degree <= p,
   such a polynomial goes to zero, idempotent — and more generally adding a polynomial trend does not change the output) are
   proved for any coefficient vector satisfying the normal equations, which is np.polyfit's contract (the normal-equation
   residual of the implementation is checked numerically on every sampled series). *)
From Coq Require Import ZArith List Reals.
From SK Require Import Arith Rms DetrendPoly LeastSquares.
Import ListNotations.
Theorem C19_rms_additive_at_grid_point : forall (l1 l2 : list (R * R)) (p : R * R),
  trapz RA (l1 ++ p :: l2) 0%R = (trapz RA (l1 ++ [p]) 0 + trapz RA (p :: l2) 0)%R.
Proof. exact trapz_additive. Qed.
Theorem C19_rms_monotone_under_nesting : forall (l0 l1 l2 : list (R * R)) (p q : R * R),
  increasing (l0 ++ p :: l1 ++ q :: l2) -> Forall (fun x => (0 <= snd x)%R) (l0 ++ p :: l1 ++ q :: l2) ->
  (trapz RA (p :: l1 ++ [q]) 0 <= trapz RA (l0 ++ p :: l1 ++ q :: l2) 0)%R.
Proof. exact trapz_monotone. Qed.
Theorem C19_integral_nonneg : forall pts, increasing pts -> Forall (fun p => (0 <= snd p)%R) pts -> (0 <= trapz RA pts 0)%R.
Proof. exact trapz_nonneg. Qed.
Theorem C19_empty_or_point_band_zero : forall p, trapz RA [p] 0%R = 0%R /\ trapz RA [] 0%R = 0%R.
Proof. exact trapz_point. Qed.
Theorem C19_detrend0_orthogonal : forall l, l <> [] -> sumR' (detrend0 l) = 0%R.
Proof. exact detrend0_residual_orthogonal_to_constants. Qed.
Theorem C19_detrend0_kills_constant : forall c n, (0 < n)%nat -> detrend0 (repeat c n) = repeat 0%R n.
Proof. exact detrend0_kills_constant. Qed.
Theorem C19_detrend0_idempotent : forall l, l <> [] -> detrend0 (detrend0 l) = detrend0 l.
Proof. exact detrend0_idempotent. Qed.
(* every order: t = 0..n-1, basis t^k (k <= order), "fit" = any solution of the normal equations *)
Theorem C19_detrend_orthogonal_to_polynomials : forall (n order : nat) x c a,
  normal_eqs n (S order) monomial x c -> Sum n (fun i => (polyval_at order a i * resid (S order) monomial x c i)%R) = 0%R.
Proof. exact C19_polyfit_residual_orthogonal. Qed.
Theorem C19_detrend_kills_polynomials : forall (n order : nat) a c,
  normal_eqs n (S order) monomial (polyval_at order a) c -> forall i, (i < n)%nat -> resid (S order) monomial (polyval_at order a) c i = 0%R.
Proof. exact C19_polynomial_detrended_to_zero. Qed.
Theorem C19_detrend_idempotent : forall (n order : nat) x c c',
  normal_eqs n (S order) monomial x c -> normal_eqs n (S order) monomial (resid (S order) monomial x c) c' ->
  forall i, (i < n)%nat -> resid (S order) monomial (resid (S order) monomial x c) c' i = resid (S order) monomial x c i.
Proof. intros n order. exact (detrend_idempotent n (S order) monomial). Qed.
Theorem C19_detrend_removes_only_the_trend : forall (n order : nat) x x' a c c',
  (forall i, (i < n)%nat -> x' i = (x i + polyval_at order a i)%R) ->
  normal_eqs n (S order) monomial x c -> normal_eqs n (S order) monomial x' c' ->
  forall i, (i < n)%nat -> resid (S order) monomial x' c' i = resid (S order) monomial x c i.
Proof. intros n order. exact (residual_ignores_span n (S order) monomial). Qed.
Print Assumptions C19_rms_monotone_under_nesting.
Print Assumptions C19_detrend_removes_only_the_trend.
Print Assumptions C19_detrend0_idempotent.
Print Assumptions C19_rms_additive_at_grid_point.
Print Assumptions C19_integral_nonneg.
Print Assumptions C19_empty_or_point_band_zero.
Print Assumptions C19_detrend0_orthogonal.
Print Assumptions C19_detrend0_kills_constant.
Print Assumptions C19_detrend_orthogonal_to_polynomials.
Print Assumptions C19_detrend_kills_polynomials.
Print Assumptions C19_detrend_idempotent.
Theorem C19_rms_homogeneous : forall (k : R) pts, trapz RA (map (fun p => (fst p, (k * snd p)%R)) pts) 0%R = (k * trapz RA pts 0)%R.
Proof. exact trapz_scale. Qed.
Theorem C19_trapezoid_exact_for_affine_integrand : forall (a b : R) (fs : list R) (f0 : R),
  trapz RA (map (fun f => (f, (a + b * f)%R)) (f0 :: fs)) 0%R =
  (a * (last fs f0 - f0) + b * (last fs f0 * last fs f0 - f0 * f0) / 2)%R.
Proof. exact trapz_affine_exact. Qed.
Print Assumptions C19_rms_homogeneous.
Print Assumptions C19_trapezoid_exact_for_affine_integrand.
