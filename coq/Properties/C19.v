(* C19 — time-domain detrending and RMS integration (statements only).
   PARTIAL: detrending proved for order 0; orders 1..5 rest on np.polyfit's least-squares contract (validated numerically). *)
From Coq Require Import ZArith List Reals.
From SK Require Import Arith Rms.
Import ListNotations.
Theorem C19_rms_additive_at_grid_point : forall (l1 l2 : list (R * R)) (p : R * R),
  trapz RA (l1 ++ p :: l2) 0%R = (trapz RA (l1 ++ [p]) 0 + trapz RA (p :: l2) 0)%R.
Proof. exact trapz_additive. Qed.
Theorem C19_rms_monotone_under_nesting : forall (l0 l1 l2 : list (R * R)) (p q : R * R),
  increasing (l0 ++ p :: l1 ++ q :: l2) -> Forall (fun x => (0 <= snd x)%R) (l0 ++ p :: l1 ++ q :: l2) ->
  (trapz RA (p :: l1 ++ [q]) 0 <= trapz RA (l0 ++ p :: l1 ++ q :: l2) 0)%R.
Proof. exact trapz_monotone. Qed.
Theorem C19_integral_nonneg : forall pts, increasing pts -> Forall (fun p => (0 <= snd p)%R) pts -> (0 <= trapz RA pts 0)%R.
Proof. exact trapz_nonneg. Qed.
Theorem C19_empty_or_point_band_zero : forall p, trapz RA [p] 0%R = 0%R /\ trapz RA [] 0%R = 0%R.
Proof. exact trapz_point. Qed.
Theorem C19_detrend0_orthogonal : forall l, l <> [] -> sumR' (detrend0 l) = 0%R.
Proof. exact detrend0_residual_orthogonal_to_constants. Qed.
Theorem C19_detrend0_kills_constant : forall c n, (0 < n)%nat -> detrend0 (repeat c n) = repeat 0%R n.
Proof. exact detrend0_kills_constant. Qed.
Theorem C19_detrend0_idempotent : forall l, l <> [] -> detrend0 (detrend0 l) = detrend0 l.
Proof. exact detrend0_idempotent. Qed.
Print Assumptions C19_rms_monotone_under_nesting.
Print Assumptions C19_detrend0_idempotent.
