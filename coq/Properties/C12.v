(* C12 — the Kaiser window delivers the requested side-lobe suppression (statements only).
   PARTIAL: proved — alpha(psll) is strictly increasing (more suppression requested => wider, lower-sidelobe window) and the
   window construction found in the source is the DFT-even one with shape alpha*pi (T3, C05). NOT a theorem — that the
   Kaiser-Bessel side lobes beyond sqrt(1+alpha^2) bins lie below 10^(-(P-1)/10): Bessel-function analysis over a continuum,
   no library support; swept on the implementation with the property's own threshold. *)
From Coq Require Import ZArith Reals String List.
From SK Require Import Arith Kaiser Dispatch.
From SK.gen Require Import DispatchGen.
Theorem C12_alpha_increasing : forall p q, (0 <= p)%R -> (p < q)%R -> (q <= 400)%R -> (alphaR p < alphaR q)%R.
Proof. exact kaiser_alpha_increasing. Qed.
Theorem C12_alpha_range : (1 < alphaR 40 /\ alphaR 200 < 9)%R.
Proof. exact kaiser_alpha_values. Qed.
Theorem C12_window_is_dft_even_kaiser : window_kaiser_ok = true.
Proof. reflexivity. Qed.
Print Assumptions C12_alpha_increasing.
Print Assumptions C12_alpha_range.
Print Assumptions C12_window_is_dft_even_kaiser.
