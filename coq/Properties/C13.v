(* C13 — inputs are handled robustly: sanitised, layout-independent (statements only) *)
From Coq Require Import ZArith List Bool PrimFloat Reals.
Close Scope R_scope.
From SK Require Import Arith Cpx Ingest AttrThms.
From SK.gen Require Import AttrsGen.
Import ListNotations.

Theorem C13_layout_independent : forall (X : Type) (a b : list X) d, length a = length b -> length a <> 2%nat -> length a <> 0%nat ->
  ingest X d (TwoD X [a; b]) = Cross X a b /\ ingest X d (TwoD X (rows_of_cols X a b)) = Cross X a b.
Proof. exact layout_independent. Qed.
Theorem C13_two_by_two_is_rows : forall (X : Type) (a0 a1 b0 b1 d : X), ingest X d (TwoD X [[a0; a1]; [b0; b1]]) = Cross X [a0; a1] [b0; b1].
Proof. exact two_by_two_is_rows. Qed.
Theorem C13_sanitize_all_finite : forall v, forallb f_isfinite (sanitize v) = true.
Proof. exact sanitize_all_finite. Qed.
Theorem C13_sanitize_keeps_finite : forall v, forallb f_isfinite v = true -> sanitize v = v.
Proof. exact sanitize_keeps_finite. Qed.
Theorem C13_result_equals_zero_filled : forall (Res : Type) (analyse : list float -> Res) v, analyse (sanitize v) = analyse (sanitize (sanitize v)).
Proof. exact @result_equals_zero_filled. Qed.
(* guarded divisions of the regenerated attribute table: a zero denominator yields 0, never a division *)
Theorem C13_coherence_guard : forall angle unwrap (e : env RA), (e_XX e = 0 \/ e_YY e = 0)%R -> g_coh_csd RA (FR angle unwrap) e = 0%R.
Proof. exact coh_zero_case. Qed.
Print Assumptions C13_layout_independent.
Print Assumptions C13_sanitize_all_finite.
Print Assumptions C13_coherence_guard.
Print Assumptions C13_two_by_two_is_rows.
Print Assumptions C13_sanitize_keeps_finite.
Print Assumptions C13_result_equals_zero_filled.
