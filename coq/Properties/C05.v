(* C05 — a computed spectrum is the reference estimator applied to its own plan (statements only) *)
From Coq Require Import ZArith List Bool String.
From Coq Require Import Reals.
From SK Require Import Arith Dispatch Hist SingleBin.
From SK.gen Require Import DispatchGen.
Import ListNotations.

(* the dispatch extracted from the CURRENT source: every one of the 48 paths calls the kernel of its order/mode/backend
   with (x1[,x2], starts, L, w, omega[, Q]) in that order (finite, exhaustive: vm_compute) *)
Theorem C05_dispatch_table_ok : table_ok dispatch_table = true.
Proof. vm_compute. reflexivity. Qed.
Theorem C05_dispatch_rows : forall r, In r dispatch_table -> r_callee r = expected_callee r /\ r_args r = expected_args r.
Proof. apply table_ok_rows. exact C05_dispatch_table_ok. Qed.
(* omega is computed from the frequency in Hz, and the Kaiser window is the DFT-even construction, in both methods *)
Theorem C05_omega_from_frequency : omega_exprs = ["2.0 * np.pi * f_i / fs"; "2.0 * _np.pi * float(freq) / float(self.fs)"]%string.
Proof. reflexivity. Qed.
Theorem C05_kaiser_dft_even : window_kaiser_ok = true.
Proof. reflexivity. Qed.
(* per-L window cache / per-(L,order) basis cache are transparent: any lookup sequence returns freshly built values *)
Theorem C05_cache_transparent : forall (Key Val : Type) key_eqb (build : Key -> Val),
  (forall a b, key_eqb a b = true -> a = b) -> forall ks c, cinv Key Val build c ->
  access Key Val key_eqb build (fun _ => []) c ks = map build ks.
Proof. intros. apply attr_order_independent; assumption. Qed.
(* band restriction: filtering every per-bin field with the same mask keeps the fields aligned *)
Theorem C05_band_fields_aligned : forall (X Y : Type) (m : list bool) (a : list X) (b : list Y),
  combine (filter_mask m a) (filter_mask m b) = filter_mask m (combine a b).
Proof. exact @filter_mask_combine. Qed.
(* single-bin analyses: the reported segmentation lies inside the record, starts at 0 and has exactly the reported count *)
Theorem C05_single_bin_segmentation : forall (N L : Z) (olap : R), (1 <= L <= N)%Z -> (0 <= olap < 1)%R ->
  let d := sb_starts RA N L olap in
  d <> [] /\ hd (-1)%Z d = 0%Z /\ Forall (fun s => (0 <= s /\ s + L <= N)%Z) d /\
  List.length d = Z.to_nat (Z.max 1 (if (N =? L)%Z then 1 else sb_navg RA N L olap)).
Proof. exact single_bin_segmentation. Qed.
Print Assumptions C05_single_bin_segmentation.
Print Assumptions C05_dispatch_rows.
Print Assumptions C05_cache_transparent.
Print Assumptions C05_dispatch_table_ok.
Print Assumptions C05_omega_from_frequency.
Print Assumptions C05_kaiser_dft_even.
Print Assumptions C05_band_fields_aligned.
