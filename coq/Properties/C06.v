(* C06 — spectral densities are calibrated: power, bandwidth and scaling laws (statements only; GENERATED table) *)
From Coq Require Import ZArith List Bool Reals.
From SK Require Import Arith Cpx AttrThms KernelPrims Kernels KernelThms GenRef KernelLin DetrendPoly Sinusoid.
From SK.gen Require Import AttrsGen KernelsGen.
Import ListNotations.
Close Scope Z_scope.
Section C06.
Variable angle : R * R -> R. Variable unwrap : R -> R.
Notation F := (FR angle unwrap).
Theorem C06_ENBW : forall e : env RA, e_S12 e <> 0%R -> g_ENBW_auto RA F e = (e_fs e * e_S2 e / e_S12 e)%R /\ g_ENBW_csd RA F e = (e_fs e * e_S2 e / e_S12 e)%R.
Proof. intros e H. split; [apply ENBW_value|apply ENBW_csd_value]; assumption. Qed.
Theorem C06_power_spectrum : forall e : env RA, e_S2 e <> 0%R -> e_S12 e <> 0%R -> e_fs e <> 0%R -> g_ps_auto RA F e = (2 * e_XX e / e_S12 e)%R.
Proof. exact (ps_is_2XX_over_S12 angle unwrap). Qed.
Theorem C06_density_normalisation : forall e : env RA, e_S2 e <> 0%R -> g_Gxx_auto RA F e = (2 * e_XX e / (e_fs e * e_S2 e))%R.
Proof. exact (Gxx_value angle unwrap). Qed.
Theorem C06_channel_scaling : forall c d (e : env RA),
  g_Gxx_csd RA F (scale_env c d e) = (c * c * g_Gxx_csd RA F e)%R /\
  g_Gyy_csd RA F (scale_env c d e) = (d * d * g_Gyy_csd RA F e)%R /\
  g_Gxy_csd RA F (scale_env c d e) = cscale RA (c * d) (g_Gxy_csd RA F e).
Proof. intros. repeat split; [apply Gxx_scales|apply Gyy_scales|apply Gxy_scales]. Qed.
Theorem C06_fs_relabelling : forall a (e : env RA), a <> 0%R -> e_fs e <> 0%R ->
  g_ENBW_auto RA F (relabel_env a e) = (a * g_ENBW_auto RA F e)%R /\ g_Gxx_auto RA F (relabel_env a e) = (g_Gxx_auto RA F e / a)%R.
Proof. intros a e Ha Hf. split; [apply ENBW_relabel|apply Gxx_relabel; assumption]. Qed.
(* the statistics themselves: scaling channel 1 by c and channel 2 by d scales what the regenerated Numba cross kernels
   return by (c^2, d^2, c d, c d, (c d)^2), for every window, frequency, start vector and detrend mode *)
Theorem C06_kernel_homogeneity_win : forall c d (x1 x2 w : list R) starts L omega,
  gen_stats_win_only_csd RA cos sin (scaleL c x1) (scaleL d x2) starts L w omega =
  let '(MXX, MYY, mur, mui, M2) := gen_stats_win_only_csd RA cos sin x1 x2 starts L w omega in
  ((c * c * MXX)%R, (d * d * MYY)%R, (c * d * mur)%R, (c * d * mui)%R, ((c * d) * (c * d) * M2)%R).
Proof. intros. rewrite !Gen_win_only_csd_ref. apply (ref_csd_scale _ _ (fun x => samp_win RA x w)). apply linear_samp_win. Qed.
Theorem C06_kernel_homogeneity_detrend0 : forall c d (x1 x2 w : list R) starts L omega,
  gen_stats_detrend0_csd RA cos sin (scaleL c x1) (scaleL d x2) starts L w omega =
  let '(MXX, MYY, mur, mui, M2) := gen_stats_detrend0_csd RA cos sin x1 x2 starts L w omega in
  ((c * c * MXX)%R, (d * d * MYY)%R, (c * d * mur)%R, (c * d * mui)%R, ((c * d) * (c * d) * M2)%R).
Proof. intros. rewrite !Gen_detrend0_csd_ref. apply (ref_csd_scale _ _ (fun x => samp_mean0 RA x w L)). apply linear_samp_mean0. Qed.
Theorem C06_kernel_homogeneity_poly : forall c d (x1 x2 w : list R) starts L omega Q,
  gen_stats_poly_csd RA cos sin (scaleL c x1) (scaleL d x2) starts L w omega Q =
  let '(MXX, MYY, mur, mui, M2) := gen_stats_poly_csd RA cos sin x1 x2 starts L w omega Q in
  ((c * c * MXX)%R, (d * d * MYY)%R, (c * d * mur)%R, (c * d * mui)%R, ((c * d) * (c * d) * M2)%R).
Proof. intros. rewrite !Gen_poly_csd_ref. apply (ref_csd_scale _ _ (fun x => samp_poly RA x w Q L)). apply linear_samp_poly. Qed.
(* PARTIAL: the sinusoid response A^2/2 up to the window's leakage is checked by the calibration sweep, not proved here;
   (superseded) that the statistics themselves scale as XX -> c^2 XX, XY -> c d XY (kernel homogeneity) and the sinusoid
   response A^2/2 up to the window's leakage are checked by the direct oracle / C01's definition, not restated here. *)
End C06.
(* a sinusoid A cos(w0 n + phi) seen through ANY real window, analysed at its own frequency (X as in the definition of C01):
   X(w0) = (A/2)(e^{i phi} S1 + e^{-i phi} W(2 w0)); the power spectrum 2|X|^2/S1^2 deviates from A^2/2 by at most
   2 rho + rho^2 with rho = |W(2 w0)|/S1 — the window's leakage from the negative-frequency image *)
Theorem C06_sinusoid_response : forall (win : nat -> R) (A w0 phi : R) (L : Z),
  dft_def w0 (sig win A w0 phi) L =
  ((A / 2 * (cos phi * S1 win L + C2 win w0 phi L))%R, (A / 2 * (sin phi * S1 win L - S2 win w0 phi L))%R).
Proof. exact sinusoid_response. Qed.
Theorem C06_sinusoid_calibration_bound : forall (win : nat -> R) (A w0 phi : R) (L : Z), S1 win L <> 0%R ->
  let X := dft_def w0 (sig win A w0 phi) L in let rho := sqrt (rho2 win w0 phi L) in
  (Rabs ((fst X * fst X + snd X * snd X) / ((A / 2) * (A / 2) * (S1 win L * S1 win L)) - 1) <= 2 * rho + rho * rho)%R \/ A = 0%R.
Proof. exact sinusoid_calibration_bound. Qed.
Print Assumptions C06_sinusoid_calibration_bound.
Print Assumptions C06_power_spectrum.
Print Assumptions C06_channel_scaling.
Print Assumptions C06_kernel_homogeneity_poly.
Print Assumptions C06_ENBW.
Print Assumptions C06_density_normalisation.
Print Assumptions C06_fs_relabelling.
Print Assumptions C06_kernel_homogeneity_win.
Print Assumptions C06_kernel_homogeneity_detrend0.
Print Assumptions C06_sinusoid_response.
