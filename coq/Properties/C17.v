(* C17 — noise generators are seed-reproducible continuous streams (statements only; any carrier => bit-exact at binary64) *)
From Coq Require Import ZArith QArith List Bool.
Close Scope Q_scope.
From SK Require Import Arith Noise NoiseDF.
From Coq Require Import Reals.
Close Scope R_scope.
Import ListNotations.
Theorem C17_filter_state_carried : forall (A : Arith) (c : section A) xs ys z,
  filt1 A c (xs ++ ys) z = let '(o1, z1) := filt1 A c xs z in let '(o2, z2) := filt1 A c ys z1 in (o1 ++ o2, z2).
Proof. exact filt1_app. Qed.
Theorem C17_cascade_state_carried : forall (A : Arith) cs xs ys zs, length zs = length cs ->
  cascade A cs (xs ++ ys) zs = let '(o1, z1) := cascade A cs xs zs in let '(o2, z2) := cascade A cs ys z1 in (o1 ++ o2, z2).
Proof. exact cascade_app. Qed.
(* any sequence of block requests, zeros and ones included, equals one request of the total length (samples and final state) *)
Theorem C17_chunk_invariance : forall (A : Arith) (stream : nat -> T A) cs scale sizes st, length (zstate A st) = length cs ->
  get_many A stream cs scale st sizes = get_series A stream cs scale st (fold_right Nat.add 0 sizes).
Proof. exact chunk_invariance. Qed.
(* the colouring section equals the direct-form reference IIR (exact arithmetic): y[n] = a0 x[n] + a1 x[n-1] - b1 y[n-1] *)
Theorem C17_section_is_direct_form : forall (c : section RA) xs xprev yprev,
  fst (filt1 RA c xs (a1 RA c * xprev - b1 RA c * yprev)%R) = df1 c xs xprev yprev.
Proof. exact filt1_is_direct_form. Qed.
Theorem C17_state_is_direct_form_memory : forall (c : section RA) xs xprev yprev, xs <> [] ->
  snd (filt1 RA c xs (a1 RA c * xprev - b1 RA c * yprev)%R) = (a1 RA c * last xs 0 - b1 RA c * last (df1 c xs xprev yprev) 0)%R.
Proof. exact filt1_state_is_direct_form_memory. Qed.
(* non-vacuity: a concrete three-section generator, sizes [0;2;0;1;3] vs [6], at exact rationals *)
Open Scope Q_scope.
Example C17_chunking_example :
  let cs := [mkSec QA (3#2) (-(1#2)) (-(1#4)); mkSec QA (5#4) (-(3#4)) (-(1#2)); mkSec QA 1 0 (-(9#10))] in
  let st := mkG QA 0 [0; (1#3); 0] in
  let stream := fun n : nat => (Z.of_nat n * Z.of_nat n - 3)%Z # 7 in
  fst (get_many QA stream cs (2#1) st [0; 2; 0; 1; 3]%nat) = fst (get_series QA stream cs (2#1) st 6).
Proof. vm_compute. reflexivity. Qed.
Print Assumptions C17_chunk_invariance.
Print Assumptions C17_cascade_state_carried.
Print Assumptions C17_filter_state_carried.
Print Assumptions C17_section_is_direct_form.
Print Assumptions C17_state_is_direct_form_memory.
