(* C14 — results do not depend on thread scheduling or on call history (statements only) *)
From Coq Require Import List Bool Arith Permutation.
From SK Require Import Hist.
Import ListNotations.

(* any interleaving of a loop whose iteration j writes only slot j leaves the same arrays, and slot k holds f k *)
Theorem C14_parallel_loop_deterministic : forall (V : Type) (f : nat -> V) K sched,
  Permutation (loop_writes V f K) sched -> forall m k, run V sched m k = run V (loop_writes V f K) m k.
Proof. exact parallel_loop_deterministic. Qed.
Theorem C14_parallel_loop_value : forall (V : Type) (f : nat -> V) K m k, k < K -> run V (loop_writes V f K) m k = f k.
Proof. exact run_loop_value. Qed.
Theorem C14_schedule_independent : forall (V : Type) (ws ws' : list (nat * V)),
  Permutation ws ws' -> NoDup (map fst ws) -> forall m k, run V ws m k = run V ws' m k.
Proof. exact schedule_independent. Qed.

(* plan cache: every operation of every history returns what it returns on a fresh analyzer *)
Theorem C14_history_independent : forall (Plan Res Single Arg : Type) mkplan compute_with single (ops : list (op Arg)) st,
  inv Plan mkplan st -> run_ops Plan Res Single Arg mkplan compute_with single st ops = map (fresh Plan Res Single Arg mkplan compute_with single) ops.
Proof. intros. apply history_independent. assumption. Qed.

(* attribute cache: every access sequence returns the pure values; cached entries stay equal to them *)
Theorem C14_attr_order_independent : forall (Name Val : Type) name_eqb pure_val deps,
  (forall a b, name_eqb a b = true -> a = b) -> forall ns c, cinv Name Val pure_val c ->
  access Name Val name_eqb pure_val deps c ns = map pure_val ns.
Proof. intros. apply attr_order_independent; assumption. Qed.

Print Assumptions C14_parallel_loop_deterministic.
Print Assumptions C14_history_independent.
Print Assumptions C14_attr_order_independent.
Print Assumptions C14_parallel_loop_value.
Print Assumptions C14_schedule_independent.
