(* C11 — empirical error estimates are the segment scatter in spectral units (statements only) *)
From Coq Require Import ZArith List Bool Reals.
From SK Require Import Arith Cpx KernelPrims Kernels AttrThms GenRef CauchySchwarz KernelCS Rms Scatter.
From SK.gen Require Import AttrsGen KernelsGen.
Import ListNotations.
Section C11.
Variable angle : R * R -> R. Variable unwrap : R -> R.
Notation F := (FR angle unwrap).
Theorem C11_emp_var : forall e : env RA, (0 < e_navg e)%R ->
  g_XY_emp_var_csd RA F e = (e_M2 e / e_navg e)%R /\ g_XY_emp_var_auto RA F e = (e_M2 e / e_navg e)%R /\
  g_XY_emp_dev_csd RA F e = sqrt (e_M2 e / e_navg e).
Proof. intros e H. repeat split; [apply emp_var_value|apply emp_var_auto_value|apply emp_dev_value]; assumption. Qed.
Theorem C11_spectral_units : forall e : env RA, (0 < e_navg e)%R -> (0 < e_S2 e)%R ->
  g_Gxy_emp_dev_csd RA F e = (2 / (e_fs e * e_S2 e) * sqrt (e_M2 e / e_navg e))%R /\
  g_Gxx_emp_dev_auto RA F e = (2 / (e_fs e * e_S2 e) * sqrt (e_M2 e / e_navg e))%R.
Proof. intros e H1 H2. split; [apply Gxy_emp_dev_value|apply Gxx_emp_dev_value]; assumption. Qed.
(* the reducer generated from _reduce_stats_nb: M2 is 0 for a single segment and zeros for no segment (any carrier) *)
Theorem C11_M2_single_segment : forall (A : Arith) c s (a b cc d : T A),
  gen_reduce_stats_nb A c s [a] [b] [cc] [d] = (meanT A [a], meanT A [b], meanT A [cc], meanT A [d], ofZ A 0).
Proof. intros. reflexivity. Qed.
Theorem C11_M2_no_segment : forall (A : Arith) c s, gen_reduce_stats_nb A c s [] [] [] [] = (ofZ A 0, ofZ A 0, ofZ A 0, ofZ A 0, ofZ A 0).
Proof. intros. reflexivity. Qed.
(* the scatter statistic returned by the regenerated cross kernels is never negative (any records, any non-empty starts) *)
Theorem C11_M2_nonneg : forall (x1 x2 w : list R) (starts : list Z) L omega, starts <> [] ->
  let '(MXX, MYY, mur, mui, M2) := gen_stats_win_only_csd RA cos sin x1 x2 starts L w omega in (0 <= M2)%R.
Proof.
  intros. rewrite Gen_win_only_csd_ref. pose proof (ref_csd_cauchy_schwarz (cos omega) (sin omega) (samp_win RA x1 w) (samp_win RA x2 w) starts L H) as C.
  destruct (ref_csd RA _ _ _ _ starts L) as [[[[a b] c] d] e]. tauto.
Qed.
End C11.
Print Assumptions C11_spectral_units.
Print Assumptions C11_M2_single_segment.
Print Assumptions C11_M2_nonneg.
Print Assumptions C11_emp_var.
Print Assumptions C11_M2_no_segment.
(* scatter about the mean, not about zero and not with Re(mu^2): for per-segment products Z_k = (a_k, b_k) of any length n >= 1,
   mean |Z_k - mu|^2 = mean |Z_k|^2 - (mu_r^2 + mu_i^2); a one-pass form subtracting Re(mu^2) exceeds it by exactly 2 mu_i^2 *)
Theorem C11_scatter_is_second_moment_minus_mean_modulus : forall a b : list R, a <> [] -> length a = length b ->
  ((sumsq_dev a (mean a) + sumsq_dev b (mean b)) / INR (length a) =
   (sumsq a + sumsq b) / INR (length a) - (mean a * mean a + mean b * mean b))%R.
Proof. exact koenig_huygens_complex. Qed.
Theorem C11_one_pass_with_real_part_of_square_is_wrong : forall a b : list R, a <> [] -> length a = length b ->
  ((sumsq a + sumsq b) / INR (length a) - (mean a * mean a - mean b * mean b) =
   (sumsq_dev a (mean a) + sumsq_dev b (mean b)) / INR (length a) + 2 * (mean b * mean b))%R.
Proof. exact wrong_one_pass_excess. Qed.
Print Assumptions C11_scatter_is_second_moment_minus_mean_modulus.
Print Assumptions C11_one_pass_with_real_part_of_square_is_wrong.
