(* C18 — synthesised noise has the prescribed spectrum (statements only).
   PARTIAL: the "within about 1 dB of f^-alpha" fit is an approximation statement, swept analytically (closed-form section responses). *)
From Coq Require Import ZArith List Reals.
From SK Require Import Arith NoiseSpec DetrendPoly Systems Idft.
Theorem C18_hermitian_construction : forall (C : Type) (conj realpart : C -> C) (mulc : C -> C -> C),
  (forall z, conj (conj z) = z) -> (forall z, conj (realpart z) = realpart z) ->
  forall N F rot k, (2 <= N)%Z -> (0 < k < N)%Z -> herm C conj realpart mulc N F rot (N - k) = conj (herm C conj realpart mulc N F rot k).
Proof. intros. apply herm_hermitian; assumption. Qed.
Theorem C18_dc_and_nyquist_real : forall (C : Type) (conj realpart : C -> C) (mulc : C -> C -> C) N F rot,
  herm C conj realpart mulc N F rot 0 = realpart (F 0%Z) /\
  ((2 <= N)%Z -> (N mod 2 = 0)%Z -> herm C conj realpart mulc N F rot (N / 2) = realpart (F (N / 2)%Z)).
Proof. intros. split; [reflexivity|apply herm_nyquist_real]. Qed.
Theorem C18_section_gains : forall fs fmin fmax, (0 < fs)%R -> (0 < fmin)%R -> (0 < fmax)%R ->
  let '(a0, a1, b1) := sec_coeffs RA PI fs fmin fmax in
  ((a0 + a1) / (1 - b1) = fmax / fmin /\ (a0 - a1) / (1 + b1) = 1 /\ -1 < b1 < 1)%R.
Proof.
  intros fs fmin fmax H1 H2 H3. pose proof (section_dc_gain fs fmin fmax H1 H2 H3) as A1.
  pose proof (section_nyquist_gain fs fmin fmax H1 H2 H3) as A2. pose proof (section_pole_inside fs fmin fmax H1 H2) as A3.
  destruct (sec_coeffs RA PI fs fmin fmax) as [[a0 a1] b1]. auto.
Qed.
Theorem C18_section_response : forall a0 a1 b1 w, (1 + b1 * b1 - 2 * b1 * cos w <> 0)%R ->
  (((a0 + a1 * cos w) * (a0 + a1 * cos w) + (a1 * sin w) * (a1 * sin w)) / ((1 - b1 * cos w) * (1 - b1 * cos w) + (b1 * sin w) * (b1 * sin w))
   = sec_mag2 a0 a1 b1 w)%R.
Proof. exact sec_mag2_is_response. Qed.
(* the inverse DFT of the constructed spectrum is exactly real for every length and every sample index: `.real` discards nothing *)
Theorem C18_ifft_of_constructed_spectrum_is_real : forall (N : nat) (F rot : Z -> C) (n : nat), (2 <= N)%nat ->
  Sum N (im_term N n (fun k => fst (hermC (Z.of_nat N) F rot (Z.of_nat k))) (fun k => snd (hermC (Z.of_nat N) F rot (Z.of_nat k)))) = 0%R.
Proof. exact fftnoise_ifft_is_real. Qed.
Theorem C18_idft_of_hermitian_is_real : forall (N n : nat) (re im : nat -> R), (1 <= N)%nat ->
  (forall k, (0 < k < N)%nat -> re (N - k)%nat = re k) -> (forall k, (0 < k < N)%nat -> im (N - k)%nat = (- im k)%R) -> im 0%nat = 0%R ->
  Sum N (im_term N n re im) = 0%R.
Proof. exact idft_of_hermitian_is_real. Qed.
(* magnitudes are the prescribed ones: unit-modulus phases and the mirror keep |F_k| *)
Theorem C18_magnitudes_preserved : forall (N : Z) (F rot : Z -> C) (k : Z), (2 <= N)%Z -> (forall j, cabs2 (rot j) = 1%R) ->
  ((1 <= k <= Np N)%Z -> cabs2 (hermC N F rot k) = cabs2 (F k)) /\
  ((N - Np N <= k <= N - 1)%Z -> cabs2 (hermC N F rot k) = cabs2 (F (N - k)%Z)).
Proof. exact fftnoise_magnitudes. Qed.
Print Assumptions C18_hermitian_construction.
Print Assumptions C18_ifft_of_constructed_spectrum_is_real.
Print Assumptions C18_section_gains.
Print Assumptions C18_dc_and_nyquist_real.
Print Assumptions C18_section_response.
Print Assumptions C18_idft_of_hermitian_is_real.
Print Assumptions C18_magnitudes_preserved.
