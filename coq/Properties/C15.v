(* C15 — optimal multi-input subtraction yields a physical, consistent residual (statements only).
   The residual expression is proved, for ANY number of inputs q and any number of accumulated segments, to be the sum of
   squares sum_k |Y_k - sum_i conj(H_i) X_ik|^2 for any coefficients H (real, >= 0), to lie in [0, S00] at any solution of the
   code's system T H = S, to vanish for exact static combinations and not to depend on the order of the inputs.
   A solution of T H = S minimises the residual, so every solution (analytic or numeric solver, solve or pinv) gives the same
   residual, and invertibly re-mixing the inputs leaves the optimal residual unchanged.  All at exact (real) arithmetic;
   that sympy / np.linalg return a solution of the stated system is validated numerically on the implementation. *)
From Coq Require Import Reals List Permutation.
From SK Require Import Systems SystemsGen.
Theorem C15_residual_is_square_q1 : forall H X Y, resid1 H X Y = ofR (cabs2 (csub Y (cmul (cconj H) X))).
Proof. exact resid1_is_square. Qed.
Theorem C15_residual_is_square_q2 : forall H1 H2 X1 X2 Y,
  resid2 H1 H2 X1 X2 Y = ofR (cabs2 (csub (csub Y (cmul (cconj H1) X1)) (cmul (cconj H2) X2))).
Proof. exact resid2_is_square. Qed.
Theorem C15_residual_nonneg : forall H1 H2 X1 X2 Y, (0 <= fst (resid2 H1 H2 X1 X2 Y))%R /\ snd (resid2 H1 H2 X1 X2 Y) = 0%R.
Proof. exact resid_nonneg_2. Qed.
Theorem C15_siso_residual : forall (S10 : C) (S00 T11 : R), (0 < T11)%R ->
  resid1_avg ((fst S10 / T11)%R, (snd S10 / T11)%R) S10 S00 T11 = ofR (S00 - cabs2 S10 / T11)%R.
Proof. exact siso_residual_at_solution. Qed.
Theorem C15_siso_bounds : forall (S10 : C) (S00 T11 : R), (0 < T11)%R -> (0 <= S00)%R -> (cabs2 S10 <= T11 * S00)%R ->
  (0 <= S00 - cabs2 S10 / T11 <= S00)%R.
Proof. exact siso_residual_bounds. Qed.
Theorem C15_exact_combination_zero : forall H X, resid1 H X (cmul (cconj H) X) = ofR 0%R.
Proof. exact exact_combination_zero. Qed.
Theorem C15_permutation_invariant : forall H1 H2 X1 X2 Y, resid2 H1 H2 X1 X2 Y = resid2 H2 H1 X2 X1 Y.
Proof. exact permutation_invariant_2. Qed.
(* ---- any q, spectra accumulated over any number of segments ---- *)
Theorem C15_residual_is_sum_of_squares : forall q H segs,
  resid_expr q H (acc_S00 segs) (acc_S segs) (acc_T segs) = ofR (sum_sq q H segs).
Proof. exact resid_accumulated_is_sum_of_squares. Qed.
Theorem C15_residual_physical_any_q : forall q H segs (c : R), (0 <= c)%R ->
  let r := resid_expr q H (c * acc_S00 segs)%R (fun i => cmul (ofR c) (acc_S segs i)) (fun j i => cmul (ofR c) (acc_T segs j i)) in
  (0 <= fst r)%R /\ snd r = 0%R.
Proof. exact resid_mean_physical. Qed.
Theorem C15_residual_at_solution_any_q : forall q H segs,
  (forall i, (i < q)%nat -> csumf (fun j => cmul (acc_T segs i j) (H j)) q = acc_S segs i) ->
  resid_expr q H (acc_S00 segs) (acc_S segs) (acc_T segs) = ofR (acc_S00 segs - sum_model_sq q H segs)%R
  /\ (0 <= acc_S00 segs - sum_model_sq q H segs <= acc_S00 segs)%R.
Proof. exact resid_at_solution. Qed.
Theorem C15_exact_combination_zero_any_q : forall q H segs, (forall X Y, In (X, Y) segs -> Y = model_out q H X) ->
  resid_expr q H (acc_S00 segs) (acc_S segs) (acc_T segs) = czero.
Proof. exact resid_exact_combination_zero. Qed.
Theorem C15_input_order_independent : forall q H X (order : list nat), Permutation (seq 0 q) order ->
  csum (map (fun i => cmul (cconj (H i)) (X i)) order) = model_out q H X.
Proof. exact model_out_order_independent. Qed.
Theorem C15_solution_is_optimal : forall q Hs H segs,
  (forall i, (i < q)%nat -> csumf (fun j => cmul (acc_T segs i j) (Hs j)) q = acc_S segs i) ->
  (sum_sq q Hs segs <= sum_sq q H segs)%R.
Proof. exact solution_is_optimal. Qed.
Theorem C15_all_solutions_same_residual : forall q H1 H2 segs,
  (forall i, (i < q)%nat -> csumf (fun j => cmul (acc_T segs i j) (H1 j)) q = acc_S segs i) ->
  (forall i, (i < q)%nat -> csumf (fun j => cmul (acc_T segs i j) (H2 j)) q = acc_S segs i) ->
  resid_expr q H1 (acc_S00 segs) (acc_S segs) (acc_T segs) = resid_expr q H2 (acc_S00 segs) (acc_S segs) (acc_T segs).
Proof. exact residual_same_for_all_solutions. Qed.
Theorem C15_remix_invariant : forall q M N Hs Hs' segs,
  (forall a b, (a < q)%nat -> (b < q)%nat -> csumf (fun j => cmul (N a j) (M j b)) q = if Nat.eqb a b then ofR 1%R else czero) ->
  (forall i, (i < q)%nat -> csumf (fun j => cmul (acc_T segs i j) (Hs j)) q = acc_S segs i) ->
  (forall i, (i < q)%nat -> csumf (fun j => cmul (acc_T (remix_segs M q segs) i j) (Hs' j)) q = acc_S (remix_segs M q segs) i) ->
  resid_expr q Hs' (acc_S00 (remix_segs M q segs)) (acc_S (remix_segs M q segs)) (acc_T (remix_segs M q segs))
  = resid_expr q Hs (acc_S00 segs) (acc_S segs) (acc_T segs).
Proof. exact remix_invariant. Qed.
Theorem C15_expression_instance_q1 : forall (H X Y : C),
  resid_expr 1 (fun _ => H) (cabs2 Y) (fun _ => S_i0 X Y) (fun _ _ => T_ij X X) = resid1 H X Y.
Proof. exact resid_expr_q1. Qed.
Theorem C15_expression_instance_q2 : forall (H1 H2 X1 X2 Y : C),
  let Hf := fun i => match i with O => H1 | _ => H2 end in let Xf := fun i => match i with O => X1 | _ => X2 end in
  resid_expr 2 Hf (cabs2 Y) (fun i => S_i0 (Xf i) Y) (fun j i => T_ij (Xf j) (Xf i)) = resid2 H1 H2 X1 X2 Y.
Proof. exact resid_expr_q2. Qed.
Print Assumptions C15_residual_is_square_q2.
Print Assumptions C15_residual_at_solution_any_q.
Print Assumptions C15_remix_invariant.
Print Assumptions C15_siso_bounds.
Print Assumptions C15_residual_is_square_q1.
Print Assumptions C15_residual_nonneg.
Print Assumptions C15_siso_residual.
Print Assumptions C15_exact_combination_zero.
Print Assumptions C15_permutation_invariant.
Print Assumptions C15_residual_is_sum_of_squares.
Print Assumptions C15_residual_physical_any_q.
Print Assumptions C15_exact_combination_zero_any_q.
Print Assumptions C15_input_order_independent.
Print Assumptions C15_solution_is_optimal.
Print Assumptions C15_all_solutions_same_residual.
Print Assumptions C15_expression_instance_q1.
Print Assumptions C15_expression_instance_q2.
