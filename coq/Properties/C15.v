(* C15 — optimal multi-input subtraction yields a physical, consistent residual (statements only).
   PARTIAL: proved per segment for q = 1, 2 and on averaged statistics for q = 1; q = 3, 4, re-mixing invariance and
   analytic = numeric are decided by the oracle on the implementation. *)
From Coq Require Import Reals.
From SK Require Import Systems.
Theorem C15_residual_is_square_q1 : forall H X Y, resid1 H X Y = ofR (cabs2 (csub Y (cmul (cconj H) X))).
Proof. exact resid1_is_square. Qed.
Theorem C15_residual_is_square_q2 : forall H1 H2 X1 X2 Y,
  resid2 H1 H2 X1 X2 Y = ofR (cabs2 (csub (csub Y (cmul (cconj H1) X1)) (cmul (cconj H2) X2))).
Proof. exact resid2_is_square. Qed.
Theorem C15_residual_nonneg : forall H1 H2 X1 X2 Y, (0 <= fst (resid2 H1 H2 X1 X2 Y))%R /\ snd (resid2 H1 H2 X1 X2 Y) = 0%R.
Proof. exact resid_nonneg_2. Qed.
Theorem C15_siso_residual : forall (S10 : C) (S00 T11 : R), (0 < T11)%R ->
  resid1_avg ((fst S10 / T11)%R, (snd S10 / T11)%R) S10 S00 T11 = ofR (S00 - cabs2 S10 / T11)%R.
Proof. exact siso_residual_at_solution. Qed.
Theorem C15_siso_bounds : forall (S10 : C) (S00 T11 : R), (0 < T11)%R -> (0 <= S00)%R -> (cabs2 S10 <= T11 * S00)%R ->
  (0 <= S00 - cabs2 S10 / T11 <= S00)%R.
Proof. exact siso_residual_bounds. Qed.
Theorem C15_exact_combination_zero : forall H X, resid1 H X (cmul (cconj H) X) = ofR 0%R.
Proof. exact exact_combination_zero. Qed.
Theorem C15_permutation_invariant : forall H1 H2 X1 X2 Y, resid2 H1 H2 X1 X2 Y = resid2 H2 H1 X2 X1 Y.
Proof. exact permutation_invariant_2. Qed.
Print Assumptions C15_residual_is_square_q2.
Print Assumptions C15_siso_bounds.
