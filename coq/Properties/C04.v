(* C04 — resolution is log-spaced and monotone; averaging honours the overlap (statements only) *)
From Coq Require Import ZArith List Reals.
From SK Require Import Arith Sched SchedThms SchedThms2 SchedMono SchedMonoVec SchedTerm.
Import ListNotations.

(* along every iterative LTF/LPSD plan (any admissible configuration, logfact > 0, x**0.5 the real square root):
   the segment length never increases and the number of averages never decreases with frequency *)
Theorem C04_plan_monotone : forall fuel (c : cfg RA), admissible c -> (0 < clogfact c)%R -> forall fi bs, (0 < fi)%R ->
  ltf_loop RA sqrt_oracle fuel c fi = Ok bs -> plan_monotone bs.
Proof. exact ltf_plan_monotone. Qed.
Print Assumptions C04_plan_monotone.
(* the same for the vectorised planner, for any sorted positive lookup grid (np.sqrt the real square root) *)
Theorem C04_vectorized_plan_monotone : forall fuel (c : cfg RA) (grid : list R), admissible c -> (0 < clogfact c)%R ->
  sorted_grid grid -> Forall (fun g => (0 < g)%R) grid ->
  forall f bs, vec_walk RA sqrt fuel c grid f = Ok bs -> plan_monotone bs.
Proof. exact vec_plan_monotone. Qed.
Print Assumptions C04_vectorized_plan_monotone.
Theorem C04_step_monotone : forall (c : cfg RA), admissible c -> (0 < clogfact c)%R -> forall f1 f2 b1 b2, (0 < f1)%R -> (f1 <= f2)%R ->
  ltf_step RA sqrt_oracle c f1 = Some b1 -> ltf_step RA sqrt_oracle c f2 = Some b2 -> (bL b2 <= bL b1)%Z /\ (bK b1 <= bK b2)%Z.
Proof. exact ltf_step_monotone. Qed.

(* wherever the desired averaging is attainable (log-spaced regime, record long enough), at least Kdes averages are requested
   before the position cap: round(1 + (N-L)/(xov L)) >= Kdes *)
Theorem C04_Kdes_attained : forall (c : cfg RA) (fres : R), admissible c -> (0 < fres)%R -> (freslim RA c <= fres)%R ->
  let L0 := r_rhu (cfs c / fres) in (1 <= L0)%Z ->
  let x := (1 - colap c)%R in let a := (1 + x * IZR (cKdes c - 1))%R in
  (a * (a - x / 2) <= IZR (cN c) * x)%R -> (cKdes c <= nseg_raw RA (rhuZ RA) c L0)%Z.
Proof. exact Kdes_attained. Qed.
Print Assumptions C04_Kdes_attained.

(* K is the nearest integer to 1+(N-L)/((1-olap)L), or the cap N-L+1 (round-half-up and half-even variants) *)
Theorem C04_K_nearest_iterative : forall (c : cfg RA) l, let k := capK RA c l (nseg_raw RA (rhuZ RA) c l) in
  (Rabs (IZR k - K_ideal c l) <= /2)%R \/ (k = (cN c - l + 1)%Z /\ (IZR k <= K_ideal c l + /2)%R).
Proof. exact K_nearest_rhu. Qed.
Print Assumptions C04_K_nearest_iterative.
Theorem C04_K_nearest_vectorized : forall (c : cfg RA) l, let k := capK RA c l (nseg_raw RA (rintZ RA) c l) in
  (Rabs (IZR k - K_ideal c l) <= /2)%R \/ (k = (cN c - l + 1)%Z /\ (IZR k <= K_ideal c l + /2)%R).
Proof. exact K_nearest_rint. Qed.
Print Assumptions C04_K_nearest_vectorized.

(* every start within half a sample of i*(N-L)/(K-1) *)
Theorem C04_starts_even_iterative : forall (c : cfg RA) l k i,
  (1 <= l <= cN c)%Z -> (2 <= k <= cN c - l + 1)%Z -> (i < Z.to_nat k)%nat ->
  (Rabs (IZR (nth i (starts_iter RA c l k) (-1)%Z) - INR i * (IZR (cN c - l) / IZR (k - 1))) <= /2)%R.
Proof. exact starts_iter_even. Qed.
Print Assumptions C04_starts_even_iterative.
Theorem C04_starts_even_vectorized : forall (c : cfg RA) l k i, (2 <= k)%Z -> (i < Z.to_nat k)%nat ->
  (Rabs (IZR (nth i (starts_vec RA c l k) (-1)%Z) - INR i * (IZR (cN c - l) / IZR (k - 1))) <= /2)%R.
Proof. exact starts_vec_even. Qed.
Print Assumptions C04_starts_even_vectorized.

(* reported overlap = realised mean overlap *)
Theorem C04_overlap_vectorized : forall (c : cfg RA) l k, (1 < k)%Z -> (0 < l)%Z ->
  O_vec RA c l k = (1 - IZR (cN c - l) / (IZR (k - 1) * IZR l))%R.
Proof. exact O_vec_realised. Qed.
Print Assumptions C04_overlap_vectorized.
Theorem C04_overlap_mean_telescopes : forall (l : Z) (d : list Z), (0 < l)%Z -> (2 <= length d)%nat ->
  (sumR (map (fun g => (IZR l - IZR g) / IZR l) (gaps d)) / INR (length (gaps d)) =
   1 - (IZR (last d 0%Z) - IZR (hd 0%Z d)) / (INR (length (gaps d)) * IZR l))%R.
Proof. exact mean_overlap_telescopes. Qed.
Print Assumptions C04_overlap_mean_telescopes.

(* log spacing where no clamp is active *)
Theorem C04_log_spacing : forall ph (c : cfg RA) fi b, admissible c -> (0 < fi)%R -> (0 < clogfact c)%R ->
  ltf_step RA ph c fi = Some b ->
  (freslim RA c <= fi * clogfact c)%R -> (cbmin c <= fi / (fi * clogfact c))%R ->
  (cLmin c <= r_rhu (cfs c / (fi * clogfact c)) <= cN c)%Z -> bK b <> 1%Z ->
  (Rabs (IZR (bL b) - cfs c / (fi * clogfact c)) <= /2)%R.
Proof. exact ltf_log_spacing. Qed.
Print Assumptions C04_log_spacing.

(* Jdes search: sound for ANY scheduler behaviour nf, always terminates within 21 probes; forced plans have exactly t bins *)
Theorem C04_find_Jdes_sound : forall nf t J, find_Jdes nf t = Some (Some J) -> nf J = t /\ (100 <= J <= 1000000)%Z.
Proof. exact find_Jdes_sound. Qed.
Print Assumptions C04_find_Jdes_sound.
Theorem C04_find_Jdes_total : forall nf t, find_Jdes nf t <> None.
Proof. exact find_Jdes_total. Qed.
Print Assumptions C04_find_Jdes_total.
Theorem C04_forced_plan_exact : forall (P : Type) (plan : Z -> P) nf t p, forced_plan plan nf t = Some p -> nf p = t.
Proof. exact @forced_plan_exact. Qed.
Print Assumptions C04_forced_plan_exact.
Print Assumptions C04_step_monotone.
