(* C10 — analytic error bars are the Bendat-Piersol expressions (statements only; on the GENERATED table) *)
From Coq Require Import ZArith List Bool Reals.
From SK Require Import Arith Cpx AttrThms AttrThms2.
From SK.gen Require Import AttrsGen.
Section C10.
Variable angle : R * R -> R. Variable unwrap : R -> R.
Notation F := (FR angle unwrap).
Notation coh e := (g_coh_csd RA F e).
Theorem C10_Gxx_dev : forall e : env RA, g_Gxx_dev_csd RA F e = (g_Gxx_csd RA F e / sqrt (e_navg e))%R /\ g_Gxx_dev_auto RA F e = (g_Gxx_auto RA F e / sqrt (e_navg e))%R.
Proof. intros e. split; reflexivity. Qed.
Theorem C10_Gxy_dev : forall e : env RA, (0 < coh e)%R -> (0 < e_navg e)%R ->
  g_Gxy_dev_csd RA F e = (cabs RA sqrt (g_Gxy_csd RA F e) / sqrt (coh e * e_navg e))%R.
Proof. exact (Gxy_dev_form angle unwrap). Qed.
Theorem C10_Hxy_dev : forall e : env RA, (coh e <= 1)%R ->
  g_Hxy_dev_csd RA F e = (cabs RA sqrt (g_Hxy_csd RA F e) * sqrt (1 - coh e) / sqrt (2 * coh e * e_navg e))%R.
Proof. exact (Hxy_dev_form angle unwrap). Qed.
Theorem C10_coh_dev : forall e : env RA, (0 < coh e)%R -> (coh e <= 1)%R -> (0 < e_navg e)%R ->
  g_coh_dev_csd RA F e = (sqrt (2 * coh e) * (1 - coh e) / sqrt (e_navg e))%R.
Proof. exact (coh_dev_form angle unwrap). Qed.
Theorem C10_dev_is_estimate_times_error : forall e : env RA, (0 < coh e)%R -> (coh e <= 1)%R -> (0 < e_navg e)%R ->
  g_Gxx_dev_csd RA F e = (g_Gxx_csd RA F e * g_Gxx_error_csd RA F e)%R /\
  g_Gyy_dev_csd RA F e = (g_Gyy_csd RA F e * g_Gyy_error_csd RA F e)%R /\
  g_Gxy_dev_csd RA F e = (cabs RA sqrt (g_Gxy_csd RA F e) * g_Gxy_error_csd RA F e)%R /\
  g_Hxy_dev_csd RA F e = (cabs RA sqrt (g_Hxy_csd RA F e) * g_Hxy_mag_error_csd RA F e)%R /\
  g_coh_dev_csd RA F e = (coh e * g_coh_error_csd RA F e)%R.
Proof.
  intros e H1 H2 H3. repeat split.
  - apply Gxx_dev_is_est_times_err. - apply Gyy_dev_is_est_times_err. - apply Gxy_dev_is_est_times_err; assumption.
  - apply Hxy_dev_is_est_times_err; assumption. - apply coh_dev_is_est_times_err; assumption.
Qed.
Theorem C10_errors_scale_as_inv_sqrt_n : forall e : env RA, (0 < coh e)%R -> (coh e <= 1)%R -> (0 < e_navg e)%R ->
  (g_Gxx_error_csd RA F e * sqrt (e_navg e) = 1 /\
   g_Gxy_error_csd RA F e * sqrt (e_navg e) = 1 / sqrt (coh e) /\
   g_Hxy_mag_error_csd RA F e * sqrt (e_navg e) = sqrt (1 - coh e) / sqrt (2 * coh e) /\
   g_coh_error_csd RA F e * sqrt (e_navg e) = sqrt 2 * (1 - coh e) / sqrt (coh e))%R.
Proof. exact (errors_scale_as_inv_sqrt_n angle unwrap). Qed.
Theorem C10_phase_error_ge_magnitude_error : forall e : env RA, (0 < coh e)%R -> (coh e <= 1)%R -> (0 < e_navg e)%R ->
  (g_Hxy_mag_error_csd RA F e <= g_Hxy_rad_error_csd RA F e)%R.
Proof. exact (rad_error_ge_mag_error angle unwrap). Qed.
Theorem C10_deg_form : forall e : env RA, g_Hxy_deg_error_csd RA F e = (g_Hxy_rad_error_csd RA F e * (180 / PI))%R.
Proof. intros e. reflexivity. Qed.
(* ... and at most pi/2 times it (Jordan's inequality sin y >= 2y/pi, proved in Jordan.v), with both vanishing at coherence 1 *)
Theorem C10_phase_error_le_half_pi_magnitude_error : forall e : env RA, (0 < coh e)%R -> (coh e <= 1)%R -> (0 < e_navg e)%R ->
  (g_Hxy_rad_error_csd RA F e <= PI / 2 * g_Hxy_mag_error_csd RA F e)%R.
Proof. exact (rad_error_le_half_pi_mag_error angle unwrap). Qed.
Theorem C10_errors_vanish_at_full_coherence : forall e : env RA, coh e = 1%R ->
  g_Hxy_mag_error_csd RA F e = 0%R /\ g_Hxy_rad_error_csd RA F e = 0%R.
Proof. exact (errors_vanish_at_full_coherence angle unwrap). Qed.
End C10.
Print Assumptions C10_coh_dev.
Print Assumptions C10_phase_error_ge_magnitude_error.
Print Assumptions C10_phase_error_le_half_pi_magnitude_error.
Print Assumptions C10_Gxx_dev.
Print Assumptions C10_Gxy_dev.
Print Assumptions C10_Hxy_dev.
Print Assumptions C10_dev_is_estimate_times_error.
Print Assumptions C10_errors_scale_as_inv_sqrt_n.
Print Assumptions C10_deg_form.
Print Assumptions C10_errors_vanish_at_full_coherence.
