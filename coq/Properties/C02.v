(* C02 — every plan segments the record safely and completely (statements only; proofs in SchedThms.v) *)
From Coq Require Import ZArith List Reals Lra Lia.
From SK Require Import Arith Sched SchedThms NewLtf SchedTerm.
Import ListNotations.

(* iterative LTF scheduler (and LPSD = LTF with bmin=1, Lmin=1), for every admissible configuration, every oracle
   for x**0.5 and every fuel: the plan is non-empty and every bin has max(1,Lmin) <= L <= N, 1 <= K <= N-L+1,
   K = 1 -> L = N, exactly K starts, first 0, last N-L, strictly increasing, all inside the record. *)
Theorem C02_ltf_plan_safe : forall ph fuel (c : cfg RA) bs, admissible c ->
  ltf_bins RA ph fuel c = Ok bs -> bs <> [] /\ Forall (bin_safe (starts_iter RA) c) bs.
Proof. exact ltf_plan_safe. Qed.
Print Assumptions C02_ltf_plan_safe.

Theorem C02_lpsd_is_ltf : forall (A : Arith) ph fuel (c : cfg A),
  ltf_bins A ph fuel (lpsd_cfg c) = ltf_bins A ph fuel (mkCfg (cN c) (cfs c) (colap c) (one A) 1%Z (cKdes c) (clogfact c)).
Proof. exact lpsd_is_ltf. Qed.
Print Assumptions C02_lpsd_is_ltf.

(* vectorised scheduler, for every lookup grid *)
Theorem C02_vectorized_plan_safe : forall sq fuel (c : cfg RA) grid bs, admissible c ->
  vec_bins RA sq fuel c grid = Ok bs ->
  Forall (bin_safe (starts_vec RA) c) bs /\ ((exists g, In g grid /\ (fmin_vec RA c <= g)%R) -> bs <> []).
Proof. exact vec_plan_safe. Qed.
Print Assumptions C02_vectorized_plan_safe.

(* three-stage scheduler new_ltf_plan, for every oracle value of x**0.5, exp and log, every Jdes and fuel *)
Theorem C02_new_ltf_plan_safe : forall ph ex lg fuel (c : cfg RA) J bs, admissible c ->
  new_bins RA ph ex lg fuel c J = Ok bs -> bs <> [] /\ Forall (bin_safe (starts_vec RA) c) bs.
Proof. exact new_plan_safe. Qed.
Print Assumptions C02_new_ltf_plan_safe.

(* a safe bin passes the analyzer's plan validation, so plan() does not raise *)
Theorem C02_safe_bin_validates : forall (c : cfg RA) l k d, bin_int_ok c l k -> starts_ok (cN c) l k d ->
  validate_bin (cN c) (cLmin c) l k d = true.
Proof. exact safe_validates. Qed.
Print Assumptions C02_safe_bin_validates.

(* building the plan never fails: with a total x**0.5 oracle the loop ends within N steps (no fuel exhaustion, no miss) *)
Theorem C02_ltf_plan_never_fails : forall ph (c : cfg RA), admissible c -> (forall x, ph x <> None) ->
  exists bs, ltf_bins RA ph (Z.to_nat (cN c)) c = Ok bs.
Proof. exact ltf_plan_never_fails. Qed.
Print Assumptions C02_ltf_plan_never_fails.

(* non-vacuity: an admissible configuration exists *)
Example C02_admissible_exists : admissible (@mkCfg RA 100%Z 1%R (/2)%R 1%R 1%Z 10%Z (/10)%R).
Proof. constructor; cbn; try lia; try lra. Qed.
