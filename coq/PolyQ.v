(* PolyQ.v — polynomials with integer coefficients (lists, low degree first), evaluation at a real argument, and a boolean
   equality test whose truth implies equality of the polynomial functions. Used for the reflexive proof of the
   Lagrange-tap identities (LagrangeQ.v). *)
From Coq Require Import ZArith List Bool Lia Reals Lra.
Import ListNotations.
Open Scope Z_scope.

Definition zpoly := list Z.
Fixpoint zadd (p q : zpoly) : zpoly :=
  match p, q with
  | [], _ => q
  | _, [] => p
  | a :: p', b :: q' => (a + b) :: zadd p' q'
  end.
Definition zscale (c : Z) (p : zpoly) : zpoly := map (fun a => c * a) p.
Fixpoint zmul (p q : zpoly) : zpoly :=
  match p with
  | [] => []
  | a :: p' => zadd (zscale a q) (0 :: zmul p' q)
  end.
Fixpoint zzero (p : zpoly) : bool := match p with [] => true | a :: p' => (a =? 0) && zzero p' end.
Fixpoint zeqb (p q : zpoly) : bool :=
  match p, q with
  | [], _ => zzero q
  | _, [] => zzero p
  | a :: p', b :: q' => (a =? b) && zeqb p' q'
  end.

Fixpoint zevalR (p : zpoly) (x : R) : R := match p with [] => 0%R | a :: p' => (IZR a + x * zevalR p' x)%R end.
Lemma zevalR_zadd p : forall q x, zevalR (zadd p q) x = (zevalR p x + zevalR q x)%R.
Proof.
  induction p as [|a p IH]; intros [|b q] x; cbn [zadd zevalR]; try ring.
  rewrite plus_IZR, IH. ring.
Qed.
Lemma zevalR_zscale c p x : zevalR (zscale c p) x = (IZR c * zevalR p x)%R.
Proof. induction p as [|a p IH]; cbn [zscale map zevalR]; [ring|]. fold (zscale c p). rewrite mult_IZR, IH. ring. Qed.
Lemma zevalR_zmul p : forall q x, zevalR (zmul p q) x = (zevalR p x * zevalR q x)%R.
Proof.
  induction p as [|a p IH]; intros q x; cbn [zmul zevalR]; [ring|].
  rewrite zevalR_zadd, zevalR_zscale. cbn [zevalR]. rewrite IH. ring.
Qed.
Lemma zzero_evalR p : zzero p = true -> forall x, zevalR p x = 0%R.
Proof.
  induction p as [|a p IH]; intros H x; cbn [zevalR]; [reflexivity|]. cbn [zzero] in H. apply andb_prop in H. destruct H as [Ha Hp].
  apply Z.eqb_eq in Ha. subst a. rewrite (IH Hp). ring.
Qed.
Lemma zeqb_evalR p : forall q, zeqb p q = true -> forall x, zevalR p x = zevalR q x.
Proof.
  induction p as [|a p IH]; intros [|b q] H x; cbn [zeqb] in H.
  - reflexivity.
  - change (zevalR [] x) with 0%R. symmetry. apply zzero_evalR. exact H.
  - change (zevalR [] x) with 0%R. apply zzero_evalR. exact H.
  - apply andb_prop in H. destruct H as [Ha Hp]. apply Z.eqb_eq in Ha. subst b. cbn [zevalR]. rewrite (IH q Hp). reflexivity.
Qed.
(* a left fold of polynomial factors evaluates to the left fold of their values *)
Lemma zevalR_fold_zmul {X} (f : X -> zpoly) (g : X -> R) (x : R) (l : list X) :
  (forall i, In i l -> zevalR (f i) x = g i) ->
  forall p t, zevalR p x = t -> zevalR (fold_left (fun p i => zmul (f i) p) l p) x = fold_left (fun t i => (t * g i)%R) l t.
Proof.
  induction l as [|i l IH]; intros H p t Hp; cbn [fold_left]; [exact Hp|].
  apply IH; [intros k Hk; apply H; right; exact Hk|]. rewrite zevalR_zmul, Hp, H by (left; reflexivity). ring.
Qed.
