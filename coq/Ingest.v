(* Ingest.v — C13: input normalisation (analysis.py:203-244) and sanitising.
   The record is given as a matrix (list of rows); a 1-D input is a single row marked OneD. *)
From Coq Require Import ZArith List Bool Lia PrimFloat.
From SK Require Import Arith Cpx.
Import ListNotations.

Section Ingest.
Variable X : Type.
Inductive input := OneD (v : list X) | TwoD (rows : list (list X)) | OtherDim.
Inductive ingested := Auto (x : list X) | Cross (x1 x2 : list X) | ShapeError.

Definition ncols (m : list (list X)) : nat := length (hd [] m).
Definition col (m : list (list X)) (j : nat) (d : X) : list X := map (fun r => nth j r d) m.
Definition transpose2 (m : list (list X)) (d : X) : list (list X) := [col m 0 d; col m 1 d].

(* x.ndim == 2 and (shape[0]==2 or shape[1]==2): rows if shape[0]==2 (incl. 2x2), else the transpose *)
Definition ingest (d : X) (i : input) : ingested :=
  match i with
  | OneD v => Auto v
  | TwoD m =>
      let r := length m in let c := ncols m in
      if Nat.eqb r 2 || Nat.eqb c 2 then
        let m2 := if Nat.eqb r 2 && negb (Nat.eqb c 2) then m
                  else if Nat.eqb c 2 && negb (Nat.eqb r 2) then transpose2 m d
                  else if Nat.eqb r 2 then m else transpose2 m d in
        Cross (nth 0 m2 []) (nth 1 m2 [])
      else ShapeError
  | OtherDim => ShapeError
  end.

(* layout independence: a 2xN record (N <> 2) and its Nx2 transpose are read identically *)
Definition rows_of_cols (a b : list X) : list (list X) := map (fun p => [fst p; snd p]) (combine a b).
Lemma col_rows_of_cols a b d : length a = length b ->
  col (rows_of_cols a b) 0 d = a /\ col (rows_of_cols a b) 1 d = b.
Proof.
  revert b. induction a as [|x a IH]; intros [|y b] H; cbn in *; try discriminate; [split; reflexivity|].
  destruct (IH b) as [H1 H2]; [lia|]. unfold col, rows_of_cols in *. cbn [combine map nth fst snd]. rewrite H1, H2. split; reflexivity.
Qed.
Theorem layout_independent (a b : list X) d : length a = length b -> length a <> 2 -> length a <> 0 ->
  ingest d (TwoD [a; b]) = Cross a b /\ ingest d (TwoD (rows_of_cols a b)) = Cross a b.
Proof.
  intros Hl H2 H0. split.
  - unfold ingest, ncols. cbn [length hd]. destruct (Nat.eqb_spec (length a) 2); [contradiction|]. reflexivity.
  - unfold ingest. assert (Hr : length (rows_of_cols a b) = length a).
    { unfold rows_of_cols. rewrite map_length, combine_length. lia. }
    assert (Hc : ncols (rows_of_cols a b) = 2).
    { unfold ncols, rows_of_cols. destruct a as [|x a], b as [|y b]; cbn in *; try lia; try reflexivity. }
    rewrite Hr, Hc. destruct (Nat.eqb_spec (length a) 2); [contradiction|]. cbn [orb andb negb Nat.eqb].
    unfold transpose2. cbn [nth]. destruct (col_rows_of_cols a b d Hl) as [-> ->]. reflexivity.
Qed.
(* a 2x2 input is read as rows *)
Theorem two_by_two_is_rows (a0 a1 b0 b1 d : X) : ingest d (TwoD [[a0; a1]; [b0; b1]]) = Cross [a0; a1] [b0; b1].
Proof. reflexivity. Qed.
End Ingest.

(* sanitising at binary64: non-finite samples become 0, finite ones are kept; the analysis only sees the sanitised record *)
Definition sanitize (v : list float) : list float := map (nan2num FloatA) v.
Lemma nan2num_finite (x : float) : f_isfinite (nan2num FloatA x) = true.
Proof. unfold nan2num. cbn [isfinite zero FloatA]. destruct (f_isfinite x) eqn:E; [exact E|reflexivity]. Qed.
Theorem sanitize_all_finite v : forallb f_isfinite (sanitize v) = true.
Proof. unfold sanitize. induction v as [|x v IH]; cbn [map forallb]; [reflexivity|]. rewrite nan2num_finite. exact IH. Qed.
Theorem sanitize_keeps_finite v : forallb f_isfinite v = true -> sanitize v = v.
Proof.
  unfold sanitize. induction v as [|x v IH]; cbn [map forallb]; [reflexivity|]. intros H. apply andb_prop in H. destruct H as [Hx Hv].
  rewrite IH by exact Hv. unfold nan2num. cbn [isfinite FloatA]. rewrite Hx. reflexivity.
Qed.
Theorem sanitize_idempotent v : sanitize (sanitize v) = sanitize v.
Proof. apply sanitize_keeps_finite. apply sanitize_all_finite. Qed.
(* any analysis that is a function of the sanitised record gives the same result on the zero-filled record *)
Theorem result_equals_zero_filled {Res} (analyse : list float -> Res) v : analyse (sanitize v) = analyse (sanitize (sanitize v)).
Proof. rewrite sanitize_idempotent. reflexivity. Qed.
