(* Dispatch.v — the dispatch table extracted by T3 and what it must satisfy: every (order, mode, backend) path calls the
   kernel of that order/mode/backend with (x1[,x2], starts, L, w, omega[, Q]) in that order. *)
From Coq Require Import ZArith List Bool String.
Import ListNotations.
Open Scope string_scope.

Record row := mkRow { r_method : string; r_order : Z; r_cross : bool; r_backend : string; r_callee : string; r_args : list string }.

Definition family (order : Z) : string :=
  if (order =? -1)%Z then "win_only" else if (order =? 0)%Z then "detrend0" else "poly".
Definition suffix (backend : string) : string :=
  if String.eqb backend "cuda" then "_cuda" else if String.eqb backend "numpy" then "_np" else "".
Definition expected_callee (r : row) : string :=
  "_stats_" ++ family (r_order r) ++ (if r_cross r then "_csd" else "_auto") ++ suffix (r_backend r).
Definition expected_args (r : row) : list string :=
  (if r_cross r then ["x1"; "x2"] else ["x1"]) ++ ["starts"; "L"; "w"; "omega"] ++
  (if ((r_order r =? 1) || (r_order r =? 2))%Z then ["Q"] else []).
Fixpoint slist_eqb (a b : list string) : bool :=
  match a, b with
  | [], [] => true
  | x :: a', y :: b' => String.eqb x y && slist_eqb a' b'
  | _, _ => false
  end.
Definition row_ok (r : row) : bool :=
  String.eqb (r_callee r) (expected_callee r) && slist_eqb (r_args r) (expected_args r).

(* the 2 methods x 4 orders x 2 modes x 3 backends are all present *)
Definition all_paths : list (string * Z * bool * string) :=
  flat_map (fun m => flat_map (fun o => flat_map (fun c => map (fun b => (m, o, c, b)) ["cuda"; "numba"; "numpy"]) [false; true])
                              [-1; 0; 1; 2]%Z) ["_lpsd_core"; "compute_single_bin"].
Definition path_of (r : row) := (r_method r, r_order r, r_cross r, r_backend r).
Definition path_eqb (a b : string * Z * bool * string) : bool :=
  let '(m1, o1, c1, b1) := a in let '(m2, o2, c2, b2) := b in
  String.eqb m1 m2 && (o1 =? o2)%Z && Bool.eqb c1 c2 && String.eqb b1 b2.
Definition table_ok (t : list row) : bool :=
  forallb row_ok t && forallb (fun p => existsb (fun r => path_eqb (path_of r) p) t) all_paths.

Lemma table_ok_rows t : table_ok t = true -> forall r, In r t -> r_callee r = expected_callee r /\ r_args r = expected_args r.
Proof.
  unfold table_ok. intros H r Hin. apply andb_prop in H. destruct H as [H _].
  rewrite forallb_forall in H. specialize (H r Hin). unfold row_ok in H. apply andb_prop in H. destruct H as [H1 H2].
  apply String.eqb_eq in H1. split; [exact H1|].
  revert H2. generalize (r_args r) (expected_args r). induction l as [|a l IH]; intros [|b l']; cbn; try discriminate; [reflexivity|].
  intros H. apply andb_prop in H. destruct H as [Ha Hl]. apply String.eqb_eq in Ha. subst. f_equal. apply IH. exact Hl.
Qed.

(* ---- band restriction keeps all per-bin fields aligned: filtering two fields by one mask commutes with zipping ---- *)
Fixpoint filter_mask {X} (m : list bool) (l : list X) : list X :=
  match m, l with
  | b :: m', x :: l' => if b then x :: filter_mask m' l' else filter_mask m' l'
  | _, _ => []
  end.
Lemma combine_nil_r' {X Y} (l : list X) : combine l (@nil Y) = [].
Proof. destruct l; reflexivity. Qed.
Lemma filter_mask_nil {X} (m : list bool) : filter_mask m (@nil X) = [].
Proof. destruct m; reflexivity. Qed.
Lemma filter_mask_combine {X Y} (m : list bool) : forall (a : list X) (b : list Y),
  combine (filter_mask m a) (filter_mask m b) = filter_mask m (combine a b).
Proof.
  induction m as [|c m IH]; intros a b; [destruct a; reflexivity|].
  destruct a as [|x a]; [rewrite !filter_mask_nil; reflexivity|].
  destruct b as [|y b]; [rewrite filter_mask_nil, combine_nil_r'; cbn [combine]; rewrite filter_mask_nil; reflexivity|].
  cbn [filter_mask combine]. destruct c; cbn [combine]; [f_equal|]; apply IH.
Qed.
Lemma filter_mask_in {X} (m : list bool) : forall (l : list X) x, In x (filter_mask m l) -> In x l.
Proof.
  induction m as [|c m IH]; intros [|y l] x H; cbn in *; try contradiction.
  destruct c; [destruct H as [->|H]; [left; reflexivity|right; apply IH; exact H]|right; apply IH; exact H].
Qed.
