(* NoiseDF.v — C17: the Direct-Form-II-transposed first-order section of noise.py (y = a0 x + z ; z' = a1 x - b1 y) produces, in exact
   arithmetic, exactly the output of the direct-form difference equation  y[n] = a0 x[n] + a1 x[n-1] - b1 y[n-1]
   (the reference IIR with numerator (a0, a1) and denominator (1, b1)); the cascade is the composition of such sections. *)
From Coq Require Import List Reals Lra.
From SK Require Import Arith Noise.
Import ListNotations.
Open Scope R_scope.

Fixpoint df1 (c : section RA) (xs : list R) (xprev yprev : R) : list R :=
  match xs with
  | [] => []
  | x :: xs' => let y := a0 RA c * x + a1 RA c * xprev - b1 RA c * yprev in y :: df1 c xs' x y
  end.

Theorem filt1_is_direct_form (c : section RA) : forall xs xprev yprev,
  fst (filt1 RA c xs (a1 RA c * xprev - b1 RA c * yprev)) = df1 c xs xprev yprev.
Proof.
  induction xs as [|x xs IH]; intros xprev yprev; cbn [filt1 df1]; [reflexivity|].
  cbn [add sub mul RA]. simpl T in *.
  set (y := a0 RA c * x + (a1 RA c * xprev - b1 RA c * yprev)).
  specialize (IH x y). destruct (filt1 RA c xs (a1 RA c * x - b1 RA c * y)) as [ys zf]. cbn [fst] in *.
  rewrite IH. unfold y. f_equal; [ring|]. f_equal. ring.
Qed.
(* the carried state is the direct form's memory:  z = a1 x_last - b1 y_last *)
Theorem filt1_state_is_direct_form_memory (c : section RA) : forall xs xprev yprev,
  xs <> [] ->
  snd (filt1 RA c xs (a1 RA c * xprev - b1 RA c * yprev))
  = a1 RA c * last xs 0 - b1 RA c * last (df1 c xs xprev yprev) 0.
Proof.
  induction xs as [|x xs IH]; intros xprev yprev Hne; [contradiction|]. cbn [filt1 df1]. cbn [add sub mul RA]. simpl T in *.
  set (y := a0 RA c * x + (a1 RA c * xprev - b1 RA c * yprev)).
  assert (Ey : a0 RA c * x + a1 RA c * xprev - b1 RA c * yprev = y) by (unfold y; ring). rewrite Ey.
  destruct xs as [|x2 xs'].
  - cbn. ring.
  - specialize (IH x y ltac:(discriminate)).
    destruct (filt1 RA c (x2 :: xs') (a1 RA c * x - b1 RA c * y)) as [ys zf] eqn:E. cbn [snd] in *. rewrite IH.
    change (last (x :: x2 :: xs') 0) with (last (x2 :: xs') 0).
    change (last (y :: df1 c (x2 :: xs') x y) 0) with (last (df1 c (x2 :: xs') x y) 0).
    cbn [df1]. reflexivity.
Qed.
