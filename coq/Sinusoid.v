(* Sinusoid.v — response of a windowed real sinusoid at its own frequency (C06 calibration, C12 leakage structure):
   X(w0) = (A/2) ( e^{i phi} W(0) + e^{-i phi} W(2 w0) ),  W(th) = sum_n w_n e^{-i th n}; hence the power spectrum
   2|X|^2/S1^2 equals (A^2/2) |1 + e^{-2 i phi} W(2 w0)/S1|^2 and deviates from A^2/2 by at most 2 rho + rho^2, rho = |W(2 w0)|/S1. *)
From Coq Require Import ZArith List Bool Reals Lra Lia Psatz.
From SK Require Import Arith KernelPrims Kernels KernelThms DetrendPoly.
Import ListNotations.
Open Scope R_scope.

Lemma dft_def_sums w (v : Z -> R) (L : Z) :
  dft_def w v L = (Sum (Z.to_nat L) (fun n => v (Z.of_nat n) * cos (w * INR n)), - Sum (Z.to_nat L) (fun n => v (Z.of_nat n) * sin (w * INR n))).
Proof.
  unfold dft_def, Sum. generalize (seq 0 (Z.to_nat L)) as l.
  assert (H : forall l a b, fold_left (dft_step w v) l (a, b) =
              (fold_left (fun a n => a + v (Z.of_nat n) * cos (w * INR n)) l a, - fold_left (fun a n => a + v (Z.of_nat n) * sin (w * INR n)) l (- b))).
  { induction l as [|n l IH]; intros a b; cbn [fold_left]; [f_equal; ring|].
    assert (E : dft_step w v (a, b) n = (a + v (Z.of_nat n) * cos (w * INR n), b - v (Z.of_nat n) * sin (w * INR n))) by reflexivity.
    rewrite E, IH. f_equal. f_equal. f_equal. ring. }
  intros l. rewrite H. rewrite Ropp_0. reflexivity.
Qed.

Section Sin.
Variables (win : nat -> R) (A w0 phi : R) (L : Z).
Let n_ := Z.to_nat L.
Definition S1 : R := Sum n_ win.
Definition C2 : R := Sum n_ (fun n => win n * cos (2 * w0 * INR n + phi)).
Definition S2 : R := Sum n_ (fun n => win n * sin (2 * w0 * INR n + phi)).
Definition sig (n : Z) : R := win (Z.to_nat n) * (A * cos (w0 * IZR n + phi)).

Theorem sinusoid_response :
  dft_def w0 sig L = (A / 2 * (cos phi * S1 + C2), A / 2 * (sin phi * S1 - S2)).
Proof.
  rewrite dft_def_sums. fold n_. unfold S1, C2, S2.
  assert (Hre : 2 * Sum n_ (fun n => sig (Z.of_nat n) * cos (w0 * INR n)) = A * (cos phi * Sum n_ win + Sum n_ (fun n => win n * cos (2 * w0 * INR n + phi)))).
  { rewrite <- Sum_scale. transitivity (Sum n_ (fun n => A * (cos phi * win n + win n * cos (2 * w0 * INR n + phi)))).
    - apply Sum_ext. intros n _. unfold sig. rewrite Nat2Z.id, <- INR_IZR_INZ. set (a := w0 * INR n).
      replace (2 * w0 * INR n + phi) with (a + (a + phi)) by (subst a; ring).
      rewrite (cos_plus a (a + phi)). rewrite (cos_plus a phi), (sin_plus a phi).
      clearbody a. assert (Hc : cos a * cos a = 1 - sin a * sin a) by (pose proof (sin2_cos2 a) as E; unfold Rsqr in E; lra).
      ring [Hc].
    - rewrite Sum_scale, Sum_add, Sum_scale. reflexivity. }
  assert (Him : 2 * Sum n_ (fun n => sig (Z.of_nat n) * sin (w0 * INR n)) = A * (Sum n_ (fun n => win n * sin (2 * w0 * INR n + phi)) - sin phi * Sum n_ win)).
  { rewrite <- Sum_scale. transitivity (Sum n_ (fun n => A * (win n * sin (2 * w0 * INR n + phi) + - sin phi * win n))).
    - apply Sum_ext. intros n _. unfold sig. rewrite Nat2Z.id, <- INR_IZR_INZ. set (a := w0 * INR n).
      replace (2 * w0 * INR n + phi) with (a + (a + phi)) by (subst a; ring).
      rewrite (sin_plus a (a + phi)). rewrite (cos_plus a phi), (sin_plus a phi).
      clearbody a. assert (Hc : cos a * cos a = 1 - sin a * sin a) by (pose proof (sin2_cos2 a) as E; unfold Rsqr in E; lra).
      ring [Hc].
    - rewrite Sum_scale, Sum_add, Sum_scale. ring. }
  f_equal; lra.
Qed.

(* power at the sinusoid's own frequency, relative to (A/2)^2 S1^2 *)
Definition rho2 : R := (C2 * C2 + S2 * S2) / (S1 * S1).      (* rho^2 = |W(2 w0)|^2 / S1^2 (phase folded in) *)
Theorem sinusoid_power : S1 <> 0 ->
  let X := dft_def w0 sig L in
  fst X * fst X + snd X * snd X =
  (A / 2) * (A / 2) * (S1 * S1) * (1 + 2 * ((cos phi * C2 - sin phi * S2) / S1) + rho2).
Proof.
  intros HS. cbn zeta. rewrite sinusoid_response. cbn [fst snd]. unfold rho2.
  assert (Hc : cos phi * cos phi = 1 - sin phi * sin phi) by (pose proof (sin2_cos2 phi) as E; unfold Rsqr in E; lra).
  field_simplify_eq; [|exact HS]. ring [Hc].
Qed.
(* |ps/(A^2/2) - 1| <= 2 rho + rho^2 with rho = sqrt(rho2): the cross term is bounded by Cauchy-Schwarz in R^2 *)
Theorem sinusoid_calibration_bound : S1 <> 0 ->
  let X := dft_def w0 sig L in let rho := sqrt rho2 in
  Rabs ((fst X * fst X + snd X * snd X) / ((A / 2) * (A / 2) * (S1 * S1)) - 1) <= 2 * rho + rho * rho \/ A = 0.
Proof.
  intros HS. cbn zeta. destruct (Req_dec A 0) as [->|HA]; [right; reflexivity|left].
  rewrite (sinusoid_power HS).
  assert (HS2 : 0 < S1 * S1) by nra.
  assert (Hr2 : 0 <= rho2) by (unfold rho2; apply Rmult_le_pos; [nra|left; apply Rinv_0_lt_compat; exact HS2]).
  replace ((A / 2) * (A / 2) * (S1 * S1) * (1 + 2 * ((cos phi * C2 - sin phi * S2) / S1) + rho2) / ((A / 2) * (A / 2) * (S1 * S1)) - 1)
    with (2 * ((cos phi * C2 - sin phi * S2) / S1) + rho2) by (field; split; assumption).
  set (t := (cos phi * C2 - sin phi * S2) / S1).
  assert (Ht : t * t <= rho2).
  { subst t. unfold rho2.
    assert (E : (cos phi * C2 - sin phi * S2) / S1 * ((cos phi * C2 - sin phi * S2) / S1) = (cos phi * C2 - sin phi * S2) * (cos phi * C2 - sin phi * S2) / (S1 * S1)) by (field; exact HS).
    rewrite E. unfold Rdiv. apply Rmult_le_compat_r; [left; apply Rinv_0_lt_compat; exact HS2|].
    assert (Hc : cos phi * cos phi = 1 - sin phi * sin phi) by (pose proof (sin2_cos2 phi) as Ep; unfold Rsqr in Ep; lra).
    assert (E2 : (cos phi * C2 - sin phi * S2) * (cos phi * C2 - sin phi * S2) + (sin phi * C2 + cos phi * S2) * (sin phi * C2 + cos phi * S2) = C2 * C2 + S2 * S2) by (ring [Hc]).
    set (u := sin phi * C2 + cos phi * S2) in *. assert (0 <= u * u) by (apply Rle_0_sqr). lra. }
  assert (Hrho : sqrt rho2 * sqrt rho2 = rho2) by (apply sqrt_sqrt; exact Hr2).
  assert (Hrp : 0 <= sqrt rho2) by apply sqrt_pos.
  assert (Hta : - sqrt rho2 <= t <= sqrt rho2).
  { split.
    - destruct (Rle_or_lt (- sqrt rho2) t); [assumption|exfalso]. assert (t * t > rho2) by nra. lra.
    - destruct (Rle_or_lt t (sqrt rho2)); [assumption|exfalso]. assert (t * t > rho2) by nra. lra. }
  rewrite Hrho. apply Rabs_le. lra.
Qed.
End Sin.

(* ---- C07: a pure delay on a sinusoid (no leakage from the image: W(2 w0) = 0, e.g. rectangular window on an integer bin) ----
   x_n = A cos(w0 n + phi), y_n = x_{n-d} = A cos(w0 n + phi - w0 d):  X conj(Y) = |X|^2 e^{+i w0 d},
   so Hxy = conj(XY)/XX = e^{-i w0 d}: a lagging output has negative phase, magnitude 1. *)
Theorem delayed_sinusoid_cross (win : nat -> R) (A w0 phi th : R) (L : Z) :
  C2 win w0 phi L = 0 -> S2 win w0 phi L = 0 -> C2 win w0 (phi - th) L = 0 -> S2 win w0 (phi - th) L = 0 ->
  let X := dft_def w0 (sig win A w0 phi) L in let Y := dft_def w0 (sig win A w0 (phi - th)) L in
  let P := fst X * fst X + snd X * snd X in
  pw_csd RA X Y = (P, P, P * cos th, P * sin th).
Proof.
  intros Hc Hs Hc' Hs'. cbn zeta. rewrite !sinusoid_response, Hc, Hs, Hc', Hs'.
  unfold pw_csd. cbn [fst snd add sub mul RA]. rewrite cos_minus, sin_minus.
  assert (Hp : cos phi * cos phi = 1 - sin phi * sin phi) by (pose proof (sin2_cos2 phi) as E; unfold Rsqr in E; lra).
  assert (Ht : cos th * cos th = 1 - sin th * sin th) by (pose proof (sin2_cos2 th) as E; unfold Rsqr in E; lra).
  apply pair4_eq; unfold Rdiv; ring [Hp Ht].
Qed.
