(* CauchySchwarz.v — C09: |sum_k X_k conj(Y_k)|^2 <= (sum_k |X_k|^2)(sum_k |Y_k|^2) for per-segment DFT values,
   hence for the averaged statistics the kernels return (means over K >= 1 segments): coherence <= 1. *)
From Coq Require Import List Reals Lra Lia Psatz.
Import ListNotations.
Open Scope R_scope.

Definition Cx := (R * R)%type.
Definition sq (z : Cx) : R := fst z * fst z + snd z * snd z.
Definition xre (x y : Cx) : R := fst x * fst y + snd x * snd y.     (* Re x conj y *)
Definition xim (x y : Cx) : R := snd x * fst y - fst x * snd y.     (* Im x conj y *)
Fixpoint SXX (l : list (Cx * Cx)) : R := match l with [] => 0 | (x, _) :: t => sq x + SXX t end.
Fixpoint SYY (l : list (Cx * Cx)) : R := match l with [] => 0 | (_, y) :: t => sq y + SYY t end.
Fixpoint SRe (l : list (Cx * Cx)) : R := match l with [] => 0 | (x, y) :: t => xre x y + SRe t end.
Fixpoint SIm (l : list (Cx * Cx)) : R := match l with [] => 0 | (x, y) :: t => xim x y + SIm t end.

(* sum_k |X_k - lambda Y_k|^2 = SXX - 2 Re(conj(lambda) C) + |lambda|^2 SYY, with lambda = (a, b), C = (SRe, SIm) *)
Fixpoint Sres (a b : R) (l : list (Cx * Cx)) : R :=
  match l with
  | [] => 0
  | (x, y) :: t => sq (fst x - (a * fst y - b * snd y), snd x - (a * snd y + b * fst y)) + Sres a b t
  end.
Lemma Sres_expand a b l : Sres a b l = SXX l - 2 * (a * SRe l + b * SIm l) + (a * a + b * b) * SYY l.
Proof.
  induction l as [|[[x1 x2] [y1 y2]] t IH]; cbn [Sres SXX SYY SRe SIm]; [ring|].
  rewrite IH. unfold sq, xre, xim. cbn [fst snd]. ring.
Qed.
Lemma Sres_nonneg a b l : 0 <= Sres a b l.
Proof.
  induction l as [|[x y] t IH]; cbn [Sres]; [lra|]. unfold sq. cbn [fst snd].
  set (u := fst x - (a * fst y - b * snd y)). set (v := snd x - (a * snd y + b * fst y)).
  assert (0 <= u * u) by nra. assert (0 <= v * v) by nra. lra.
Qed.
Lemma sq_nonneg z : 0 <= sq z. Proof. unfold sq. assert (0 <= fst z * fst z) by nra. assert (0 <= snd z * snd z) by nra. lra. Qed.
Lemma SXX_nonneg l : 0 <= SXX l. Proof. induction l as [|[x y] t IH]; cbn [SXX]; [lra|]. pose proof (sq_nonneg x). lra. Qed.
Lemma SYY_nonneg l : 0 <= SYY l. Proof. induction l as [|[x y] t IH]; cbn [SYY]; [lra|]. pose proof (sq_nonneg y). lra. Qed.

Theorem cauchy_schwarz_sums l : SRe l * SRe l + SIm l * SIm l <= SXX l * SYY l.
Proof.
  set (c := SRe l * SRe l + SIm l * SIm l).
  pose proof (SXX_nonneg l) as HA. pose proof (SYY_nonneg l) as HB.
  assert (Hc : 0 <= c) by (subst c; nra).
  (* lambda = t * C with real t:  0 <= SXX - 2 t c + t^2 c SYY *)
  assert (Hq : forall t, 0 <= SXX l - 2 * t * c + t * t * c * SYY l).
  { intros t. pose proof (Sres_nonneg (t * SRe l) (t * SIm l) l) as H. rewrite Sres_expand in H. subst c. nra. }
  destruct (Req_dec c 0) as [E|Hne]; [rewrite E; nra|].
  assert (Hcp : 0 < c) by lra.
  destruct (Req_dec (SYY l) 0) as [EB|HBne].
  - (* SYY = 0: the quadratic is linear and would go negative *)
    exfalso. specialize (Hq ((SXX l + 1) / (2 * c))). rewrite EB in Hq.
    replace (2 * ((SXX l + 1) / (2 * c)) * c) with (SXX l + 1) in Hq by (field; lra). lra.
  - assert (HBp : 0 < SYY l) by lra.
    specialize (Hq (/ SYY l)).
    replace (SXX l - 2 * / SYY l * c + / SYY l * / SYY l * c * SYY l) with (SXX l - c / SYY l) in Hq by (field; lra).
    assert (c / SYY l <= SXX l) by lra.
    apply Rmult_le_compat_r with (r := SYY l) in H; [|lra]. unfold Rdiv in H. rewrite Rmult_assoc, Rinv_l in H by lra. lra.
Qed.

(* the same for means over K = length l >= 1 segments *)
Theorem cauchy_schwarz_means l : l <> [] ->
  let K := INR (length l) in
  (SRe l / K) * (SRe l / K) + (SIm l / K) * (SIm l / K) <= (SXX l / K) * (SYY l / K).
Proof.
  intros Hl K. assert (HK : 0 < K) by (subst K; apply lt_0_INR; destruct l; [contradiction|cbn; lia]).
  pose proof (cauchy_schwarz_sums l) as H.
  assert (HK2 : 0 < / K * / K) by (apply Rmult_lt_0_compat; apply Rinv_0_lt_compat; exact HK).
  replace ((SRe l / K) * (SRe l / K) + (SIm l / K) * (SIm l / K)) with ((SRe l * SRe l + SIm l * SIm l) * (/ K * / K)) by (field; lra).
  replace ((SXX l / K) * (SYY l / K)) with (SXX l * SYY l * (/ K * / K)) by (field; lra).
  apply Rmult_le_compat_r; lra.
Qed.
