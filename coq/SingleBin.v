(* SingleBin.v — segmentation of compute_single_bin (analysis.py:563-605), generic in the carrier. *)
From Coq Require Import ZArith List Bool Reals Lia Lra.
From Flocq Require Import Raux.
From SK Require Import Arith.
Import ListNotations.
Open Scope Z_scope.

Section SB.
Variable A : Arith.
(* L given directly, or from a requested resolution: int(round(fs/fres)) (ties to even), at least 1 *)
Definition segL_of_fres (fs fres : T A) : Z := Z.max 1 (rintZ A (div A fs fres)).
Definition sb_navg (N L : Z) (olap : T A) : Z :=
  rhuZ A (add A (div A (div A (ofZ A (N - L)) (sub A (one A) olap)) (ofZ A L)) (one A)).
Definition sb_starts (N L : Z) (olap : T A) : list Z :=
  if N =? L then [0] else
  let navg := sb_navg N L olap in
  if navg <=? 1 then [0] else
  let shift := div A (ofZ A (N - L)) (ofZ A (navg - 1)) in
  map (fun i => rintZ A (mul A (ofZ A (Z.of_nat i)) shift)) (seq 0 (Z.to_nat navg)).
End SB.

(* at the reals: every start lies inside the record, the first is 0, and there are exactly K = max(1, navg) of them *)
Open Scope R_scope.
Lemma rint_range (x : R) (lo hi : Z) : IZR lo <= x <= IZR hi -> (lo <= r_rint x <= hi)%Z.
Proof.
  intros [H1 H2]. pose proof (r_rint_bracket x) as [B1 B2].
  split.
  - assert (IZR lo - 1 < IZR (r_rint x)) by lra. rewrite <- minus_IZR in H. apply lt_IZR in H. lia.
  - destruct (Z_le_gt_dec (r_rint x) hi) as [|G]; [assumption|exfalso].
    assert (Hg : (hi + 1 <= r_rint x)%Z) by lia. apply IZR_le in Hg. rewrite plus_IZR in Hg.
    (* then x >= rint x - 1/2 >= hi + 1/2 > hi unless a tie: x = hi + 1/2 > hi contradicts x <= hi *)
    lra.
Qed.
Theorem single_bin_segmentation (N L : Z) (olap : R) : (1 <= L <= N)%Z -> 0 <= olap < 1 ->
  let d := sb_starts RA N L olap in
  d <> [] /\ hd (-1)%Z d = 0%Z /\ Forall (fun s => (0 <= s /\ s + L <= N)%Z) d /\
  length d = Z.to_nat (Z.max 1 (if (N =? L)%Z then 1 else sb_navg RA N L olap)).
Proof.
  intros HL Ho d. subst d. unfold sb_starts.
  destruct (Z.eqb_spec N L) as [E|E].
  - repeat split; try discriminate. constructor; [lia|constructor].
  - set (k := sb_navg RA N L olap). destruct (Z.leb_spec k 1) as [K1|K1].
    + repeat split; try discriminate; [constructor; [lia|constructor]|]. replace (Z.max 1 k) with 1%Z by lia. reflexivity.
    + assert (Hk : (0 < Z.to_nat k)%nat) by lia.
      assert (Hsh : 0 <= IZR (N - L) / IZR (k - 1)).
      { apply Rmult_le_pos; [apply IZR_le; lia|]. left. apply Rinv_0_lt_compat. apply IZR_lt. lia. }
      split; [destruct (Z.to_nat k); [lia|discriminate]|].
      split.
      { destruct (Z.to_nat k) as [|n] eqn:En; [lia|]. cbn [seq map hd]. cbn [rintZ mul ofZ div RA Z.of_nat]. rewrite Rmult_0_l. apply (r_rint_IZR 0). }
      split.
      { apply Forall_forall. intros s Hs. apply in_map_iff in Hs. destruct Hs as (i & <- & Hi). apply in_seq in Hi.
        cbn [rintZ mul ofZ div RA]. rewrite <- INR_IZR_INZ.
        assert (Hr : (0 <= r_rint (INR i * (IZR (N - L) / IZR (k - 1))) <= N - L)%Z).
        { apply rint_range. split; [apply Rmult_le_pos; [apply pos_INR|exact Hsh]|].
          assert (INR i <= IZR (k - 1)).
          { rewrite INR_IZR_INZ. apply IZR_le. lia. }
          assert (0 < IZR (k - 1)) by (apply IZR_lt; lia).
          assert (0 <= IZR (N - L)) by (apply IZR_le; lia).
          replace (IZR (N - L)) with (IZR (k - 1) * (IZR (N - L) / IZR (k - 1))) at 2 by (field; lra).
          apply Rmult_le_compat_r; assumption. }
        lia. }
      rewrite map_length, seq_length. replace (Z.max 1 k) with k by lia. reflexivity.
Qed.
