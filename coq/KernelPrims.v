(* KernelPrims.v — list primitives the generated kernels are expressed with (array reads are total: out of range = 0). *)
From Coq Require Import ZArith List Bool.
From SK Require Import Arith.
Import ListNotations.
Open Scope Z_scope.

Definition nthT (A : Arith) (l : list (T A)) (i : Z) : T A := nth (Z.to_nat i) l (zero A).
Definition nthZ (l : list Z) (i : Z) : Z := nth (Z.to_nat i) l 0.
Definition nth2T (A : Arith) (q : list (list (T A))) (i j : Z) : T A := nthT A (nth (Z.to_nat i) q []) j.
Definition repeatT (A : Arith) (n : Z) : list (T A) := repeat (zero A) (Z.to_nat n).
Fixpoint upd_nat {X} (l : list X) (i : nat) (v : X) : list X :=
  match l, i with
  | [], _ => []
  | _ :: t, O => v :: t
  | h :: t, S i' => h :: upd_nat t i' v
  end.
Definition updT {X} (l : list X) (i : Z) (v : X) : list X := upd_nat l (Z.to_nat i) v.
Definition sumT (A : Arith) (l : list (T A)) : T A := fold_left (add A) l (zero A).
Definition meanT (A : Arith) (l : list (T A)) : T A := div A (sumT A l) (ofZ A (Z.of_nat (length l))).
Fixpoint zipT {X} (f : X -> X -> X) (a b : list X) : list X :=
  match a, b with x :: a', y :: b' => f x y :: zipT f a' b' | _, _ => [] end.
Definition proj4_1 {X} (r : X * X * X * X) : X := fst (fst (fst r)).
Definition proj4_2 {X} (r : X * X * X * X) : X := snd (fst (fst r)).
Definition proj4_3 {X} (r : X * X * X * X) : X := snd (fst r).
Definition proj4_4 {X} (r : X * X * X * X) : X := snd r.
