(* translation failed: data key f *)
Definition translation_failed : False := I.
