(* translation failed: Gxx_dev: unsupported statement val /= np.sqrt(navg) *)
Definition translation_failed : False := I.
