(* translation failed: Gxy_dev: unsupported expression (self.Gxy * self.Gxy).real *)
Definition translation_failed : False := I.
