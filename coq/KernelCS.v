(* KernelCS.v — the statistics returned by the (reference of the) cross kernels satisfy Cauchy-Schwarz, and M2 >= 0.
   Links CauchySchwarz.v to Kernels.ref_csd; through GenRef.v this holds for the kernels regenerated from source. *)
From Coq Require Import ZArith List Bool Reals Lra Lia Psatz.
From SK Require Import Arith KernelPrims Kernels CauchySchwarz.
Import ListNotations.
Open Scope R_scope.

Lemma sumT_acc (l : list R) : forall a, fold_left Rplus l a = a + fold_left Rplus l 0.
Proof.
  induction l as [|x l IH]; intros a; cbn [fold_left]; [lra|].
  rewrite (IH (a + x)), (IH (0 + x)). lra.
Qed.
Lemma sumT_cons x l : sumT RA (x :: l) = x + sumT RA l.
Proof. unfold sumT. cbn [fold_left add zero RA]. rewrite sumT_acc. simpl T in *. lra. Qed.

Definition rows_of (l : list (Cx * Cx)) := map (fun p => pw_csd RA (fst p) (snd p)) l.
Lemma sums_of_rows l :
  sumT RA (map proj4_1 (rows_of l)) = SXX l /\ sumT RA (map proj4_2 (rows_of l)) = SYY l /\
  sumT RA (map proj4_3 (rows_of l)) = SRe l /\ sumT RA (map proj4_4 (rows_of l)) = SIm l.
Proof.
  induction l as [|[[x1 x2] [y1 y2]] t (I1 & I2 & I3 & I4)]; [repeat split; reflexivity|].
  unfold rows_of in *. cbn [map fst snd]. rewrite !sumT_cons, I1, I2, I3, I4.
  unfold pw_csd, proj4_1, proj4_2, proj4_3, proj4_4, sq, xre, xim. cbn [fst snd add sub mul RA SXX SYY SRe SIm].
  unfold sq, xre, xim. cbn [fst snd]. repeat split; ring.
Qed.

Lemma mean_sq_nonneg (l : list R) : (forall x, In x l -> 0 <= x) -> 0 <= meanT RA l.
Proof.
  intros H. unfold meanT. cbn [div ofZ RA].
  assert (Hs : 0 <= sumT RA l).
  { induction l as [|x l IH]; [unfold sumT; cbn; lra|]. rewrite sumT_cons. assert (0 <= x) by (apply H; left; reflexivity).
    assert (0 <= sumT RA l) by (apply IH; intros y Hy; apply H; right; exact Hy). lra. }
  destruct l as [|x l]; [unfold sumT, Rdiv; cbn; rewrite Rmult_0_l; lra|].
  apply Rmult_le_pos; [exact Hs|]. left. apply Rinv_0_lt_compat. apply IZR_lt. cbn [length]. lia.
Qed.

Lemma zip_sq_nonneg : forall (a b : list R) x, In x (zipT (add RA) (zipT (mul RA) a a) (zipT (mul RA) b b)) -> 0 <= x.
Proof.
  induction a as [|p a IH]; intros [|q b] x H; cbn in H; try contradiction.
  destruct H as [<-|H]; [|eapply IH; exact H]. assert (0 <= p * p) by nra. assert (0 <= q * q) by nra. lra.
Qed.

Lemma means_of_rows l : l <> [] ->
  meanT RA (map proj4_1 (rows_of l)) = SXX l / INR (length l) /\ meanT RA (map proj4_2 (rows_of l)) = SYY l / INR (length l) /\
  meanT RA (map proj4_3 (rows_of l)) = SRe l / INR (length l) /\ meanT RA (map proj4_4 (rows_of l)) = SIm l / INR (length l).
Proof.
  intros Hl. destruct (sums_of_rows l) as (S1 & S2 & S3 & S4).
  assert (Hlen : length (rows_of l) = length l) by (unfold rows_of; apply map_length).
  unfold meanT. rewrite !map_length, Hlen, S1, S2, S3, S4. cbn [div ofZ RA]. rewrite <- INR_IZR_INZ. repeat split.
Qed.

Theorem reduce_rows_cauchy_schwarz (l : list (Cx * Cx)) : l <> [] ->
  let '(MXX, MYY, mur, mui, M2) := reduce_rows RA (rows_of l) in
  mur * mur + mui * mui <= MXX * MYY /\ 0 <= MXX /\ 0 <= MYY /\ 0 <= M2.
Proof.
  intros Hl. unfold reduce_rows, ref_reduce. rewrite map_length.
  assert (Hlen : length (rows_of l) = length l) by (unfold rows_of; apply map_length).
  rewrite Hlen. destruct (Z.eqb_spec (Z.of_nat (length l)) 0) as [E|_]; [destruct l; [contradiction|cbn in E; lia]|].
  destruct (means_of_rows l Hl) as (M1 & M2' & M3 & M4). rewrite M1, M2', M3, M4.
  assert (HK : 0 < INR (length l)) by (apply lt_0_INR; destruct l; [contradiction|cbn; lia]).
  split; [apply (cauchy_schwarz_means l Hl)|].
  split; [apply Rmult_le_pos; [apply SXX_nonneg|left; apply Rinv_0_lt_compat; exact HK]|].
  split; [apply Rmult_le_pos; [apply SYY_nonneg|left; apply Rinv_0_lt_compat; exact HK]|].
  destruct (Z.geb (Z.of_nat (length l)) 2); [|cbn; lra].
  apply mean_sq_nonneg. apply zip_sq_nonneg.
Qed.

(* for the cross statistics of any bin: with per-segment values X_k, Y_k (whatever the window/detrending) *)
Theorem ref_csd_cauchy_schwarz cosw sinw samp1 samp2 (starts : list Z) L : starts <> [] ->
  let '(MXX, MYY, mur, mui, M2) := ref_csd RA cosw sinw samp1 samp2 starts L in
  mur * mur + mui * mui <= MXX * MYY /\ 0 <= MXX /\ 0 <= MYY /\ 0 <= M2.
Proof.
  intros Hs. unfold ref_csd.
  set (l := map (fun s => (ref_bin RA cosw sinw (samp1 s) L, ref_bin RA cosw sinw (samp2 s) L)) starts).
  assert (E : map (fun s => pw_csd RA (ref_bin RA cosw sinw (samp1 s) L) (ref_bin RA cosw sinw (samp2 s) L)) starts = rows_of l).
  { subst l. unfold rows_of. rewrite map_map. reflexivity. }
  rewrite E. apply reduce_rows_cauchy_schwarz. subst l. destruct starts; [contradiction|discriminate].
Qed.
