(* AttrThms2.v — C10: the analytic error bars of the GENERATED attribute table are the Bendat-Piersol expressions. *)
From Coq Require Import ZArith List Bool Reals Lra Lia Psatz.
From SK Require Import Arith Cpx AttrThms Jordan.
From SK.gen Require Import AttrsGen.
Open Scope R_scope.

Ltac rfield := simpl T in *; field.

Section BP.
Variable angle : R * R -> R.
Variable unwrap : R -> R.
Notation F := (FR angle unwrap).
Implicit Type e : env RA.
Notation coh e := (g_coh_csd RA F e).
Notation navg e := (e_navg e).

Lemma sqrt_pos_ne x : 0 < x -> sqrt x <> 0.
Proof. intros H. pose proof (sqrt_lt_R0 x H). lra. Qed.

(* --- literal forms --- *)
Theorem Gxx_dev_form e : g_Gxx_dev_csd RA F e = g_Gxx_csd RA F e / sqrt (navg e). Proof. reflexivity. Qed.
Theorem Gxx_dev_auto_form e : g_Gxx_dev_auto RA F e = g_Gxx_auto RA F e / sqrt (navg e). Proof. reflexivity. Qed.
Theorem Gyy_dev_form e : g_Gyy_dev_csd RA F e = g_Gyy_csd RA F e / sqrt (navg e). Proof. reflexivity. Qed.
Theorem Gxx_error_form e : g_Gxx_error_csd RA F e = 1 / sqrt (navg e). Proof. reflexivity. Qed.
Theorem Gxy_error_form e : g_Gxy_error_csd RA F e = 1 / sqrt (coh e * navg e). Proof. reflexivity. Qed.

Theorem Gxy_dev_form e : 0 < coh e -> 0 < navg e ->
  g_Gxy_dev_csd RA F e = cabs RA sqrt (g_Gxy_csd RA F e) / sqrt (coh e * navg e).
Proof. intros _ _. reflexivity. Qed.

Theorem Hxy_dev_form e : coh e <= 1 ->
  g_Hxy_dev_csd RA F e = cabs RA sqrt (g_Hxy_csd RA F e) * sqrt (1 - coh e) / sqrt (2 * coh e * navg e).
Proof.
  intros Hg. unfold g_Hxy_dev_csd. cbn [sqrtT FR div mul sub ofZ RA].
  unfold rabs. cbn [ltb zero opp RA]. destruct (r_ltb (1 - coh e) 0) eqn:E; [apply r_ltb_true in E; lra|].
  replace (coh e * 2 * navg e) with (2 * coh e * navg e) by (simpl T; ring). reflexivity.
Qed.
Theorem Hxy_mag_error_form e : coh e <= 1 ->
  g_Hxy_mag_error_csd RA F e = sqrt (1 - coh e) / sqrt (2 * coh e * navg e).
Proof.
  intros Hg. unfold g_Hxy_mag_error_csd. cbn [sqrtT FR div mul sub ofZ RA].
  unfold rabs. cbn [ltb zero opp RA]. destruct (r_ltb (1 - coh e) 0) eqn:E; [apply r_ltb_true in E; lra|].
  replace (coh e * 2 * navg e) with (2 * coh e * navg e) by (simpl T; ring). reflexivity.
Qed.
Theorem Hxy_rad_error_form e : coh e <= 1 ->
  g_Hxy_rad_error_csd RA F e = asin (sqrt (1 - coh e)) / sqrt (2 * coh e * navg e).
Proof.
  intros Hg. unfold g_Hxy_rad_error_csd. cbn [sqrtT asinT FR div mul sub ofZ RA].
  unfold rabs. cbn [ltb zero opp RA]. destruct (r_ltb (1 - coh e) 0) eqn:E; [apply r_ltb_true in E; lra|].
  replace (coh e * 2 * navg e) with (2 * coh e * navg e) by (simpl T; ring). reflexivity.
Qed.
Theorem coh_error_form e : g_coh_error_csd RA F e = sqrt 2 * (1 - coh e) / (sqrt (coh e) * sqrt (navg e)).
Proof. reflexivity. Qed.

Theorem coh_dev_form e : 0 < coh e -> coh e <= 1 -> 0 < navg e ->
  g_coh_dev_csd RA F e = sqrt (2 * coh e) * (1 - coh e) / sqrt (navg e).
Proof.
  intros Hg Hg1 Hn. unfold g_coh_dev_csd. cbn [sqrtT FR div mul sub ofZ RA].
  set (g := coh e) in *. set (n := navg e) in *.
  assert (Hq : 0 <= 2 * g / n * ((1 - g) * (1 - g))).
  { apply Rmult_le_pos; [|nra]. apply Rmult_le_pos; [lra|]. left. apply Rinv_0_lt_compat. exact Hn. }
  unfold rabs. cbn [ltb zero opp RA]. destruct (r_ltb (2 * g / n * ((1 - g) * (1 - g))) 0) eqn:E; [apply r_ltb_true in E; lra|].
  replace (2 * g / n * ((1 - g) * (1 - g))) with ((2 * g) * ((1 - g) * (1 - g)) / n) by (rfield; lra).
  rewrite sqrt_div_alt by exact Hn. rewrite sqrt_mult by nra. rewrite sqrt_square by lra. reflexivity.
Qed.

(* --- each deviation is the estimate times its normalised error --- *)
Theorem Gxx_dev_is_est_times_err e : g_Gxx_dev_csd RA F e = g_Gxx_csd RA F e * g_Gxx_error_csd RA F e.
Proof. rewrite Gxx_dev_form, Gxx_error_form. unfold Rdiv. simpl T. ring. Qed.
Theorem Gyy_dev_is_est_times_err e : g_Gyy_dev_csd RA F e = g_Gyy_csd RA F e * g_Gyy_error_csd RA F e.
Proof. unfold g_Gyy_dev_csd, g_Gyy_error_csd. cbn [div mul ofZ RA]. unfold Rdiv. simpl T. ring. Qed.
Theorem Gxy_dev_is_est_times_err e : 0 < coh e -> 0 < navg e ->
  g_Gxy_dev_csd RA F e = cabs RA sqrt (g_Gxy_csd RA F e) * g_Gxy_error_csd RA F e.
Proof. intros. rewrite Gxy_dev_form, Gxy_error_form by assumption. unfold Rdiv. simpl T. ring. Qed.
Theorem Hxy_dev_is_est_times_err e : coh e <= 1 ->
  g_Hxy_dev_csd RA F e = cabs RA sqrt (g_Hxy_csd RA F e) * g_Hxy_mag_error_csd RA F e.
Proof. intros. rewrite Hxy_dev_form, Hxy_mag_error_form by assumption. unfold Rdiv. simpl T. ring. Qed.
Theorem coh_dev_is_est_times_err e : 0 < coh e -> coh e <= 1 -> 0 < navg e ->
  g_coh_dev_csd RA F e = coh e * g_coh_error_csd RA F e.
Proof.
  intros Hg Hg1 Hn. rewrite coh_dev_form, coh_error_form by assumption.
  rewrite sqrt_mult by lra.
  assert (sqrt (coh e) <> 0) by (apply sqrt_pos_ne; assumption).
  assert (sqrt (navg e) <> 0) by (apply sqrt_pos_ne; assumption).
  assert (Hs : sqrt (coh e) * sqrt (coh e) = coh e) by (apply sqrt_sqrt; lra).
  set (s := sqrt (coh e)) in *. set (g := coh e) in *. set (n := sqrt (navg e)) in *.
  transitivity (s * s * (sqrt 2 * (1 - g) / (s * n))); [rfield; split; assumption|rewrite Hs; reflexivity].
Qed.

(* --- 1/sqrt(n) scaling of the normalised errors --- *)
Theorem errors_scale_as_inv_sqrt_n e : 0 < coh e -> coh e <= 1 -> 0 < navg e ->
  g_Gxx_error_csd RA F e * sqrt (navg e) = 1 /\
  g_Gxy_error_csd RA F e * sqrt (navg e) = 1 / sqrt (coh e) /\
  g_Hxy_mag_error_csd RA F e * sqrt (navg e) = sqrt (1 - coh e) / sqrt (2 * coh e) /\
  g_coh_error_csd RA F e * sqrt (navg e) = sqrt 2 * (1 - coh e) / sqrt (coh e).
Proof.
  intros Hg Hg1 Hn.
  assert (Hsn : sqrt (navg e) <> 0) by (apply sqrt_pos_ne; assumption).
  assert (Hsg : sqrt (coh e) <> 0) by (apply sqrt_pos_ne; assumption).
  assert (Hs2g : sqrt (2 * coh e) <> 0) by (apply sqrt_pos_ne; lra).
  repeat split.
  - rewrite Gxx_error_form. rfield. exact Hsn.
  - rewrite Gxy_error_form. rewrite sqrt_mult by lra. rfield. split; assumption.
  - rewrite Hxy_mag_error_form by exact Hg1. rewrite (sqrt_mult (2 * coh e)) by lra. rfield. split; assumption.
  - rewrite coh_error_form. rfield. split; assumption.
Qed.

(* --- phase error is never smaller than the relative magnitude error (x <= asin x on [0,1]) --- *)
Lemma x_le_asin x : 0 <= x <= 1 -> x <= asin x.
Proof.
  intros [H0 H1]. destruct (Req_dec x 0) as [->|Hne]; [rewrite asin_0; lra|].
  pose proof (asin_bound x) as [Hlo Hhi].
  assert (Hpos : 0 < asin x).
  { destruct (Rlt_dec 0 (asin x)) as [|Hn]; [assumption|exfalso].
    assert (asin x <= 0) by lra.
    assert (sin (asin x) <= 0).
    { destruct (Req_dec (asin x) 0) as [E|E]; [rewrite E, sin_0; lra|].
      left. apply sin_lt_0_var; [pose proof PI_RGT_0; lra|lra]. }
    rewrite sin_asin in H2 by lra. lra. }
  pose proof (sin_lt_x (asin x) Hpos) as Hs. rewrite sin_asin in Hs by lra. lra.
Qed.
Theorem rad_error_ge_mag_error e : 0 < coh e -> coh e <= 1 -> 0 < navg e ->
  g_Hxy_mag_error_csd RA F e <= g_Hxy_rad_error_csd RA F e.
Proof.
  intros Hg Hg1 Hn. rewrite Hxy_mag_error_form, Hxy_rad_error_form by assumption.
  assert (0 < sqrt (2 * coh e * navg e)) by (apply sqrt_lt_R0; apply Rmult_lt_0_compat; lra).
  unfold Rdiv. apply Rmult_le_compat_r; [left; apply Rinv_0_lt_compat; assumption|].
  apply x_le_asin. split; [apply sqrt_pos|]. apply Rle_trans with (sqrt 1); [apply sqrt_le_1_alt; simpl T in *; lra|rewrite sqrt_1; lra].
Qed.
Theorem rad_error_le_half_pi_mag_error e : 0 < coh e -> coh e <= 1 -> 0 < navg e ->
  g_Hxy_rad_error_csd RA F e <= PI / 2 * g_Hxy_mag_error_csd RA F e.
Proof.
  intros Hg Hg1 Hn. rewrite Hxy_mag_error_form, Hxy_rad_error_form by assumption.
  assert (0 < sqrt (2 * coh e * navg e)) by (apply sqrt_lt_R0; apply Rmult_lt_0_compat; lra).
  unfold Rdiv. rewrite <- Rmult_assoc. apply Rmult_le_compat_r; [left; apply Rinv_0_lt_compat; assumption|].
  apply asin_le_half_pi_x. split; [apply sqrt_pos|]. apply Rle_trans with (sqrt 1); [apply sqrt_le_1_alt; simpl T in *; lra|rewrite sqrt_1; lra].
Qed.
(* at coherence 1 both the magnitude and the phase error vanish (their common limit) *)
Theorem errors_vanish_at_full_coherence e : coh e = 1 -> g_Hxy_mag_error_csd RA F e = 0 /\ g_Hxy_rad_error_csd RA F e = 0.
Proof.
  intros H1. rewrite Hxy_mag_error_form, Hxy_rad_error_form by (simpl T in *; lra). rewrite H1.
  replace (1 - 1) with 0 by ring. rewrite sqrt_0, asin_0. unfold Rdiv. rewrite !Rmult_0_l. split; reflexivity.
Qed.
End BP.
