(* KernelLin.v — homogeneity of the kernel reference in the records (C06 scaling law, C07 gain), at the reals:
   scaling channel 1 by c and channel 2 by d scales (mean|X|^2, mean|Y|^2, mean XY*, M2) by (c^2, d^2, c d, (c d)^2),
   for every window, frequency, start vector and detrend mode (raw, mean removal, polynomial projection). *)
From Coq Require Import ZArith List Bool Reals Lra Lia Psatz.
From SK Require Import Arith KernelPrims Kernels KernelThms.
Import ListNotations.
Open Scope R_scope.

Definition scaleL (g : R) (x : list R) : list R := map (Rmult g) x.
Lemma nthT_scale g x i : nthT RA (scaleL g x) i = g * nthT RA x i.
Proof.
  unfold nthT, scaleL. cbn [zero RA]. simpl T in *.
  rewrite <- (map_nth (Rmult g) x 0 (Z.to_nat i)). rewrite Rmult_0_r. reflexivity.
Qed.

(* ---- Goertzel recurrence is linear in the samples ---- *)
Definition sc3 (g : R) (st : R * R * R) : R * R * R := let '(a, b, c) := st in (g * a, g * b, g * c).
Lemma gstep3_scale coeff g st v : gstep3 RA coeff (sc3 g st) (g * v) = sc3 g (gstep3 RA coeff st v).
Proof.
  assert (H3 : forall a b c a' b' c' : R, a = a' -> b = b' -> c = c' -> (a, b, c) = (a', b', c')) by (intros; subst; reflexivity).
  destruct st as [[a b] c]. unfold gstep3, sc3. cbn [add sub mul RA]. simpl T in *. apply H3; ring.
Qed.
Lemma goertzel_idx_scale coeff g (v : Z -> R) L :
  goertzel_idx RA coeff (fun n => g * v n) L = sc3 g (goertzel_idx RA coeff v L).
Proof.
  unfold goertzel_idx. cbn [ofZ RA].
  assert (H : forall l st, fold_left (fun st n_ => gstep3 RA coeff st (g * v (Z.of_nat n_))) l (sc3 g st) =
                          sc3 g (fold_left (fun st n_ => gstep3 RA coeff st (v (Z.of_nat n_))) l st)).
  { induction l as [|n l IH]; intros st; cbn [fold_left]; [reflexivity|]. rewrite gstep3_scale. apply IH. }
  specialize (H (seq 0 (Z.to_nat L)) (0, 0, 0)). unfold sc3 at 1 in H. rewrite !Rmult_0_r in H. exact H.
Qed.
Lemma ref_bin_scale cw sw g (v : Z -> R) L :
  ref_bin RA cw sw (fun n => g * v n) L = (g * fst (ref_bin RA cw sw v L), g * snd (ref_bin RA cw sw v L)).
Proof.
  unfold ref_bin. rewrite goertzel_idx_scale. destruct (goertzel_idx RA _ v L) as [[a b] c].
  unfold sc3, binval. cbn [fst snd sub mul RA]. simpl T in *. f_equal; ring.
Qed.
Lemma ref_bin_ext cw sw (v v' : Z -> R) L : (forall n, v' n = v n) -> ref_bin RA cw sw v' L = ref_bin RA cw sw v L.
Proof.
  intros H. unfold ref_bin, goertzel_idx. f_equal.
  assert (G : forall l a, fold_left (fun st n_ => gstep3 RA (mul RA (ofZ RA 2) cw) st (v' (Z.of_nat n_))) l a =
                         fold_left (fun st n_ => gstep3 RA (mul RA (ofZ RA 2) cw) st (v (Z.of_nat n_))) l a).
  { induction l as [|k l IH]; intros a; cbn [fold_left]; [reflexivity|]. rewrite H. apply IH. }
  apply G.
Qed.

(* ---- the three sample functions are linear in the record ---- *)
Lemma samp_win_scale g x w s n : samp_win RA (scaleL g x) w s n = g * samp_win RA x w s n.
Proof. unfold samp_win. rewrite nthT_scale. cbn [mul RA]. simpl T in *. ring. Qed.

Lemma fold_sum_scale (f : nat -> R) g l : forall a, fold_left (fun m n_ => m + g * f n_) l (g * a) = g * fold_left (fun m n_ => m + f n_) l a.
Proof. induction l as [|n l IH]; intros a; cbn [fold_left]; [reflexivity|]. rewrite <- IH. f_equal. ring. Qed.
Lemma seg_mean_scale g x s L : seg_mean RA (scaleL g x) s L = g * seg_mean RA x s L.
Proof.
  unfold seg_mean. cbn [add div ofZ RA].
  assert (E : fold_left (fun m n_ => m + nthT RA (scaleL g x) (s + Z.of_nat n_)) (seq 0 (Z.to_nat L)) 0 =
              g * fold_left (fun m n_ => m + nthT RA x (s + Z.of_nat n_)) (seq 0 (Z.to_nat L)) 0).
  { rewrite <- (fold_sum_scale (fun n_ => nthT RA x (s + Z.of_nat n_)) g). rewrite Rmult_0_r.
    apply fold_left_ext_in'. intros m n_ _. rewrite nthT_scale. reflexivity. }
  simpl T in *. rewrite E. unfold Rdiv. ring.
Qed.

Lemma samp_mean0_scale g x w L s n : samp_mean0 RA (scaleL g x) w L s n = g * samp_mean0 RA x w L s n.
Proof. unfold samp_mean0. rewrite seg_mean_scale, nthT_scale. cbn [sub mul RA]. simpl T in *. ring. Qed.

Lemma alpha_ref_scale g x Q s L : alpha_ref RA (scaleL g x) Q s L = scaleL g (alpha_ref RA x Q s L).
Proof.
  unfold alpha_ref, scaleL. rewrite map_map. apply map_ext. intros k_. cbn [add mul ofZ RA].
  rewrite <- (Rmult_0_r g) at 1.
  rewrite <- (fold_sum_scale (fun n_ => nth2T RA Q (Z.of_nat n_) (Z.of_nat k_) * nthT RA x (s + Z.of_nat n_)) g).
  apply fold_left_ext_in'. intros m n_ _. fold (scaleL g x). rewrite nthT_scale. simpl T in *. ring.
Qed.
Lemma rowdot_scale g Q n a : rowdot RA Q n (scaleL g a) = g * rowdot RA Q n a.
Proof.
  unfold rowdot. cbn [add mul ofZ RA]. rewrite <- (Rmult_0_r g) at 1.
  rewrite <- (fold_sum_scale (fun k_ => nth2T RA Q n (Z.of_nat k_) * nthT RA a (Z.of_nat k_)) g).
  apply fold_left_ext_in'. intros m k_ _. rewrite nthT_scale. simpl T in *. ring.
Qed.
Lemma samp_poly_scale g x w Q L s n : samp_poly RA (scaleL g x) w Q L s n = g * samp_poly RA x w Q L s n.
Proof. unfold samp_poly. rewrite alpha_ref_scale, rowdot_scale, nthT_scale. cbn [sub mul RA]. simpl T in *. ring. Qed.

(* ---- per-segment products ---- *)
Lemma pw_csd_scale c d (X Y : R * R) :
  pw_csd RA (c * fst X, c * snd X) (d * fst Y, d * snd Y) =
  let '(a, b, re, im) := pw_csd RA X Y in (c * c * a, d * d * b, c * d * re, c * d * im).
Proof. destruct X as [x1 x2], Y as [y1 y2]. unfold pw_csd. cbn [fst snd add sub mul RA]. apply pair4_eq; ring. Qed.
Lemma pw_auto_scale c (X : R * R) :
  pw_auto RA (c * fst X, c * snd X) = let '(a, b, re, im) := pw_auto RA X in (c * c * a, c * c * b, c * c * re, im).
Proof. destruct X as [x1 x2]. unfold pw_auto. cbn [fst snd add mul ofZ RA]. apply pair4_eq; ring. Qed.

(* ---- reduction over segments ---- *)
Definition sc4 (p q r s : R) (t : R * R * R * R) : R * R * R * R := let '(a, b, c, d) := t in (p * a, q * b, r * c, s * d).
Lemma sumT_scale k l : sumT RA (map (Rmult k) l) = k * sumT RA l.
Proof.
  unfold sumT. cbn [add zero RA]. rewrite <- (Rmult_0_r k) at 1.
  assert (H : forall a, fold_left Rplus (map (Rmult k) l) (k * a) = k * fold_left Rplus l a).
  { induction l as [|x l IH]; intros a; cbn [map fold_left]; [reflexivity|]. rewrite <- IH. f_equal. ring. }
  apply H.
Qed.
Lemma meanT_scale k l : meanT RA (map (Rmult k) l) = k * meanT RA l.
Proof. unfold meanT. rewrite sumT_scale, map_length. cbn [div ofZ RA]. unfold Rdiv. simpl T in *. ring. Qed.
Lemma map_proj_sc4 p q r s rows :
  map proj4_1 (map (sc4 p q r s) rows) = map (Rmult p) (map proj4_1 rows) /\
  map proj4_2 (map (sc4 p q r s) rows) = map (Rmult q) (map proj4_2 rows) /\
  map proj4_3 (map (sc4 p q r s) rows) = map (Rmult r) (map proj4_3 rows) /\
  map proj4_4 (map (sc4 p q r s) rows) = map (Rmult s) (map proj4_4 rows).
Proof. repeat split; rewrite !map_map; apply map_ext; intros [[[a b] c] d]; reflexivity. Qed.

Lemma zip_sq_scale k (a b : list R) (ma mb : R) :
  zipT (add RA) (zipT (mul RA) (map (fun z_ => sub RA z_ (k * ma)) (map (Rmult k) a)) (map (fun z_ => sub RA z_ (k * ma)) (map (Rmult k) a)))
                (zipT (mul RA) (map (fun z_ => sub RA z_ (k * mb)) (map (Rmult k) b)) (map (fun z_ => sub RA z_ (k * mb)) (map (Rmult k) b)))
  = map (Rmult (k * k)) (zipT (add RA) (zipT (mul RA) (map (fun z_ => sub RA z_ ma) a) (map (fun z_ => sub RA z_ ma) a))
                                       (zipT (mul RA) (map (fun z_ => sub RA z_ mb) b) (map (fun z_ => sub RA z_ mb) b))).
Proof.
  revert b. induction a as [|x a IH]; intros [|y b]; cbn [map zipT]; try reflexivity.
  rewrite IH. f_equal. cbn [add sub mul RA]. simpl T in *. ring.
Qed.

Lemma pair5_eq (a b c d e a' b' c' d' e' : R) : a = a' -> b = b' -> c = c' -> d = d' -> e = e' -> (a, b, c, d, e) = (a', b', c', d', e').
Proof. intros; subst; reflexivity. Qed.
Lemma ref_reduce_scale c d (xx yy xyr xyi : list R) :
  ref_reduce RA (map (Rmult (c * c)) xx) (map (Rmult (d * d)) yy) (map (Rmult (c * d)) xyr) (map (Rmult (c * d)) xyi) =
  let '(MXX, MYY, mur, mui, M2) := ref_reduce RA xx yy xyr xyi in (c * c * MXX, d * d * MYY, c * d * mur, c * d * mui, (c * d) * (c * d) * M2).
Proof.
  unfold ref_reduce. cbv zeta. rewrite !map_length. simpl T in *.
  destruct (Z.of_nat (length xx) =? 0)%Z; [cbn [ofZ RA]; simpl T in *; apply pair5_eq; ring|].
  rewrite !meanT_scale.
  destruct (Z.of_nat (length xx) >=? 2)%Z.
  - rewrite zip_sq_scale, meanT_scale. reflexivity.
  - cbn [ofZ RA]. simpl T in *. apply pair5_eq; ring.
Qed.
Theorem reduce_rows_scale c d rows :
  reduce_rows RA (map (sc4 (c * c) (d * d) (c * d) (c * d)) rows) =
  let '(MXX, MYY, mur, mui, M2) := reduce_rows RA rows in (c * c * MXX, d * d * MYY, c * d * mur, c * d * mui, (c * d) * (c * d) * M2).
Proof.
  unfold reduce_rows. destruct (map_proj_sc4 (c * c) (d * d) (c * d) (c * d) rows) as (E1 & E2 & E3 & E4).
  simpl T in *. rewrite E1, E2, E3, E4. apply ref_reduce_scale.
Qed.

(* ---- the scaling law for every detrend mode ---- *)
Definition linear_samp (samp : list R -> Z -> Z -> R) : Prop := forall g x s n, samp (scaleL g x) s n = g * samp x s n.
Theorem ref_csd_scale cw sw (samp : list R -> Z -> Z -> R) (c d : R) (x1 x2 : list R) starts L : linear_samp samp ->
  ref_csd RA cw sw (samp (scaleL c x1)) (samp (scaleL d x2)) starts L =
  let '(MXX, MYY, mur, mui, M2) := ref_csd RA cw sw (samp x1) (samp x2) starts L in
  (c * c * MXX, d * d * MYY, c * d * mur, c * d * mui, (c * d) * (c * d) * M2).
Proof.
  intros Hl. unfold ref_csd. rewrite <- reduce_rows_scale. f_equal. rewrite map_map. apply map_ext. intros s.
  rewrite (ref_bin_ext cw sw (fun n => c * samp x1 s n) (samp (scaleL c x1) s) L) by (intros n; apply Hl).
  rewrite (ref_bin_ext cw sw (fun n => d * samp x2 s n) (samp (scaleL d x2) s) L) by (intros n; apply Hl).
  rewrite !ref_bin_scale. rewrite pw_csd_scale. destruct (pw_csd RA _ _) as [[[a b] re] im]. reflexivity.
Qed.
Theorem linear_samp_win w : linear_samp (fun x => samp_win RA x w).
Proof. intros g x s n. apply samp_win_scale. Qed.
Theorem linear_samp_mean0 w L : linear_samp (fun x => samp_mean0 RA x w L).
Proof. intros g x s n. apply samp_mean0_scale. Qed.
Theorem linear_samp_poly w Q L : linear_samp (fun x => samp_poly RA x w Q L).
Proof. intros g x s n. apply samp_poly_scale. Qed.

(* ---- second channel = g * first channel: YY = g^2 XX, XY = g XX (real) — the kernel side of C07's gain statement ---- *)
Lemma scaleL_one x : scaleL 1 x = x.
Proof. unfold scaleL. rewrite <- (map_id x) at 2. apply map_ext. intros a. ring. Qed.
Lemma pw_csd_same (X : R * R) : pw_csd RA X X = (fst (fst (fst (pw_auto RA X))), fst (fst (fst (pw_auto RA X))), fst (fst (fst (pw_auto RA X))), 0).
Proof. destruct X as [a b]. unfold pw_csd, pw_auto. cbn [fst snd add sub mul RA]. apply pair4_eq; ring. Qed.
Lemma meanT_zeros (l : list (R * R)) f : (forall z, f z = 0) -> meanT RA (map f l) = 0.
Proof.
  intros H. unfold meanT. assert (E : sumT RA (map f l) = 0).
  { unfold sumT. cbn [add zero RA]. induction l as [|z l IH]; cbn [map fold_left]; [reflexivity|]. rewrite H, Rplus_0_l. exact IH. }
  rewrite E. cbn [div RA]. unfold Rdiv. apply Rmult_0_l.
Qed.
Theorem ref_csd_same cw sw (s1 : Z -> Z -> R) starts L :
  let '(MXX, MYY, mur, mui, M2) := ref_csd RA cw sw s1 s1 starts L in MYY = MXX /\ mur = MXX /\ mui = 0.
Proof.
  unfold ref_csd, reduce_rows, ref_reduce. rewrite !map_length. cbv zeta.
  destruct (Z.of_nat (length starts) =? 0)%Z; [cbn [ofZ RA]; repeat split; reflexivity|].
  rewrite !map_map.
  assert (E2 : map (fun x => proj4_2 (pw_csd RA (ref_bin RA cw sw (s1 x) L) (ref_bin RA cw sw (s1 x) L))) starts =
               map (fun x => proj4_1 (pw_csd RA (ref_bin RA cw sw (s1 x) L) (ref_bin RA cw sw (s1 x) L))) starts)
    by (apply map_ext; intros z; rewrite pw_csd_same; reflexivity).
  assert (E3 : map (fun x => proj4_3 (pw_csd RA (ref_bin RA cw sw (s1 x) L) (ref_bin RA cw sw (s1 x) L))) starts =
               map (fun x => proj4_1 (pw_csd RA (ref_bin RA cw sw (s1 x) L) (ref_bin RA cw sw (s1 x) L))) starts)
    by (apply map_ext; intros z; rewrite pw_csd_same; reflexivity).
  rewrite E2, E3. repeat split.
  assert (Hz : forall z : Z, proj4_4 (pw_csd RA (ref_bin RA cw sw (s1 z) L) (ref_bin RA cw sw (s1 z) L)) = 0) by (intros z; rewrite pw_csd_same; reflexivity).
  clear E2 E3. unfold meanT at 1. assert (E : sumT RA (map (fun x => proj4_4 (pw_csd RA (ref_bin RA cw sw (s1 x) L) (ref_bin RA cw sw (s1 x) L))) starts) = 0).
  { unfold sumT. cbn [add zero RA]. induction starts as [|z l IH]; cbn [map fold_left]; [reflexivity|]. rewrite Hz, Rplus_0_l. exact IH. }
  rewrite E. cbn [div RA]. unfold Rdiv. apply Rmult_0_l.
Qed.
Theorem gain_statistics cw sw (samp : list R -> Z -> Z -> R) (g : R) (x : list R) starts L : linear_samp samp ->
  let '(MXX, MYY, mur, mui, M2) := ref_csd RA cw sw (samp x) (samp (scaleL g x)) starts L in
  MYY = g * g * MXX /\ mur = g * MXX /\ mui = 0.
Proof.
  intros Hl. pose proof (ref_csd_scale cw sw samp 1 g x x starts L Hl) as H. rewrite scaleL_one in H. rewrite H.
  pose proof (ref_csd_same cw sw (samp x) starts L) as S.
  destruct (ref_csd RA cw sw (samp x) (samp x) starts L) as [[[[a b] c] d] e]. destruct S as (S1 & S2 & S3). subst.
  simpl T in *. repeat split; ring.
Qed.
