(* KernelThms.v — the mathematical content of C01/C07 at the reals:
   the streaming Goertzel recurrence returns e^{i w (L-1)} times the windowed DFT  X = sum_n v_n e^{-i w n},
   hence |X|^2 and X conj(Y) (sign of the imaginary part included) are those of the definition. *)
From Coq Require Import ZArith List Bool Reals Lra Lia Psatz.
From SK Require Import Arith KernelPrims Kernels.
Import ListNotations.
Open Scope R_scope.

Definition rot (th : R) (p : R * R) : R * R :=
  (fst p * cos th - snd p * sin th, fst p * sin th + snd p * cos th).

(* X(w) = sum_{n<L} v(n) e^{-i w n}  as (Re, Im) *)
Definition dft_step (w : R) (v : Z -> R) (acc : R * R) (n_ : nat) : R * R :=
  (fst acc + v (Z.of_nat n_) * cos (w * INR n_), snd acc - v (Z.of_nat n_) * sin (w * INR n_)).
Definition dft_def (w : R) (v : Z -> R) (L : Z) : R * R :=
  fold_left (dft_step w v) (seq 0 (Z.to_nat L)) (0, 0).

Lemma gstep_rot (w : R) (st : R * R * R) (v : R) :
  let '(s0, s2, s1) := st in
  let '(t0, t2, t1) := gstep3 RA (2 * cos w) st v in
  (t1 - t2 * cos w, t2 * sin w) =
  (cos w * (s1 - s2 * cos w) - sin w * (s2 * sin w) + v, sin w * (s1 - s2 * cos w) + cos w * (s2 * sin w)).
Proof.
  destruct st as [[s0 s2] s1]. cbn [gstep3 add sub mul RA].
  assert (Hc : cos w * cos w = 1 - sin w * sin w) by (pose proof (sin2_cos2 w) as H; unfold Rsqr in H; lra).
  f_equal; ring [Hc].
Qed.

(* invariant: after n samples, (s1 - s2 cos w, s2 sin w) = e^{i w (n-1)} * X_n *)
Lemma goertzel_prefix (w : R) (v : Z -> R) (n : nat) :
  binval RA (cos w) (sin w) (fold_left (fun st n_ => gstep3 RA (2 * cos w) st (v (Z.of_nat n_))) (seq 0 n) (0, 0, 0))
  = rot (w * (INR n - 1)) (fold_left (dft_step w v) (seq 0 n) (0, 0)).
Proof.
  induction n as [|n IH].
  - cbn. unfold rot. cbn. f_equal; ring.
  - rewrite seq_S, !fold_left_app. cbn [fold_left Nat.add].
    remember (fold_left (fun st n_ => gstep3 RA (2 * cos w) st (v (Z.of_nat n_))) (seq 0 n) (0, 0, 0)) as st.
    remember (fold_left (dft_step w v) (seq 0 n) (0, 0)) as D.
    pose proof (gstep_rot w st (v (Z.of_nat n))) as Hs.
    destruct st as [[s0 s2] s1]. destruct (gstep3 RA (2 * cos w) (s0, s2, s1) (v (Z.of_nat n))) as [[t0 t2] t1].
    unfold binval in *. cbn [sub mul RA] in *. etransitivity; [exact Hs|]. clear Hs. injection IH as IH1 IH2. change (T RA) with R in *. rewrite IH1, IH2.
    unfold rot, dft_step. destruct D as [a b]. cbn [fst snd]. rewrite S_INR.
    replace (w * (INR n + 1 - 1)) with (w * (INR n - 1) + w) by ring.
    replace (w * INR n) with (w * (INR n - 1) + w) by ring.
    set (t := w * (INR n - 1)). rewrite !cos_plus, !sin_plus.
    assert (Ht : cos t * cos t = 1 - sin t * sin t) by (pose proof (sin2_cos2 t) as H; unfold Rsqr in H; lra).
    assert (Hw : cos w * cos w = 1 - sin w * sin w) by (pose proof (sin2_cos2 w) as H; unfold Rsqr in H; lra).
    f_equal; ring [Ht Hw].
Qed.

Lemma ref_bin_rot (w : R) (v : Z -> R) (L : Z) :
  ref_bin RA (cos w) (sin w) v L = rot (w * (INR (Z.to_nat L) - 1)) (dft_def w v L).
Proof. unfold ref_bin, goertzel_idx, dft_def. cbn [mul ofZ RA]. apply goertzel_prefix. Qed.

Lemma pair4_eq (a b c d a' b' c' d' : R) : a = a' -> b = b' -> c = c' -> d = d' -> (a, b, c, d) = (a', b', c', d').
Proof. intros; subst; reflexivity. Qed.

(* rotations by a common angle preserve power and the cross product a * conj(b) *)
Lemma pw_auto_rot th p : pw_auto RA (rot th p) = pw_auto RA p.
Proof.
  destruct p as [a b]. unfold rot, pw_auto. cbn [fst snd add mul ofZ RA].
  assert (Hc : cos th * cos th = 1 - sin th * sin th) by (pose proof (sin2_cos2 th) as H; unfold Rsqr in H; lra).
  apply pair4_eq; ring [Hc].
Qed.
Lemma pw_csd_rot th p q : pw_csd RA (rot th p) (rot th q) = pw_csd RA p q.
Proof.
  destruct p as [a b], q as [c d]. unfold rot, pw_csd. cbn [fst snd add sub mul RA].
  assert (Hc : cos th * cos th = 1 - sin th * sin th) by (pose proof (sin2_cos2 th) as H; unfold Rsqr in H; lra).
  apply pair4_eq; ring [Hc].
Qed.

(* ---- the definition the property states: evaluate X_k(w) directly for every segment and average ---- *)
Definition def_auto (w : R) (samp : Z -> Z -> R) (starts : list Z) (L : Z) :=
  reduce_rows RA (map (fun s => pw_auto RA (dft_def w (samp s) L)) starts).
Definition def_csd (w : R) (samp1 samp2 : Z -> Z -> R) (starts : list Z) (L : Z) :=
  reduce_rows RA (map (fun s => pw_csd RA (dft_def w (samp1 s) L) (dft_def w (samp2 s) L)) starts).

Theorem ref_auto_is_definition w samp starts L :
  ref_auto RA (cos w) (sin w) samp starts L = def_auto w samp starts L.
Proof.
  unfold ref_auto, def_auto. f_equal. apply map_ext. intros s. rewrite ref_bin_rot. apply pw_auto_rot.
Qed.
Theorem ref_csd_is_definition w samp1 samp2 starts L :
  ref_csd RA (cos w) (sin w) samp1 samp2 starts L = def_csd w samp1 samp2 starts L.
Proof.
  unfold ref_csd, def_csd. f_equal. apply map_ext. intros s. rewrite !ref_bin_rot. apply pw_csd_rot.
Qed.

(* ---- NumPy fallbacks: with the phasor table e[n] = exp(-i w n) they evaluate the definition directly ---- *)
Definition phasor_re (w : R) (L : Z) : list R := map (fun n_ => cos (w * INR n_)) (seq 0 (Z.to_nat L)).
Definition phasor_im (w : R) (sgn : R) (L : Z) : list R := map (fun n_ => sgn * sin (w * INR n_)) (seq 0 (Z.to_nat L)).

Lemma nth_phasor (f : nat -> R) (n : nat) (k : nat) : (k < n)%nat ->
  nthT RA (map f (seq 0 n)) (Z.of_nat k) = f k.
Proof.
  intros Hk. unfold nthT. rewrite Nat2Z.id. rewrite nth_indep with (d' := f 0%nat) by (rewrite map_length, seq_length; exact Hk).
  rewrite (map_nth f (seq 0 n) 0%nat k), seq_nth by exact Hk. reflexivity.
Qed.

Lemma fold_left_ext_in' {S X} (f g : S -> X -> S) (l : list X) : forall a,
  (forall st x, In x l -> f st x = g st x) -> fold_left f l a = fold_left g l a.
Proof.
  induction l as [|x l IH]; intros a H; cbn [fold_left]; [reflexivity|].
  rewrite H by (left; reflexivity). apply IH. intros st y Hy. apply H. right. exact Hy.
Qed.

Lemma fold_pair {X} (f1 f2 : R -> X -> R) (l : list X) : forall a b,
  fold_left (fun acc x => (f1 (fst acc) x, f2 (snd acc) x)) l (a, b) = (fold_left f1 l a, fold_left f2 l b).
Proof. induction l as [|x l IH]; intros a b; cbn [fold_left fst snd]; [reflexivity|apply IH]. Qed.

Lemma neg1_alg (a b c : R) : a + b * (-1 * c) = a - b * c.
Proof. ring. Qed.

Lemma dot_phasor_is_dft w v L :
  dot_phasor RA v (phasor_re w L) (phasor_im w (-1) L) L = dft_def w v L.
Proof.
  unfold dot_phasor, dft_def, phasor_re, phasor_im.
  change (dft_step w v) with (fun acc n_ => ((fun a n_ => a + v (Z.of_nat n_) * cos (w * INR n_)) (fst acc) n_,
                                              (fun b n_ => b - v (Z.of_nat n_) * sin (w * INR n_)) (snd acc) n_)).
  rewrite fold_pair. cbn [add mul ofZ RA]. f_equal; apply fold_left_ext_in'; intros st n_ Hin; apply in_seq in Hin;
    rewrite nth_phasor by lia; [reflexivity|apply neg1_alg].
Qed.

Theorem np_auto_is_definition w samp starts L :
  np_auto RA (phasor_re w L) (phasor_im w (-1) L) samp starts L = def_auto w samp starts L.
Proof. unfold np_auto, def_auto. f_equal. apply map_ext. intros s. rewrite dot_phasor_is_dft. reflexivity. Qed.
Theorem np_csd_is_definition w samp1 samp2 starts L :
  np_csd RA (phasor_re w L) (phasor_im w (-1) L) samp1 samp2 starts L = def_csd w samp1 samp2 starts L.
Proof. unfold np_csd, def_csd. f_equal. apply map_ext. intros s. rewrite !dot_phasor_is_dft. reflexivity. Qed.

(* with the conjugate table exp(+i w n) (the pre-fix fallbacks) the imaginary part of XY flips sign *)
Lemma dot_phasor_conj w v L :
  dot_phasor RA v (phasor_re w L) (phasor_im w 1 L) L = (fst (dft_def w v L), - snd (dft_def w v L)).
Proof.
  rewrite <- dot_phasor_is_dft. unfold dot_phasor, phasor_re, phasor_im. cbn [fst snd add mul ofZ RA]. f_equal.
  set (l := seq 0 (Z.to_nat L)).
  assert (H : forall a, fold_left (fun acc n_ => acc + v (Z.of_nat n_) * nthT RA (map (fun n_ => 1 * sin (w * INR n_)) l) (Z.of_nat n_)) l a
                = - fold_left (fun acc n_ => acc + v (Z.of_nat n_) * nthT RA (map (fun n_ => -1 * sin (w * INR n_)) l) (Z.of_nat n_)) l (- a)).
  { subst l. generalize (seq 0 (Z.to_nat L)) at 2 4 as l0. intros l0.
    set (m := seq 0 (Z.to_nat L)).
    assert (Hn : forall k, nthT RA (map (fun n_ => 1 * sin (w * INR n_)) m) k = - nthT RA (map (fun n_ => -1 * sin (w * INR n_)) m) k).
    { intros k. unfold nthT. cbn [zero RA]. generalize (Z.to_nat k) as i. induction m as [|x m IHm]; intros [|i]; cbn; try lra. apply IHm. }
    induction l0 as [|x l0 IH]; intros a; cbn [fold_left]; [lra|]. rewrite IH. f_equal. f_equal. rewrite Hn. ring. }
  rewrite H. rewrite Ropp_0. reflexivity.
Qed.
