(* AttrThms.v — theorems about the GENERATED attribute table (gen/AttrsGen.v) at the reals.
   Serves C06 (calibration), C09 (identities and bounds), C10 (Bendat-Piersol), C11 (empirical errors), C20 (views). *)
From Coq Require Import ZArith List Bool String Reals Lra Lia Psatz.
From SK Require Import Arith Cpx.
From SK.gen Require Import AttrsGen.
Import ListNotations.
Open Scope R_scope.

Ltac rfield := simpl T in *; field.
Ltac rring := simpl T in *; ring.

Section AttrThms.
Variable angle : R * R -> R.     (* np.angle  — arbitrary *)
Variable unwrap : R -> R.        (* np.unwrap — arbitrary *)
Definition rad2deg (x : R) : R := x * (180 / PI).
Definition log10 (x : R) : R := ln x / ln 10.
Definition FR : fns RA := mkFns RA sqrt asin rad2deg (fun x => 20 * log10 x) angle unwrap.
Definition env_R := env RA.
Implicit Type e : env RA.

Lemma n2n (x : R) : nan2num RA x = x. Proof. reflexivity. Qed.
Lemma neqb_true a b : negb (eqb RA a b) = true <-> a <> b.
Proof. cbn [eqb RA]. unfold r_eqb. destruct (Req_EM_T a b); cbn; split; intros; try easy. Qed.

(* ------------------------------------------------------------ C20: derived quantities are views *)
Lemma psd_is_Gxx e : g_psd_auto RA FR e = g_Gxx_auto RA FR e. Proof. reflexivity. Qed.
Lemma G_is_Gxx e : g_G_auto RA FR e = g_Gxx_auto RA FR e. Proof. reflexivity. Qed.
Lemma csd_is_Gxy e : g_csd_csd RA FR e = g_Gxy_csd RA FR e. Proof. reflexivity. Qed.
Lemma tf_is_Hxy e : g_tf_csd RA FR e = g_Hxy_csd RA FR e. Proof. reflexivity. Qed.
Lemma ps_is_psd_ENBW e : g_ps_auto RA FR e = g_psd_auto RA FR e * g_ENBW_auto RA FR e. Proof. reflexivity. Qed.
Lemma cs_is_csd_ENBW e : g_cs_csd RA FR e = cscale RA (g_ENBW_csd RA FR e) (g_csd_csd RA FR e). Proof. reflexivity. Qed.
Lemma cf_is_abs_Hxy e : g_cf_csd RA FR e = cabs RA sqrt (g_Hxy_csd RA FR e). Proof. reflexivity. Qed.
Lemma cf_db_is_20log10 e : g_cf_db_csd RA FR e = 20 * log10 (g_cf_csd RA FR e). Proof. reflexivity. Qed.
Lemma cf_deg_is_rad e : g_cf_deg_csd RA FR e = g_cf_rad_csd RA FR e * (180 / PI). Proof. reflexivity. Qed.
Lemma cf_deg_unwrapped_is_rad e : g_cf_deg_unwrapped_csd RA FR e = g_cf_rad_unwrapped_csd RA FR e * (180 / PI). Proof. reflexivity. Qed.
Lemma Hxy_deg_error_is_rad e : g_Hxy_deg_error_csd RA FR e = g_Hxy_rad_error_csd RA FR e * (180 / PI). Proof. reflexivity. Qed.
Lemma Gyx_is_conj e : g_Gyx_csd RA FR e = cconj RA (g_Gxy_csd RA FR e). Proof. reflexivity. Qed.
Lemma Hyx_is_conj e : g_Hyx_csd RA FR e = cconj RA (g_Hxy_csd RA FR e). Proof. reflexivity. Qed.
Lemma auto_Gyy_Gxy_are_Gxx e : g_Gyy_auto RA FR e = g_Gxx_auto RA FR e /\ g_Gxy_auto RA FR e = g_Gxx_auto RA FR e.
Proof. split; reflexivity. Qed.

Lemma Gxx_value e : e_S2 e <> 0 -> g_Gxx_auto RA FR e = 2 * e_XX e / (e_fs e * e_S2 e).
Proof. intros H. unfold g_Gxx_auto. apply neqb_true in H. cbn [ofZ RA] in *. rewrite H. reflexivity. Qed.
Lemma Gxx_csd_value e : e_S2 e <> 0 -> g_Gxx_csd RA FR e = 2 * e_XX e / (e_fs e * e_S2 e).
Proof. intros H. unfold g_Gxx_csd. apply neqb_true in H. cbn [ofZ RA] in *. rewrite H. reflexivity. Qed.
Lemma Gyy_csd_value e : e_S2 e <> 0 -> g_Gyy_csd RA FR e = 2 * e_YY e / (e_fs e * e_S2 e).
Proof. intros H. unfold g_Gyy_csd. apply neqb_true in H. cbn [ofZ RA] in *. rewrite H. reflexivity. Qed.
Lemma ENBW_value e : e_S12 e <> 0 -> g_ENBW_auto RA FR e = e_fs e * e_S2 e / e_S12 e.
Proof. intros H. unfold g_ENBW_auto. apply neqb_true in H. cbn [ofZ RA] in *. rewrite H. reflexivity. Qed.
Lemma ENBW_csd_value e : e_S12 e <> 0 -> g_ENBW_csd RA FR e = e_fs e * e_S2 e / e_S12 e.
Proof. intros H. unfold g_ENBW_csd. apply neqb_true in H. cbn [ofZ RA] in *. rewrite H. reflexivity. Qed.

Lemma asd_sq_is_psd e : 0 <= g_psd_auto RA FR e -> g_asd_auto RA FR e * g_asd_auto RA FR e = g_psd_auto RA FR e.
Proof. intros H. unfold g_asd_auto. cbn [sqrtT FR]. apply sqrt_sqrt. exact H. Qed.
Lemma psd_nonneg e : 0 <= e_XX e -> 0 < e_fs e -> 0 < e_S2 e -> 0 <= g_psd_auto RA FR e.
Proof.
  intros HX Hf HS. rewrite psd_is_Gxx, Gxx_value by lra.
  apply Rmult_le_pos; [lra|]. left. apply Rinv_0_lt_compat. apply Rmult_lt_0_compat; assumption.
Qed.

(* which names are None in which mode (false = auto, true = cross): exhaustive *)
Definition expected_none : list (string * bool) :=
  map (fun n => (n, false)) ["csd"; "Gyx"; "Hxy"; "Hyx"; "coh"; "ccoh"; "cs"; "tf"; "cf"; "cf_db"; "cf_rad"; "cf_deg";
     "cf_rad_unwrapped"; "cf_deg_unwrapped"; "GyyCx"; "GyyRx"; "GyySx"; "Gxy_dev"; "Hxy_dev"; "coh_dev"; "Gxy_error";
     "Hxy_mag_error"; "Hxy_rad_error"; "Hxy_deg_error"; "coh_error"; "Gxy_emp_dev"]%string
  ++ map (fun n => (n, true)) ["psd"; "asd"; "ps"; "Gxx_emp_dev"; "G"]%string.
Definition same_set (a b : list (string * bool)) : bool :=
  let mem x l := existsb (fun y => String.eqb (fst x) (fst y) && Bool.eqb (snd x) (snd y)) l in
  forallb (fun x => mem x b) a && forallb (fun x => mem x a) b.
Lemma none_table_exact : same_set none_table expected_none = true.
Proof. vm_compute. reflexivity. Qed.

(* ------------------------------------------------------------ C06: calibration *)
Lemma ps_is_2XX_over_S12 e : e_S2 e <> 0 -> e_S12 e <> 0 -> e_fs e <> 0 ->
  g_ps_auto RA FR e = 2 * e_XX e / e_S12 e.
Proof.
  intros H2 H12 Hf. rewrite ps_is_psd_ENBW, psd_is_Gxx, Gxx_value, ENBW_value by assumption. rfield. repeat split; assumption.
Qed.

(* scaling the first channel by c: XX -> c^2 XX, XY -> c XY; the second by d: YY -> d^2 YY, XY -> d XY *)
Definition scale_env (c d : R) (e : env_R) : env_R :=
  mkEnv RA (c * c * e_XX e) (d * d * e_YY e) (e_S2 e) (e_S12 e) (e_M2 e) (e_navg e) (e_fs e) (cscale RA (c * d) (e_XY e)).
Lemma Gxx_scales c d e : g_Gxx_csd RA FR (scale_env c d e) = c * c * g_Gxx_csd RA FR e.
Proof.
  unfold g_Gxx_csd, scale_env. cbn [e_S2 e_XX e_fs ofZ RA]. destruct (negb (eqb RA (e_S2 e) 0)); cbn [zero div mul RA]; [|rring].
  unfold Rdiv. rring.
Qed.
Lemma Gyy_scales c d e : g_Gyy_csd RA FR (scale_env c d e) = d * d * g_Gyy_csd RA FR e.
Proof.
  unfold g_Gyy_csd, scale_env. cbn [e_S2 e_YY e_fs ofZ RA]. destruct (negb (eqb RA (e_S2 e) 0)); cbn [zero div mul RA]; [|rring].
  unfold Rdiv. rring.
Qed.
Lemma Gxy_scales c d e : g_Gxy_csd RA FR (scale_env c d e) = cscale RA (c * d) (g_Gxy_csd RA FR e).
Proof.
  unfold g_Gxy_csd, scale_env. cbn [e_S2 e_XY e_fs ofZ RA]. destruct (negb (eqb RA (e_S2 e) 0)).
  - unfold cdivr, cscale. cbn [fst snd div mul RA]. f_equal; unfold Rdiv; rring.
  - unfold czero, cscale. cbn [fst snd zero mul RA]. f_equal; rring.
Qed.

(* relabelling the sampling rate: fs -> a fs *)
Definition relabel_env (a : R) (e : env_R) : env_R :=
  mkEnv RA (e_XX e) (e_YY e) (e_S2 e) (e_S12 e) (e_M2 e) (e_navg e) (a * e_fs e) (e_XY e).
Lemma ENBW_relabel a e : g_ENBW_auto RA FR (relabel_env a e) = a * g_ENBW_auto RA FR e.
Proof.
  unfold g_ENBW_auto, relabel_env. cbn [e_S12 e_S2 e_fs ofZ RA]. destruct (negb (eqb RA (e_S12 e) 0)); cbn [zero div mul RA]; [|rring].
  unfold Rdiv. rring.
Qed.
Lemma Gxx_relabel a e : a <> 0 -> e_fs e <> 0 -> g_Gxx_auto RA FR (relabel_env a e) = g_Gxx_auto RA FR e / a.
Proof.
  intros Ha Hf. unfold g_Gxx_auto, relabel_env. cbn [e_S2 e_XX e_fs ofZ RA].
  destruct (negb (eqb RA (e_S2 e) 0)) eqn:E; cbn [zero div mul RA]; [|unfold Rdiv; rring].
  apply neqb_true in E. rfield. repeat split; assumption.
Qed.

(* ------------------------------------------------------------ C09: identities and bounds *)
Definition cabs2 (z : R * R) : R := fst z * fst z + snd z * snd z.
Lemma cabs_sq z : cabs RA sqrt z * cabs RA sqrt z = cabs2 z.
Proof. unfold cabs, cabs2. cbn [add mul RA]. apply sqrt_sqrt. nra. Qed.

Lemma coh_value e : e_XX e <> 0 -> e_YY e <> 0 -> g_coh_csd RA FR e = cabs2 (e_XY e) / (e_XX e * e_YY e).
Proof.
  intros HX HY. unfold g_coh_csd. pose proof HX as HX'. pose proof HY as HY'. apply neqb_true in HX', HY'. cbn [ofZ RA] in *. rewrite HX', HY'. cbn [andb div mul RA sqrtT FR].
  rewrite <- cabs_sq. simpl T in *. field. split; assumption.
Qed.
Lemma coh_zero_case e : e_XX e = 0 \/ e_YY e = 0 -> g_coh_csd RA FR e = 0.
Proof.
  intros H. unfold g_coh_csd. cbn [ofZ RA eqb]. unfold r_eqb.
  destruct (Req_EM_T (e_XX e) 0), (Req_EM_T (e_YY e) 0); cbn [negb andb zero mul RA]; try (simpl T in *; ring). destruct H; contradiction.
Qed.

(* Cauchy-Schwarz for the averaged statistics is a kernel fact (KernelThms2.cauchy_schwarz_stats); here it is the hypothesis *)
Theorem coh_in_unit_interval e : 0 <= e_XX e -> 0 <= e_YY e -> cabs2 (e_XY e) <= e_XX e * e_YY e ->
  0 <= g_coh_csd RA FR e <= 1.
Proof.
  intros HX HY HCS.
  destruct (Req_dec (e_XX e) 0) as [E|E]; [rewrite coh_zero_case by (left; exact E); lra|].
  destruct (Req_dec (e_YY e) 0) as [E2|E2]; [rewrite coh_zero_case by (right; exact E2); lra|].
  rewrite coh_value by assumption.
  assert (0 < e_XX e * e_YY e) by (apply Rmult_lt_0_compat; lra).
  assert (0 <= cabs2 (e_XY e)) by (unfold cabs2; nra).
  split.
  - apply Rmult_le_pos; [assumption|]. left. apply Rinv_0_lt_compat. assumption.
  - apply Rmult_le_reg_r with (e_XX e * e_YY e); [assumption|]. unfold Rdiv. rewrite Rmult_assoc, Rinv_l by lra. lra.
Qed.

Theorem coherent_plus_residual e : g_GyyCx_csd RA FR e + g_GyyRx_csd RA FR e = g_Gyy_csd RA FR e.
Proof. unfold g_GyyCx_csd, g_GyyRx_csd. cbn [mul sub ofZ RA]. rring. Qed.

Definition swap_env (e : env_R) : env_R :=
  mkEnv RA (e_YY e) (e_XX e) (e_S2 e) (e_S12 e) (e_M2 e) (e_navg e) (e_fs e) (cconj RA (e_XY e)).
Theorem swap_channels e :
  g_coh_csd RA FR (swap_env e) = g_coh_csd RA FR e /\
  g_Gxy_csd RA FR (swap_env e) = g_Gyx_csd RA FR e /\
  g_Gxx_csd RA FR (swap_env e) = g_Gyy_csd RA FR e /\ g_Gyy_csd RA FR (swap_env e) = g_Gxx_csd RA FR e.
Proof.
  repeat split; try reflexivity.
  - unfold g_coh_csd, swap_env. cbn [e_XX e_YY e_XY]. rewrite (andb_comm (negb (eqb RA (e_YY e) (ofZ RA 0)))).
    destruct (negb (eqb RA (e_XX e) (ofZ RA 0)) && negb (eqb RA (e_YY e) (ofZ RA 0))); [|reflexivity].
    assert (Hc : cabs RA (sqrtT RA FR) (cconj RA (e_XY e)) = cabs RA (sqrtT RA FR) (e_XY e)).
    { unfold cabs, cconj. cbn [fst snd add mul opp RA]. f_equal. simpl T in *. ring. }
    rewrite Hc. cbn [mul RA]. simpl T in *. ring.
  - unfold g_Gyx_csd, g_Gxy_csd, swap_env. cbn [e_S2 e_XY e_fs].
    destruct (negb (eqb RA (e_S2 e) (ofZ RA 0))).
    + unfold cdivr, cscale, cconj. cbn [fst snd div mul opp ofZ RA]. f_equal. unfold Rdiv. rring.
    + unfold czero, cconj. cbn [fst snd zero opp RA]. f_equal. rring.
Qed.

(* single segment / linearly dependent channels: |XY|^2 = XX YY  =>  coherence 1 *)
Theorem coh_one e : e_XX e <> 0 -> e_YY e <> 0 -> cabs2 (e_XY e) = e_XX e * e_YY e -> g_coh_csd RA FR e = 1.
Proof. intros HX HY H. rewrite coh_value, H by assumption. rfield. split; assumption. Qed.

(* optimal-subtraction residual: GyySx = Gyy (1 - coh) *)
Theorem residual_formula e : 0 < e_XX e -> 0 < e_YY e -> 0 < e_S2 e -> 0 < e_fs e -> cabs2 (e_XY e) <= e_XX e * e_YY e ->
  g_GyySx_csd RA FR e = g_Gyy_csd RA FR e * (1 - g_coh_csd RA FR e).
Proof.
  intros HX HY HS Hf HCS. unfold g_GyySx_csd. cbn [sqrtT FR].
  rewrite coh_value by lra. rewrite Gyy_csd_value, Gxx_csd_value by lra.
  unfold g_Hyx_csd, g_Gyx_csd, g_Hxy_csd, g_Gxy_csd.
  assert (E1 : negb (eqb RA (e_XX e) (ofZ RA 0)) = true) by (apply neqb_true; cbn; lra).
  assert (E2 : negb (eqb RA (e_S2 e) (ofZ RA 0)) = true) by (apply neqb_true; cbn; lra).
  rewrite E1, E2. destruct (e_XY e) as [a b] eqn:EXY. unfold cabs2 in *. cbn [fst snd] in *.
  unfold cabs, csub, cadd, cmul, cscale, cdivr, cconj, ofR. cbn [fst snd add sub mul div opp zero ofZ RA].
  set (X := e_XX e) in *. set (Y := e_YY e) in *. set (S := e_S2 e) in *. set (f := e_fs e) in *.
  assert (Hfs : 0 < f * S) by (apply Rmult_lt_0_compat; assumption).
  match goal with |- sqrt (?P * ?P + ?I * ?I) = _ =>
    assert (HP : P = 2 * Y / (f * S) * (1 - (a * a + b * b) / (X * Y))) by (rfield; repeat split; lra);
    assert (HI : I = 0) by (rfield; repeat split; lra);
    rewrite HI, HP end.
  rewrite Rmult_0_l, Rplus_0_r.
  rewrite sqrt_square; [reflexivity|].
  apply Rmult_le_pos; [apply Rmult_le_pos; [lra|left; apply Rinv_0_lt_compat; assumption]|].
  assert (0 < X * Y) by (apply Rmult_lt_0_compat; assumption).
  assert ((a * a + b * b) / (X * Y) <= 1).
  { apply Rmult_le_reg_r with (X * Y); [assumption|]. unfold Rdiv. rewrite Rmult_assoc, Rinv_l by lra. lra. }
  lra.
Qed.

(* ------------------------------------------------------------ C11: empirical errors *)
Lemma emp_var_value e : 0 < e_navg e -> g_XY_emp_var_csd RA FR e = e_M2 e / e_navg e.
Proof.
  intros H. unfold g_XY_emp_var_csd. rewrite !n2n. cbn [ltb ofZ RA]. apply r_ltb_true in H. rewrite H. reflexivity.
Qed.
Lemma emp_dev_value e : 0 < e_navg e -> g_XY_emp_dev_csd RA FR e = sqrt (e_M2 e / e_navg e).
Proof.
  intros H. unfold g_XY_emp_dev_csd. rewrite !n2n. cbn [ltb ofZ RA sqrtT FR]. apply r_ltb_true in H. rewrite H. reflexivity.
Qed.
Lemma Gxy_emp_dev_value e : 0 < e_navg e -> 0 < e_S2 e ->
  g_Gxy_emp_dev_csd RA FR e = 2 / (e_fs e * e_S2 e) * sqrt (e_M2 e / e_navg e).
Proof.
  intros H HS. unfold g_Gxy_emp_dev_csd. rewrite !n2n. cbn [ltb ofZ RA sqrtT FR mul div].
  apply r_ltb_true in H, HS. rewrite H, HS. reflexivity.
Qed.
Lemma Gxx_emp_dev_value e : 0 < e_navg e -> 0 < e_S2 e ->
  g_Gxx_emp_dev_auto RA FR e = 2 / (e_fs e * e_S2 e) * sqrt (e_M2 e / e_navg e).
Proof.
  intros H HS. unfold g_Gxx_emp_dev_auto. rewrite !n2n. cbn [ltb ofZ RA sqrtT FR mul div].
  apply r_ltb_true in H, HS. rewrite H, HS. reflexivity.
Qed.
Lemma emp_var_auto_value e : 0 < e_navg e -> g_XY_emp_var_auto RA FR e = e_M2 e / e_navg e.
Proof.
  intros H. unfold g_XY_emp_var_auto. rewrite !n2n. cbn [ltb ofZ RA]. apply r_ltb_true in H. rewrite H. reflexivity.
Qed.
End AttrThms.
