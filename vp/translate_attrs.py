"""T2 — specialise-by-name partial evaluator over SpectrumResult.__getattr__ (speckit/analysis.py).
For every candidate attribute name and both modes (auto / cross) the body of __getattr__ is symbolically executed
with `name` and `self.iscsd` constant; conditions on them are decided, everything else becomes a per-bin expression
over the base statistics {XX YY S2 S12 M2 navg fs : real; XY : complex}. Output: coq/gen/AttrsGen.v (generic in the
carrier) + a python rendering of the same IR used to cross-check the translator's reading on real results.
Fail-closed: unknown syntax raises TranslateError."""
import ast, os, json, sys

class TranslateError(Exception):
    pass

REAL, CPX, NONE, BOOL = "real", "cpx", "none", "bool"
DATA_REAL = ["XX", "YY", "S2", "S12", "M2", "navg"]
DATA_KEYS = ["f", "r", "b", "L", "K", "navg", "D", "O", "i", "XX", "YY", "XY", "S12", "S2", "M2", "compute_t", "nf", "m"]


class N:
    """IR node"""
    def __init__(self, op, args=(), ty=REAL, val=None):
        self.op, self.args, self.ty, self.val = op, tuple(args), ty, val
    def key(self):
        return (self.op, self.val, tuple(a.key() for a in self.args))


def const(v):
    return N("const", (), REAL, float(v))


class Spec:
    def __init__(self, fn, name, iscsd, dir_names):
        self.fn, self.name, self.iscsd = fn, name, iscsd
        self.env = {}
        self.deps = set()
        self.dir_names = dir_names

    # ---- static evaluation of tests on name / iscsd
    def static(self, e):
        """Returns True/False if e is decidable from (name, iscsd), else None."""
        if isinstance(e, ast.Compare) and len(e.ops) == 1 and isinstance(e.left, ast.Name) and e.left.id == "name":
            c = e.comparators[0]
            if isinstance(e.ops[0], ast.Eq) and isinstance(c, ast.Constant):
                return self.name == c.value
            if isinstance(e.ops[0], ast.In):
                if isinstance(c, (ast.List, ast.Tuple)) and all(isinstance(x, ast.Constant) for x in c.elts):
                    return self.name in [x.value for x in c.elts]
                if ast.unparse(c) == "self._data":
                    return self.name in DATA_KEYS
                if ast.unparse(c) == "self._cache":
                    return False
            raise TranslateError("test on name: " + ast.unparse(e))
        if isinstance(e, ast.Call) and ast.unparse(e.func) in ("name.endswith", "name.startswith"):
            a = e.args[0]
            vals = [x.value for x in a.elts] if isinstance(a, ast.Tuple) else [a.value]
            f = self.name.endswith if e.func.attr == "endswith" else self.name.startswith
            return any(f(v) for v in vals)
        if ast.unparse(e) == "self.iscsd":
            return self.iscsd
        if isinstance(e, ast.UnaryOp) and isinstance(e.op, ast.Not):
            v = self.static(e.operand)
            return None if v is None else (not v)
        return None

    # ---- expressions
    def ex(self, e):
        if isinstance(e, ast.Constant):
            if e.value is None:
                return N("none", (), NONE)
            if isinstance(e.value, (int, float)) and not isinstance(e.value, bool):
                return const(e.value)
            raise TranslateError("constant " + repr(e.value))
        if isinstance(e, ast.Name):
            if e.id in self.env:
                return self.env[e.id]
            raise TranslateError("%s: unknown local %s" % (self.name, e.id))
        if isinstance(e, ast.Attribute) and isinstance(e.value, ast.Name) and e.value.id == "self":
            if e.attr == "fs":
                return N("fs")
            if e.attr == "iscsd":
                raise TranslateError("iscsd used as a value")
            self.deps.add(e.attr)
            t = self.fn.type_of(e.attr, self.iscsd)
            return N("attr", (), t, e.attr)
        if isinstance(e, ast.Subscript) and ast.unparse(e.value) == "self._data" and isinstance(e.slice, ast.Constant):
            k = e.slice.value
            if k in DATA_REAL:
                return N("var", (), REAL, k)
            if k == "XY":
                return N("var", (), CPX, k)
            raise TranslateError("data key " + k)
        if isinstance(e, ast.IfExp):
            s = self.static(e.test)
            if s is None:
                raise TranslateError("dynamic conditional expression " + ast.unparse(e.test))
            return self.ex(e.body if s else e.orelse)
        if isinstance(e, ast.UnaryOp) and isinstance(e.op, ast.USub):
            a = self.ex(e.operand)
            return N("neg", (a,), a.ty)
        if isinstance(e, ast.BinOp):
            if isinstance(e.op, ast.BitAnd):
                return N("and", (self.ex(e.left), self.ex(e.right)), BOOL)
            if isinstance(e.op, ast.Pow):
                if not (isinstance(e.right, ast.Constant) and e.right.value == 2):
                    raise TranslateError("power " + ast.unparse(e))
                a = self.ex(e.left)
                if a.ty != REAL:
                    raise TranslateError("square of non-real")
                return N("mul", (a, a), REAL)
            op = {ast.Add: "add", ast.Sub: "sub", ast.Mult: "mul", ast.Div: "div"}.get(type(e.op))
            if op is None:
                raise TranslateError("operator " + ast.unparse(e))
            a, b = self.ex(e.left), self.ex(e.right)
            if NONE in (a.ty, b.ty) or BOOL in (a.ty, b.ty):
                raise TranslateError("%s: arithmetic on None/bool in %s" % (self.name, ast.unparse(e)))
            return N(op, (a, b), CPX if CPX in (a.ty, b.ty) else REAL)
        if isinstance(e, ast.Compare) and len(e.ops) == 1:
            op = {ast.NotEq: "ne", ast.Gt: "gt"}.get(type(e.ops[0]))
            if op is None:
                raise TranslateError("comparison " + ast.unparse(e))
            return N(op, (self.ex(e.left), self.ex(e.comparators[0])), BOOL)
        if isinstance(e, ast.Call):
            f = ast.unparse(e.func)
            kw = {k.arg: k.value for k in e.keywords}
            if f == "np.divide":
                if set(kw) != {"out", "where"} or not ast.unparse(kw["out"]).startswith("np.zeros_like("):
                    raise TranslateError("np.divide form " + ast.unparse(e))
                a, b = self.ex(e.args[0]), self.ex(e.args[1])
                c = self.ex(kw["where"])
                ty = CPX if (CPX in (a.ty, b.ty) or "dtype=complex" in ast.unparse(kw["out"])) else REAL
                if b.ty == CPX:
                    raise TranslateError("division by complex")
                return N("where", (c, N("div", (a, b), ty), N("zero", (), ty)), ty)
            if f == "np.nan_to_num":
                if set(kw) - {"nan", "posinf", "neginf"} or any(ast.unparse(v) != "0.0" for v in kw.values()):
                    raise TranslateError("nan_to_num form")
                a = self.ex(e.args[0])
                return N("nan2num", (a,), a.ty)
            one = {"np.conj": ("conj", None), "np.abs": ("abs", REAL), "np.sqrt": ("sqrt", REAL), "np.arcsin": ("asin", REAL),
                   "np.rad2deg": ("rad2deg", REAL), "ct.mag2db": ("mag2db", REAL), "np.unwrap": ("unwrap", REAL), "np.ones_like": ("one", REAL)}
            if f in one and len(e.args) == 1 and not kw:
                a = self.ex(e.args[0])
                op, ty = one[f]
                if op == "one":
                    return const(1.0)
                if op == "sqrt" and a.ty != REAL:
                    raise TranslateError("sqrt of complex")
                return N(op, (a,), ty or a.ty)
            if f == "np.angle":
                a = self.ex(e.args[0])
                deg = "deg" in kw and ast.unparse(kw["deg"]) == "True"
                if set(kw) - {"deg"}:
                    raise TranslateError("np.angle kwargs")
                return N("angle_deg" if deg else "angle", (a,), REAL)
            raise TranslateError("%s: unsupported call %s" % (self.name, f))
        raise TranslateError("%s: unsupported expression %s" % (self.name, ast.unparse(e)[:80]))

    # ---- statements
    def run(self, stmts):
        """Returns 'raise' | ('val', IR) when a return is reached, else None."""
        for s in stmts:
            if isinstance(s, ast.Expr) and isinstance(s.value, ast.Constant):
                continue
            if isinstance(s, ast.If):
                st = self.static(s.test)
                if st is None:
                    raise TranslateError("%s: dynamic if %s" % (self.name, ast.unparse(s.test)[:60]))
                r = self.run(s.body if st else s.orelse)
                if r is not None:
                    return r
                continue
            if isinstance(s, ast.AnnAssign) and isinstance(s.target, ast.Name):
                self.env[s.target.id] = self.ex(s.value)
                continue
            if isinstance(s, ast.Assign) and len(s.targets) == 1:
                t = s.targets[0]
                if isinstance(t, ast.Name):
                    self.env[t.id] = self.ex(s.value)
                    continue
                if isinstance(t, ast.Tuple) and isinstance(s.value, ast.Tuple) and len(t.elts) == len(s.value.elts):
                    vals = [self.ex(v) for v in s.value.elts]
                    for n, v in zip(t.elts, vals):
                        self.env[n.id] = v
                    continue
                if ast.unparse(t) == "self._cache[name]":
                    continue
            if isinstance(s, ast.Return):
                u = ast.unparse(s.value)
                if u == "self._cache[name]":
                    return ("cached",)
                if u == "val":
                    return ("val", self.env["val"])
                raise TranslateError("return " + u)
            if isinstance(s, ast.Raise):
                return ("raise",)
            raise TranslateError("%s: unsupported statement %s" % (self.name, ast.unparse(s)[:80]))
        return None


class AttrTable:
    def __init__(self, repo):
        src = open(os.path.join(repo, "speckit", "analysis.py")).read()
        mod = ast.parse(src)
        cls = [n for n in mod.body if isinstance(n, ast.ClassDef) and n.name == "SpectrumResult"][0]
        self.getattr = [n for n in cls.body if isinstance(n, ast.FunctionDef) and n.name == "__getattr__"][0]
        d = [n for n in cls.body if isinstance(n, ast.FunctionDef) and n.name == "__dir__"][0]
        self.dir_names = []
        for n in ast.walk(d):
            if isinstance(n, ast.Assign) and ast.unparse(n.targets[0]) == "dynamic_attrs":
                self.dir_names = [x.value for x in n.value.elts]
        if not self.dir_names:
            raise TranslateError("__dir__: dynamic_attrs list not found")
        # every string constant compared with `name` is a candidate too
        cands = list(self.dir_names)
        for n in ast.walk(self.getattr):
            if isinstance(n, ast.Compare) and isinstance(n.left, ast.Name) and n.left.id == "name":
                c = n.comparators[0]
                items = c.elts if isinstance(c, (ast.List, ast.Tuple)) else ([c] if isinstance(c, ast.Constant) else [])
                for x in items:
                    if isinstance(x, ast.Constant) and isinstance(x.value, str) and x.value not in cands:
                        cands.append(x.value)
        self.names = cands
        self.table = {}
        self.inprogress = set()
        for iscsd in (False, True):
            for nm in self.names:
                self.resolve(nm, iscsd)

    def resolve(self, nm, iscsd):
        k = (nm, iscsd)
        if k in self.table:
            return self.table[k]
        if k in self.inprogress:
            raise TranslateError("cyclic attribute dependency at " + nm)
        self.inprogress.add(k)
        sp = Spec(self, nm, iscsd, self.dir_names)
        r = sp.run(self.getattr.body)
        if r is None or r[0] == "cached":
            raise TranslateError("%s: no value" % nm)
        self.inprogress.discard(k)
        self.table[k] = (r, sorted(sp.deps))
        return self.table[k]

    def type_of(self, nm, iscsd):
        if nm in DATA_KEYS:
            raise TranslateError("data passthrough used in arithmetic: " + nm)
        r, _ = self.resolve(nm, iscsd)
        if r[0] == "raise":
            raise TranslateError("dependency raises: " + nm)
        return r[1].ty


# ----------------------------------------------------------------------------- printers
def coq_expr(n, mode):
    a = [coq_expr(x, mode) for x in n.args]
    t = n.ty
    if n.op == "const":
        v = n.val
        if v == int(v):
            return "(ofZ A %d)" % int(v)
        raise TranslateError("non-integral constant %r" % v)
    if n.op == "var":
        return "(e_%s e)" % n.val
    if n.op == "fs":
        return "(e_fs e)"
    if n.op == "attr":
        return "(g_%s_%s A F e)" % (n.val, mode)
    if n.op == "zero":
        return "(czero A)" if t == CPX else "(zero A)"
    if n.op in ("add", "sub", "mul", "div"):
        x, y = n.args
        if t == REAL:
            return "(%s A %s %s)" % (n.op, a[0], a[1])
        if x.ty == CPX and y.ty == CPX:
            if n.op == "div":
                raise TranslateError("complex/complex division")
            return "(c%s A %s %s)" % (n.op, a[0], a[1])
        if x.ty == CPX:   # complex op real
            return {"mul": "(cscale A %s %s)" % (a[1], a[0]), "div": "(cdivr A %s %s)" % (a[0], a[1]),
                    "add": "(cadd A %s (ofR A %s))" % (a[0], a[1]), "sub": "(csub A %s (ofR A %s))" % (a[0], a[1])}[n.op]
        return {"mul": "(cscale A %s %s)" % (a[0], a[1]), "add": "(cadd A (ofR A %s) %s)" % (a[0], a[1]),
                "sub": "(csub A (ofR A %s) %s)" % (a[0], a[1]), "div": None}[n.op] or (_ for _ in ()).throw(TranslateError("real/complex division"))
    if n.op == "neg":
        return "(opp A %s)" % a[0] if t == REAL else "(cscale A (opp A (one A)) %s)" % a[0]
    if n.op == "where":
        return "(if %s then %s else %s)" % (a[0], a[1], a[2])
    if n.op == "ne":
        return "(negb (eqb A %s %s))" % (a[0], a[1])
    if n.op == "gt":
        return "(ltb A %s %s)" % (a[1], a[0])
    if n.op == "and":
        return "(andb %s %s)" % (a[0], a[1])
    if n.op == "nan2num":
        return "(nan2num A %s)" % a[0] if t == REAL else "(cnan2num A %s)" % a[0]
    if n.op == "conj":
        return "(cconj A %s)" % a[0] if t == CPX else a[0]
    if n.op == "abs":
        return "(cabs A (sqrtT A F) %s)" % a[0] if n.args[0].ty == CPX else "(rabs A %s)" % a[0]
    if n.op == "sqrt":
        return "(sqrtT A F %s)" % a[0]
    if n.op == "asin":
        return "(asinT A F %s)" % a[0]
    if n.op == "rad2deg":
        return "(rad2degT A F %s)" % a[0]
    if n.op == "mag2db":
        return "(mag2dbT A F %s)" % a[0]
    if n.op == "angle":
        return "(angleT A F %s)" % a[0]
    if n.op == "angle_deg":
        return "(rad2degT A F (angleT A F %s))" % a[0]
    if n.op == "unwrap":
        return "(unwrapT A F %s)" % a[0]
    raise TranslateError("printer: " + n.op)


def py_expr(n):
    a = [py_expr(x) for x in n.args]
    if n.op == "const":
        return repr(n.val)
    if n.op == "var":
        return "e['%s']" % n.val
    if n.op == "fs":
        return "e['fs']"
    if n.op == "attr":
        return "g['%s'](e)" % n.val
    if n.op == "zero":
        return "0.0" if n.ty == REAL else "0j"
    if n.op in ("add", "sub", "mul", "div"):
        return "(%s %s %s)" % (a[0], {"add": "+", "sub": "-", "mul": "*", "div": "/"}[n.op], a[1])
    if n.op == "neg":
        return "(-%s)" % a[0]
    if n.op == "where":
        return "(%s if %s else %s)" % (a[1], a[0], a[2])
    if n.op == "ne":
        return "(%s != %s)" % (a[0], a[1])
    if n.op == "gt":
        return "(%s > %s)" % (a[0], a[1])
    if n.op == "and":
        return "(%s and %s)" % (a[0], a[1])
    if n.op == "nan2num":
        return "_n2n(%s)" % a[0]
    if n.op == "conj":
        return "np.conj(%s)" % a[0]
    if n.op == "abs":
        return "np.abs(%s)" % a[0]
    if n.op == "sqrt":
        return "np.sqrt(%s)" % a[0]
    if n.op == "asin":
        return "np.arcsin(%s)" % a[0]
    if n.op == "rad2deg":
        return "np.rad2deg(%s)" % a[0]
    if n.op == "mag2db":
        return "(20.0*np.log10(%s))" % a[0]
    if n.op == "angle":
        return "np.angle(%s)" % a[0]
    if n.op == "angle_deg":
        return "np.angle(%s, deg=True)" % a[0]
    if n.op == "unwrap":
        return "_UNWRAP"
    raise TranslateError("py printer: " + n.op)


PRELUDE = '''(* GENERATED by vp/translate_attrs.py from SpectrumResult.__getattr__ (speckit/analysis.py) — do not edit. *)
From Coq Require Import ZArith List Bool String.
From SK Require Import Arith Cpx.
Import ListNotations.
Open Scope string_scope.

(* external functions (np.sqrt, np.arcsin, np.rad2deg, control.mag2db, np.angle, np.unwrap) *)
Record fns (A : Arith) := mkFns { sqrtT : T A -> T A; asinT : T A -> T A; rad2degT : T A -> T A; mag2dbT : T A -> T A;
                                  angleT : T A * T A -> T A; unwrapT : T A -> T A }.
Record env (A : Arith) := mkEnv { e_XX : T A; e_YY : T A; e_S2 : T A; e_S12 : T A; e_M2 : T A; e_navg : T A; e_fs : T A; e_XY : T A * T A }.
Arguments e_XX {A}. Arguments e_YY {A}. Arguments e_S2 {A}. Arguments e_S12 {A}. Arguments e_M2 {A}. Arguments e_navg {A}. Arguments e_fs {A}. Arguments e_XY {A}.

'''


def generate(repo):
    tb = AttrTable(repo)
    defs, order, seen = [], [], set()
    def visit(k):
        if k in seen:
            return
        seen.add(k)
        r, deps = tb.table[k]
        for d in deps:
            visit((d, k[1]))
        order.append(k)
    for k in tb.table:
        visit(k)
    none_tbl, raise_tbl, pass_tbl, pyl = [], [], [], []
    meta = {}
    for (nm, iscsd) in order:
        r, deps = tb.table[(nm, iscsd)]
        mode = "csd" if iscsd else "auto"
        if r[0] == "raise":
            raise_tbl.append((nm, iscsd)); meta["%s/%s" % (nm, mode)] = "raise"; continue
        ir = r[1]
        if ir.ty == NONE:
            none_tbl.append((nm, iscsd)); meta["%s/%s" % (nm, mode)] = "none"; continue
        if nm in DATA_KEYS:
            pass_tbl.append((nm, iscsd)); continue
        ty = "T A * T A" if ir.ty == CPX else "T A"
        defs.append("Definition g_%s_%s (A : Arith) (F : fns A) (e : env A) : %s := %s." % (nm, mode, ty, coq_expr(ir, mode)))
        pyl.append((nm, iscsd, py_expr(ir), ir.ty))
        meta["%s/%s" % (nm, mode)] = ir.ty
    text = PRELUDE + "\n".join(defs) + "\n\n"
    text += "Definition none_table : list (string * bool) := [%s].\n" % "; ".join('("%s", %s)' % (n, "true" if c else "false") for n, c in none_tbl)
    text += "Definition defined_table : list (string * bool) := [%s].\n" % "; ".join('("%s", %s)' % (n, "true" if c else "false") for (n, c, _, _) in pyl)
    
    py = "import numpy as np\ndef _n2n(x):\n    return np.nan_to_num(x, nan=0.0, posinf=0.0, neginf=0.0)\n"
    py += "AUTO = {}\nCSD = {}\n"
    for nm, iscsd, ex, ty in pyl:
        py += "%s['%s'] = lambda e, g=%s: %s\n" % ("CSD" if iscsd else "AUTO", nm, "CSD" if iscsd else "AUTO", ex)
    py += "NONE = %r\nNAMES = %r\n" % (sorted(none_tbl), tb.names)
    return text, py, dict(meta=meta, names=tb.names, dir_names=tb.dir_names)


def regen():
    from . import common
    p = os.path.join(common.COQ, "gen", "AttrsGen.v")
    try:
        text, py, meta = generate(common.REPO)
    except Exception as e:
        common.write_if_changed(p, "(* translation failed: %s *)\nDefinition translation_failed : False := I.\n" % str(e).replace("*)", "* )"))
        return dict(ok=False, error="%s: %s" % (type(e).__name__, e))
    common.write_if_changed(p, text)
    common.write_if_changed(os.path.join(common.COQ, "gen", "attrs_ir.py"), py)
    common.write_if_changed(os.path.join(common.COQ, "gen", "attrs_meta.json"), json.dumps(meta, indent=1))
    return dict(ok=True, error=None, meta=meta)


if __name__ == "__main__":
    t, py, meta = generate(sys.argv[1] if len(sys.argv) > 1 else "/repo")
    print(t)
