import math
from fractions import Fraction
import numpy as np
from .. import common
from ..common import fhex


def textbook(h, d):
    """Exact Lagrange weights on nodes -(h-1)..h evaluated at d (Fractions)."""
    nodes = list(range(-(h - 1), h + 1))
    out = []
    for k in nodes:
        w = Fraction(1)
        for m in nodes:
            if m != k:
                w *= (d - m) / Fraction(k - m)
        out.append(w)
    return out


def correspondence(ck):
    from speckit.dsp import lagrange_taps, timeshift
    hs = [1, 2, 3, 4, 8, 16, 31, 56] if ck.tier == "quick" else [1, 2, 3, 4, 5, 8, 11, 16, 24, 31, 40, 56]
    terms, exp = [], []
    for h in hs:
        for _ in range(3):
            d = ck.rng.choice([ck.rng.random(), 0.0, 0.5, 1 - 2.0 ** -20, 2.0 ** -30])
            impl = lagrange_taps(np.array([d]), h)[0]
            terms.append("Eval vm_compute in (taps FloatA %d %s)." % (h, fhex(d))); exp.append(("taps", h, d, impl))
    # constant-shift path on short records (edge hold, valid correlation)
    for _ in range(6 if ck.tier == "quick" else 40):
        n = ck.rng.choice([2, 5, 17, 40]); order = ck.rng.choice([1, 3, 5, 7, 31]); h = (order + 1) // 2
        s = ck.rng.choice([ck.rng.uniform(-3, 3), 2.0, -1.0, ck.rng.uniform(-n - h - 3, n + h + 3), 0.25])
        data = np.array([ck.rng.uniform(-1, 1) for _ in range(n)])
        impl = np.asarray(timeshift(data, np.array(s), order=order))
        i_min = math.floor(s) - (h - 1); i_max = math.floor(s) + h + n
        if s == 0 or i_max - 1 < 0 or i_min > n - 1:
            continue   # early-return branches are covered by the direct oracle
        terms.append("Eval vm_compute in (timeshift_const FloatA %s %s %d)." % ("[" + "; ".join(fhex(v) for v in data) + "]", fhex(s), h)); exp.append(("shift", h, s, impl))
    # time-varying path (clip, zero padding, sliding window, einsum) on short records with per-sample shifts
    for _ in range(6 if ck.tier == "quick" else 40):
        n = ck.rng.choice([3, 6, 17, 40]); order = ck.rng.choice([1, 3, 5, 7, 31]); h = (order + 1) // 2
        kind = ck.rng.choice(["small", "mixed", "far"])
        if kind == "small":
            sh = [ck.rng.uniform(-2, 2) for _ in range(n)]
        elif kind == "mixed":
            sh = [ck.rng.choice([0.0, 1.0, -2.0, 0.5, ck.rng.uniform(-3, 3)]) for _ in range(n)]
        else:
            sh = [ck.rng.uniform(-n - h - 4, n + h + 4) for _ in range(n)]
        if all(v == 0 for v in sh):
            sh[0] = 0.25
        data = np.array([ck.rng.uniform(-1, 1) for _ in range(n)])
        impl = np.asarray(timeshift(data, np.array(sh), order=order))
        lst = lambda a: "[" + "; ".join(fhex(float(v)) for v in a) + "]"
        terms.append("Eval vm_compute in (timeshift_var FloatA %s %s %d)." % (lst(data), lst(sh), h)); exp.append(("vshift", h, kind, impl))
    body = "From Coq Require Import ZArith List PrimFloat.\nFrom SK Require Import Arith Lagrange.\nImport ListNotations.\nOpen Scope float_scope.\n" + "\n".join(terms) + "\n"
    res = common.run_case_files({"lag_%d" % __import__("os").getpid(): body})
    rc, out = list(res.values())[0]
    evs = common.parse_evals(out)
    bad = []
    if rc != 0 or len(evs) != len(exp):
        bad.append("coq evaluation failed: " + out[-300:])
    else:
        for ev, (kind, h, d, impl) in zip(evs, exp):
            m = np.array([float(t) for t in common.tokens(ev)])
            if kind == "taps":
                if len(m) != len(impl) or not np.array_equal(m, impl):
                    bad.append("taps halfp=%d d=%r: implementation %r..., model %r..." % (h, d, list(impl[:2]), list(m[:2])))
            else:
                if len(m) != len(impl) or np.max(np.abs(m - impl)) > 1e-11 * (1 + np.max(np.abs(impl))):
                    bad.append("timeshift halfp=%d s=%r: implementation and model differ by %g" % (h, d, float(np.max(np.abs(m - impl))) if len(m) == len(impl) else -1))
    ck.obligation("correspondence:lagrange_taps == Lagrange.taps at binary64 (bit-exact); constant-shift timeshift == timeshift_const, time-varying timeshift == timeshift_var (1e-11)", not bad, "; ".join(bad[:3]))
    ck.cov["correspondence_cases"] = len(exp)
    # exact rationals: model at QA vs the textbook product, 2h+1 fractions per order (a degree-(2h-1) identity is fixed by 2h points)
    hs2 = [1, 2, 3, 5, 8, 16] if ck.tier == "quick" else [1, 2, 3, 4, 5, 8, 12, 16, 20]
    t2, e2 = [], []
    for h in hs2:
        for i in range(2 * h + 1):
            d = Fraction(2 * i + 1, 4 * h + 4)
            t2.append("Eval vm_compute in (qs (taps QA %d (%d # %d))%%Q)." % (h, d.numerator, d.denominator)); e2.append((h, d))
    files = {}
    for s in range(0, len(t2), 40):
        files["lagq_%d_%d" % (__import__("os").getpid(), s)] = "From Coq Require Import ZArith QArith List.\nFrom SK Require Import Arith Lagrange KernRun.\nImport ListNotations.\n" + "\n".join(t2[s:s + 40]) + "\n"
    res = common.run_case_files(files)
    evs = []
    for k in sorted(files, key=lambda x: int(x.rsplit("_", 1)[1])):
        evs += common.parse_evals(res[k][1])
    bad2 = []
    if len(evs) != len(e2):
        bad2.append("expected %d evaluations, got %d: %s" % (len(e2), len(evs), list(res.values())[0][1][-200:]))
    else:
        for ev, (h, d) in zip(evs, e2):
            t = [int(x) for x in common.tokens(ev)]
            vals = [Fraction(t[i], t[i + 1]) for i in range(0, len(t), 2)]
            if vals != textbook(h, d):
                bad2.append("halfp=%d d=%s: exact model taps differ from the textbook Lagrange weights" % (h, d))
            elif sum(vals) != 1:
                bad2.append("halfp=%d d=%s: taps do not sum to one" % (h, d))
    ck.obligation("test:exact-rational model taps == textbook Lagrange product and sum to one (%d (order, fraction) points)" % len(e2), not bad2, "; ".join(bad2[:3]))


def oracle(ck):
    import pandas as pd
    from speckit.dsp import lagrange_taps, timeshift, df_timeshift
    n = 40 if ck.tier == "quick" else 600
    for _ in range(n):
        order = ck.rng.choice([1, 3, 5, 7, 9, 31, 61, 111]); h = (order + 1) // 2
        N = ck.rng.choice([max(4, 2 * h + 4), 200, 300])
        s = ck.rng.choice([ck.rng.uniform(-4, 4), float(ck.rng.randint(-5, 5)), ck.rng.uniform(-0.999, 0.999), ck.rng.uniform(-N, N) * 1.5, 0.0])
        inp = dict(order=order, N=N, shift=s)
        # taps: textbook weights, sum to one
        d = s - math.floor(s)
        tp = lagrange_taps(np.array([d]), h)[0]
        tb = [float(v) for v in textbook(h, Fraction(d))]
        if np.max(np.abs(tp - np.array(tb))) > 1e-9 * max(1.0, np.max(np.abs(tb))):
            ck.violation("lagrange_taps(order=%d, frac=%r) differ from the textbook Lagrange weights by %g" % (order, d, float(np.max(np.abs(tp - np.array(tb))))), inp, tag="taps")
        if abs(float(np.sum(tp)) - 1) > 1e-9 * max(1.0, float(np.sum(np.abs(tp)))):
            ck.violation("taps of order %d at frac %r sum to %r" % (order, d, float(np.sum(tp))), inp, tag="sum")
        # polynomial exactness at interior samples (degree <= min(order, 5) to keep conditioning sane)
        deg = min(order, ck.rng.choice([0, 1, 2, 3, 5]))
        c = [ck.rng.uniform(-1, 1) for _ in range(deg + 1)]
        t = np.arange(N, dtype=float)
        p = lambda u: sum(ck_ * ((u - N / 2) / N) ** k for k, ck_ in enumerate(c))
        x = p(t)
        y = np.asarray(timeshift(x, np.array(s), order=order))
        si = math.floor(s)
        lo = max(0, (h - 1) - si); hi = min(N, N - h - si)
        if s != 0 and hi - lo > 2:
            idx = np.arange(lo, hi)
            err = np.max(np.abs(y[idx] - p(idx + s)))
            if err > 1e-8 * float(np.sum(np.abs(tp))):
                ck.violation("order %d shift %r: a degree-%d polynomial is not reproduced at interior samples (error %g)" % (order, s, deg, float(err)), inp, tag="poly")
        # integer shift: pure displacement with the end values held; zero shift: identity
        xr = np.array([ck.rng.uniform(-1, 1) for _ in range(N)])
        k = ck.rng.randint(-N - 3, N + 3)
        yk = np.asarray(timeshift(xr, np.array(float(k)), order=order))
        expk = xr[np.clip(np.arange(N) + k, 0, N - 1)]
        if k != 0 and np.max(np.abs(yk - expk)) > 1e-12:
            ck.violation("integer shift %d with order %d is not a pure displacement with held end values (error %g)" % (k, order, float(np.max(np.abs(yk - expk)))), dict(inp, k=k), tag="integer")
        if not np.array_equal(np.asarray(timeshift(xr, np.array(0.0), order=order)), xr):
            ck.violation("zero shift is not the identity", inp, tag="zero")
        # constant-shift and per-sample paths agree where both stencils are interior
        if s != 0 and hi - lo > 2 and abs(s) < N / 4:
            yv = np.asarray(timeshift(xr, np.full(N, s), order=order)); yc = np.asarray(timeshift(xr, np.array(s), order=order))
            idx = np.arange(lo + 1, hi - 1)
            if len(idx) and np.max(np.abs(yv[idx] - yc[idx])) > 1e-10 * float(np.sum(np.abs(tp))):
                ck.violation("constant-shift and time-varying-shift paths disagree at interior samples by %g (order %d, shift %r)" % (float(np.max(np.abs(yv[idx] - yc[idx]))), order, s), inp, tag="paths")
            # genuinely time-varying shifts: each sample is the interpolation at n + s[n]
            sv = np.array([ck.rng.uniform(-2, 2) for _ in range(N)])
            xs = p(t); yv2 = np.asarray(timeshift(xs, sv, order=order))
            idx2 = np.arange(h + 3, N - h - 3)
            if len(idx2) and np.max(np.abs(yv2[idx2] - p(idx2 + sv[idx2]))) > 1e-8 * float(np.sum(np.abs(tp))) * 5:
                ck.violation("time-varying shift does not interpolate a degree-%d polynomial at interior samples (order %d)" % (deg, order), inp, tag="varying")
    # per-sample shifts that differ only slightly from each other: every sample still uses its OWN fractional delay
    for order, drift in ((3, 4e-6), (3, 5e-7), (5, 4e-6), (31, 1e-6), (31, 1.2e-5)):
        h = (order + 1) // 2; N = 200
        sv = 2.5 + drift * np.arange(N) / N
        xr = np.array([ck.rng.uniform(-1, 1) for _ in range(N)])
        yv = np.asarray(timeshift(xr, sv, order=order))
        idx = np.arange(h + 4, N - h - 4)
        ref = np.array([np.asarray(timeshift(xr, np.array(float(sv[i])), order=order))[i] for i in idx])
        if np.max(np.abs(yv[idx] - ref)) > 1e-11 * (1 + np.max(np.abs(ref))):
            ck.violation("time-varying shifts 2.5 + tiny drift: sample-wise result differs from the constant-shift path called per sample by %g (order %d)" % (float(np.max(np.abs(yv[idx] - ref))), order),
                         dict(order=order, shifts="2.5 + %g*n/N" % drift), tag="drift")
    # DataFrame wrapper on frames whose index is not 0..N-1 (after truncation, time-stamped): positional, not label, assignment
    base = pd.DataFrame({"a": np.sin(np.arange(120) / 5.0)})
    for lab, frame in (("sliced", base.iloc[20:100]), ("time index", base.set_index(pd.Index(np.arange(120) * 0.25 + 1000.0)))):
        o = df_timeshift(frame, 4.0, 0.625, columns=["a"])
        exp = np.asarray(timeshift(frame["a"].to_numpy(), 0.625 * 4.0))
        got = o["a_shifted"].to_numpy()
        if len(got) != len(exp) or not np.allclose(got, exp, atol=1e-14, equal_nan=False):
            ck.violation("df_timeshift on a %s frame does not return timeshift(column) row by row" % lab, dict(frame=lab), tag="df-index")
    # a long record with one huge glitch: the output at a sample depends on its own stencil only (exact displacement for integer shifts,
    # untouched far from the glitch for fractional ones), whatever the record length
    for Nl in (70000, 140001):
        gl = np.random.default_rng(ck.rng.randint(0, 2 ** 31))
        xl = gl.standard_normal(Nl); gpos = Nl // 2 + 1234; xl[gpos] = 1e12
        yi = np.asarray(timeshift(xl, np.array(7.0), order=31))
        if not np.array_equal(yi[100:-100], xl[107:Nl - 93]):
            ck.violation("integer shift of a %d-sample record is not an exact displacement (max deviation %g away from the ends)" % (Nl, float(np.max(np.abs(yi[100:-100] - xl[107:Nl - 93])))), dict(N=Nl, shift=7.0, order=31), tag="long-record")
        yf = np.asarray(timeshift(xl, np.array(2.37), order=31))
        far = np.arange(1000, 3000)
        loc = np.asarray(timeshift(xl[:6000].copy(), np.array(2.37), order=31))[far]
        if np.max(np.abs(yf[far] - loc)) > 1e-12:
            ck.violation("fractional shift of a %d-sample record: samples 1000..3000 differ by %g from the same shift applied to the first 6000 samples alone (a glitch at sample %d leaks everywhere)" % (Nl, float(np.max(np.abs(yf[far] - loc))), gpos), dict(N=Nl, shift=2.37, order=31), tag="long-record")
    # shifts whose fractional part rounds to exactly 1 (negative and smaller than an ulp): the record itself, not a one-sample displacement
    for order in (1, 3, 31, 111):
        h = (order + 1) // 2; Nn = 2 * h + 60
        xr = np.array([ck.rng.uniform(-1, 1) for _ in range(Nn)])
        for tiny in (-1e-17, -1e-300, -5e-324):
            idx = np.arange(h + 2, Nn - h - 2)
            yc = np.asarray(timeshift(xr, np.array(tiny), order=order))
            sv = np.zeros(Nn); sv[::3] = tiny; sv[1] = 0.25
            yv = np.asarray(timeshift(xr, sv, order=order))
            sel = idx[sv[idx] != 0.25]
            if np.max(np.abs(yc[idx] - xr[idx])) > 1e-9 or np.max(np.abs(yv[sel] - xr[sel])) > 1e-9:
                ck.violation("shift %r (order %d) does not return the record itself at interior samples (error %g constant path, %g per-sample path)" % (tiny, order, float(np.max(np.abs(yc[idx] - xr[idx]))), float(np.max(np.abs(yv[sel] - xr[sel])))),
                             dict(order=order, shift=tiny), tag="tiny-negative")
                break
    # records that are not float64 (ADC counts, float32): both paths still return the interpolated (float) values
    for order in (1, 3, 7, 31):
        h = (order + 1) // 2; N = 120
        base_int = (np.arange(N) - N // 2) ** 2 if order >= 3 else 3 * np.arange(N) - 50          # integer quadratic / ramp
        sfr = ck.rng.choice([0.5, 0.25, -1.75, 2.5])
        exact = ((np.arange(N) + sfr - N // 2) ** 2) if order >= 3 else (3 * (np.arange(N) + sfr) - 50)
        idx = np.arange(h + 3, N - h - 3)
        for lab, rec in (("int64", base_int.astype(np.int64)), ("int32", base_int.astype(np.int32)), ("float32", base_int.astype(np.float32)), ("list of ints", [int(v) for v in base_int])):
            for path, sh in (("constant", np.array(sfr)), ("time-varying", np.full(N, sfr)), ("time-varying", sfr + 0.25 * np.sin(np.arange(N) / 9.0))):
                got = np.asarray(timeshift(rec, sh, order=order), float)
                want = exact if np.ndim(sh) == 0 or np.all(sh == sfr) else (((np.arange(N) + sh - N // 2) ** 2) if order >= 3 else (3 * (np.arange(N) + sh) - 50))
                if np.max(np.abs(got[idx] - want[idx])) > 1e-7 * (1 + np.max(np.abs(want))):
                    ck.violation("%s path on a %s record (order %d): a polynomial of degree <= order is not reproduced at interior samples (error %g)" % (path, lab, order, float(np.max(np.abs(got[idx] - want[idx])))),
                                 dict(order=order, dtype=lab, path=path, shift=sfr), tag="dtype")
    # DataFrame wrapper applied again to its own output, and with a column named twice: every output column is timeshift(input column)
    dfa = pd.DataFrame({"x": np.sin(np.arange(90) / 6.0), "y": np.cos(np.arange(90) / 4.0)})
    o1 = df_timeshift(dfa, 4.0, 0.375)
    o2 = df_timeshift(o1, 4.0, 0.8)
    for c in o1.columns:
        exp = np.asarray(timeshift(o1[c].to_numpy(), 0.8 * 4.0))
        if (c + "_shifted") not in o2 or not np.allclose(o2[c + "_shifted"].to_numpy(), exp, atol=1e-13):
            ck.violation("df_timeshift applied to its own output: column %s_shifted is not timeshift(input column %s)" % (c, c), dict(case="second pass", column=c), tag="df-second")
    o3 = df_timeshift(dfa, 4.0, 0.375, columns=["x", "x"], inplace=True)
    if not np.allclose(o3["x"].to_numpy(), np.asarray(timeshift(dfa["x"].to_numpy(), 0.375 * 4.0)), atol=1e-13) or not np.array_equal(o3["y"].to_numpy(), dfa["y"].to_numpy()):
        ck.violation("df_timeshift(inplace=True) with a column named twice does not shift it by seconds*fs samples once", dict(case="duplicate column"), tag="df-second")
    # DataFrame wrapper: seconds*fs samples, selected numeric columns only
    df = pd.DataFrame({"a": np.sin(np.arange(100) / 7.0), "b": np.arange(100.0), "s": ["x"] * 100})
    fs, sec = 4.0, 0.625
    out = df_timeshift(df, fs, sec, columns=["a", "s"])
    ok = "a_shifted" in out and "b_shifted" not in out and "s_shifted" not in out and np.allclose(out["a_shifted"].to_numpy(), np.asarray(timeshift(df["a"].to_numpy(), sec * fs)), atol=1e-14) and np.array_equal(out["a"].to_numpy(), df["a"].to_numpy())
    if not ok:
        ck.violation("df_timeshift does not apply seconds*fs samples to the selected numeric columns only", dict(fs=fs, seconds=sec), tag="df")
    ck.cov["oracle_cases"] = n


def run(ck):
    ck.build_theorems("Properties/C16.v", deps=["Lagrange.vo", "LagrangeAll.vo", "LagrangeShift.vo", "KernRun.vo"])
    correspondence(ck)
    oracle(ck)
    ck.cov["rule"] = "orders {1..111}, shifts {fractional, integer, larger than the record, zero}, polynomial records, per-sample shift vectors; taps bit-exact vs model; exact-rational model vs textbook product"
    ck.samples = [dict(order=31, shift=2.37), dict(order=111, shift=-0.5)]
    ck.assumptions += ["np.correlate / einsum summation order (outputs compared within 1e-11)"]


def replay(rec):
    print("replay input:", rec["violation"]["input"]); return 1
