from .. import sched
from .sched_common import run_sched_property, replay_sched


def run(ck):
    run_sched_property(ck, "C02", sched.oracle_c02, "Properties/C02.v", 120, 700, analyzer=True)


def replay(rec):
    return replay_sched(rec, sched.oracle_c02)
