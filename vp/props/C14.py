import copy, random
import numpy as np
from .. import common, regen, kernels as K, attrs

EXPECT_WRITES = [["xx", "j"], ["yy", "j"], ["xyr", "j"], ["xyi", "j"]]


def same(a, b):
    if a is None or b is None:
        return a is None and b is None
    if isinstance(a, (list, tuple)) or isinstance(b, (list, tuple)) or getattr(a, "dtype", None) == object or getattr(b, "dtype", None) == object:
        return len(a) == len(b) and all(np.array_equal(np.asarray(p), np.asarray(q)) for p, q in zip(a, b))
    a = np.asarray(a); b = np.asarray(b)
    if a.dtype == object or b.dtype == object:
        return len(a) == len(b) and all(np.array_equal(np.asarray(p), np.asarray(q)) for p, q in zip(a, b))
    return a.shape == b.shape and np.array_equal(a, b, equal_nan=True)


def thread_sweep(ck):
    import numba
    ncpu = numba.config.NUMBA_NUM_THREADS
    counts = sorted(set([1, 2, 3, max(1, ncpu // 2), ncpu]))
    chunks = [0, 1, 7] if hasattr(numba, "set_parallel_chunksize") else [0]
    n = 12 if ck.tier == "quick" else 80
    runs = 0
    for _ in range(n):
        case = K.gen_case(ck.rng, small=False)
        Kn = ck.rng.choice([17, 64, 257])
        N = max(case["N"], 4 * case["L"] + 50)
        g = np.random.default_rng(ck.rng.randint(0, 2 ** 31))
        case["x"] = g.standard_normal(N); case["y"] = g.standard_normal(N); case["N"] = N
        case["starts"] = [int(v) for v in g.integers(0, N - case["L"] + 1, size=Kn)]
        Q = K.build_Q(case)
        for cross in (False, True):
            ref = None
            for t in counts:
                for ch in chunks:
                    numba.set_num_threads(t)
                    if ch and hasattr(numba, "set_parallel_chunksize"):
                        numba.set_parallel_chunksize(ch)
                    try:
                        r, _ = K.run_impl("numba", case, cross, Q)
                    finally:
                        if hasattr(numba, "set_parallel_chunksize"):
                            numba.set_parallel_chunksize(0)
                    runs += 1
                    if ref is None:
                        ref = r
                    elif r != ref:
                        ck.violation("kernel result depends on the thread configuration: %r with %d threads/chunk %d vs %r" % (r, t, ch, ref),
                                     dict(L=case["L"], K=Kn, order=case["order"], cross=cross, threads=t, chunk=ch, omega=case["omega"]), tag="threads")
            numba.set_num_threads(ncpu)
    ck.cov["thread_sweep_runs"] = runs
    ck.cov["thread_counts"] = counts


def analyzer_thread_sweep(ck):
    """Whole analyses (default backend selection) under different worker-thread counts: bit-identical statistics in every bin,
    including the bins averaged over fewer segments than there are threads."""
    import numba
    from speckit.analysis import SpectrumAnalyzer
    ncpu = numba.config.NUMBA_NUM_THREADS
    counts = sorted(set([1, 2, 3, ncpu]))
    runs = 0
    try:
        for it in range(2 if ck.tier == "quick" else 10):
            N = ck.rng.choice([3000, 6000])
            g = np.random.default_rng(ck.rng.randint(0, 2 ** 31))
            x = g.standard_normal(N) + 0.5; y = 0.3 * x + g.standard_normal(N)
            for cross in (False, True):
                kw = dict(Jdes=20, Kdes=6, order=ck.rng.choice([0, 1]), win="hann", olap=0.5)       # backend left to the library ('auto')
                ref = None
                for t in counts:
                    numba.set_num_threads(t)
                    with np.errstate(all="ignore"):
                        r = SpectrumAnalyzer(np.vstack([x, y]) if cross else x, 10.0, **kw).compute(); runs += 1
                    v = {k: np.array(r._data[k], copy=True) for k in ("XX", "YY", "XY", "M2")}
                    if ref is None:
                        ref = v
                    else:
                        badk = [k for k in v if not np.array_equal(v[k], ref[k], equal_nan=True)]
                        if badk:
                            jb = int(np.nonzero(v[badk[0]] != ref[badk[0]])[0][0])
                            ck.violation("the same analysis gives different %s with %d worker threads than with %d (bin %d, K=%d: %r vs %r)" %
                                         (badk, t, counts[0], jb, int(r._data["K"][jb]), v[badk[0]][jb], ref[badk[0]][jb]),
                                         dict(N=N, cross=cross, kw=kw, threads=t), tag="threads-analyzer")
                            break
    finally:
        numba.set_num_threads(ncpu)
    ck.cov["analyzer_thread_runs"] = runs


def forced_plan_history(ck):
    """force_target_nf: repeated plan() / compute() / single-bin calls on one analyzer keep the plan (same object values, same bin count)."""
    from speckit.analysis import SpectrumAnalyzer
    for cross in (False, True):
        g = np.random.default_rng(ck.rng.randint(0, 2 ** 31))
        N = 4000
        x = g.standard_normal(N); y = 0.5 * x + g.standard_normal(N)
        an = None
        for target in (60, 40, 100, 25, 150):
            kw = dict(Jdes=target, Kdes=10, order=0, win="hann", olap=0.5, scheduler="ltf", force_target_nf=True)
            mk = lambda: SpectrumAnalyzer((np.vstack([x, y]) if cross else x).copy(), 2.0, **kw)
            try:
                an = mk(); p0 = an.plan(); f0 = np.array(p0["f"], copy=True); break
            except Exception:
                an = None      # target not reachable for this record: C04's business
        if an is None:
            continue
        ops = []
        for what, fn in (("plan()", lambda a: a.plan()["f"]), ("compute()", lambda a: a.compute()._data["f"]), ("plan()", lambda a: a.plan()["f"]),
                         ("compute_single_bin", lambda a: a.compute_single_bin(0.3, L=200)._data["XX"]), ("compute()", lambda a: a.compute()._data["XX"]), ("plan()", lambda a: a.plan()["f"])):
            ops.append(what)
            try:
                got = np.asarray(fn(an))
            except Exception as e:
                ck.violation("force_target_nf=%d: %s after %s raises %s" % (target, what, ops[:-1], type(e).__name__), dict(cross=cross, kw=kw, ops=ops), tag="history-forced"); break
            fresh = mk()
            want = np.asarray(fn(fresh))
            if got.shape != want.shape or not np.array_equal(got, want, equal_nan=True):
                ck.violation("force_target_nf=%d: %s after history %s differs from a fresh analyzer (%d vs %d bins)" % (target, what, ops[:-1], len(got), len(want)), dict(cross=cross, kw=kw, ops=ops), tag="history-forced"); break
            if len(an.plan()["f"]) != len(f0):
                ck.violation("force_target_nf=%d: the plan has %d bins after %s, it had %d" % (target, len(an.plan()["f"]), ops, len(f0)), dict(cross=cross, kw=kw, ops=ops), tag="history-forced"); break


def history(ck):
    """Interleaved plan / compute / single-bin calls on one analyzer vs fresh analyzers."""
    from speckit.analysis import SpectrumAnalyzer
    n = 12 if ck.tier == "quick" else 80
    nops = 0
    keys = ["f", "L", "K", "XX", "YY", "XY", "S12", "S2", "M2", "navg", "D"]
    # fixed histories on every backend x detrend order: a single-segment request shorter than the record (K = 1, L < N),
    # then a short request and a full analysis — each compared with a fresh analyzer — and the stored record must be unchanged
    for backend in ("numba", "numpy"):
        for order in (-1, 0, 1, 2):
            for cross in (False, True):
                g = np.random.default_rng(ck.rng.randint(0, 2 ** 31))
                N = 1500; fs = 10.0
                x = 0.8 + 0.002 * np.arange(N) + g.standard_normal(N); y = -1.5 + 0.5 * x + g.standard_normal(N)
                data = np.vstack([x, y]) if cross else x
                kw = dict(Jdes=15, Kdes=4, order=order, win="hann", olap=(0.75 if cross else 0.5), backend=backend, scheduler="ltf")
                mk = lambda: SpectrumAnalyzer(data.copy(), fs, **kw)
                an = mk()
                rec0 = [np.array(getattr(an, nm), copy=True) for nm in ("x1", "x2") if getattr(an, nm, None) is not None]
                steps = [("compute_single_bin(0.4, L=%d)" % int(0.93 * N), lambda a: a.compute_single_bin(0.4, L=int(0.93 * N))),
                         ("compute_single_bin(1.3, L=200)", lambda a: a.compute_single_bin(1.3, L=200)),
                         ("compute()", lambda a: a.compute()),
                         ("compute_single_bin(0.4, L=%d)" % int(0.93 * N), lambda a: a.compute_single_bin(0.4, L=int(0.93 * N)))]
                # after the full analysis: single-bin requests at segment lengths the plan itself uses (a cached plan must not leak into them)
                Lp = sorted(set(int(v) for v in np.asarray(mk().plan()["L"]) if 8 <= int(v) < N))
                for Lq in Lp:
                    steps.append(("compute_single_bin(0.9, L=%d)" % Lq, lambda a, _L=Lq: a.compute_single_bin(0.9, L=_L)))
                done = []
                for what, fn in steps:
                    nops += 1
                    a, b = fn(an), fn(mk())
                    bad = [k for k in keys if not same(a._data[k], b._data[k])]
                    rec1 = [np.asarray(getattr(an, nm)) for nm in ("x1", "x2") if getattr(an, nm, None) is not None]
                    if any(not np.array_equal(p, q) for p, q in zip(rec0, rec1)):
                        bad.append("analyzer's stored record altered")
                    done.append(what)
                    if bad:
                        ck.violation("%s after history %s differs from a fresh analyzer in %s (backend=%s, order=%d, %s)" % (what, done[:-1], bad, backend, order, "cross" if cross else "auto"),
                                     dict(ops=done, cross=cross, kw=kw, fs=fs, N=N, kind="ramp+offset"), tag="history")
                        break
    for _ in range(n):
        r0, an0, info = attrs.make_result(ck.rng, which="full", backend=ck.rng.choice(["numba", "numpy", "numpy"]))
        if ck.rng.random() < 0.6:
            info["kw"]["scheduler"] = ck.rng.choice(["ltf", "lpsd"]); info["kw"]["olap"] = ck.rng.choice([0.5, "default", 0.3])
        data = np.vstack([info["x"], info["y"]]) if info["cross"] else info["x"]
        mk = lambda: SpectrumAnalyzer(data.copy(), info["fs"], **attrs.resolve_kw(info["kw"]))
        an = mk()
        ops = [ck.rng.choice(["plan", "compute", "single", "single"]) for _ in range(6)]
        plan_copy = None
        for o in ops:
            nops += 1
            if o == "plan":
                p = an.plan(); pf = mk().plan()
                bad = [k for k in ("f", "r", "b", "L", "K", "navg", "O", "D") if not same(p[k], pf[k])]
                if plan_copy is not None and any(not same(p[k], plan_copy[k]) for k in ("f", "L", "K", "D")):
                    bad.append("cached plan changed")
                plan_copy = copy.deepcopy({k: p[k] for k in ("f", "L", "K", "D")})
                what = "plan()"
            elif o == "compute":
                a, b = an.compute(), mk().compute()
                bad = [k for k in keys if not same(a._data[k], b._data[k])]
                what = "compute()"
            else:
                planned = [int(v) for v in np.unique(np.asarray(mk().plan()["L"])) if 8 <= int(v) <= info["N"]]
                # lengths from the plan, short ones, and lengths above N/2 (a single segment shorter than the record)
                L = ck.rng.choice(planned) if planned and ck.rng.random() < 0.5 else ck.rng.choice([64, 100, info["N"] // 3, int(0.95 * info["N"]), int(0.7 * info["N"])])
                f0 = ck.rng.uniform(2, L / 2 - 2) * info["fs"] / L
                a, b = an.compute_single_bin(f0, L=L), mk().compute_single_bin(f0, L=L)
                bad = [k for k in keys if not same(a._data[k], b._data[k])]
                what = "compute_single_bin(%r, L=%d)" % (f0, L)
            if bad:
                ck.violation("%s after history %s differs from a fresh analyzer in %s" % (what, ops, bad),
                             dict(ops=ops, cross=info["cross"], kw=info["kw"], fs=info["fs"], N=info["N"], kind=info["kind"]), tag="history")
                break
    ck.cov["history_ops"] = nops


def access_orders(ck):
    """Random permutations of attribute access on one result vs single accesses on fresh (deep-copied, cache-empty) results."""
    from ..attr_oracles import ALL_DYNAMIC
    n = 14 if ck.tier == "quick" else 100
    nacc = 0
    for _ in range(n):
        r, an, info = attrs.make_result(ck.rng)
        base = copy.deepcopy(r)          # empty cache
        names = list(ALL_DYNAMIC); ck.rng.shuffle(names)
        first = {}
        with np.errstate(all="ignore"):
            for nm in names:
                v = getattr(r, nm); nacc += 1
                fresh = getattr(copy.deepcopy(base), nm)
                if not same(v, fresh):
                    ck.violation("attribute %s accessed after %s differs from its value on a fresh result" % (nm, names[:names.index(nm)][-4:]),
                                 dict(order=names, name=nm, cross=info["cross"], which=info["which"], kind=info["kind"]), tag="access-order")
                    break
                first[nm] = None if v is None else np.array(v, copy=True)
            else:
                for nm in names:   # cached attributes are returned unchanged
                    v = getattr(r, nm)
                    if not same(v, first[nm]):
                        ck.violation("cached attribute %s changed after other attributes were accessed" % nm,
                                     dict(order=names, name=nm, cross=info["cross"], which=info["which"], kind=info["kind"]), tag="cache-changed")
                        break
    ck.cov["attribute_accesses"] = nacc


def run(ck):
    r = regen.regen_kernels()
    ck.obligation("translate:T1 kernels -> gen/KernelsGen.v (fail-closed on stores off the loop index, carried scalars, reads of outputs)", r["ok"], r["error"] or "")
    eff = r.get("effects") or {}
    par = {k: v for k, v in eff.items() if v["has_parallel"]}
    ck.obligation("effects:12 parallel kernels found", len(par) == 12, str(sorted(par)))
    for k, v in sorted(par.items()):
        ok = v["parallel_writes"] == EXPECT_WRITES and not v["parallel_reads_of_written"] and not v["carried_scalars"]
        ck.obligation("effects:%s writes only slot j of xx,yy,xyr,xyi; no carried scalar; no read of written arrays" % k, ok, str(v))
    ck.build_theorems("Properties/C14.v", deps=["Hist.vo", "gen/KernelsGen.vo", "GenRef.vo"])
    thread_sweep(ck)
    analyzer_thread_sweep(ck)
    forced_plan_history(ck)
    history(ck)
    access_orders(ck)
    ck.cov["rule"] = "T1 effect summaries of the 12 parallel kernels; thread-count x chunk-size sweep (bit-exact); random plan/compute/single-bin histories vs fresh analyzers; random attribute access permutations vs fresh results"
    ck.samples = [dict(kernel=k, writes=v["parallel_writes"]) for k, v in list(par.items())[:4]]
    ck.assumptions += ["Numba's parallel runtime and memory model (theorem is about the effect summary T1 extracts from the source)", "CUDA thread scheduling (simulator runs threads sequentially)"]


def replay(rec):
    print("replay input:", rec["violation"]["input"]); return 1
