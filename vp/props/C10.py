from .. import attr_oracles as O
from .attr_common import run_attr_property, replay_attr

DEPS = {"C20": ["AttrThms.vo"], "C09": ["AttrThms.vo"], "C10": ["Jordan.vo", "AttrThms.vo", "AttrThms2.vo"], "C11": ["AttrThms.vo", "gen/KernelsGen.vo"], "C06": ["AttrThms.vo"]}


def extra(ck):
    if "C10" == "C06":
        bad, worst = O.sinusoid_calibration(ck.rng, 8 if ck.tier == "quick" else 80)
        for tag, what, inp in bad:
            ck.violation(what, inp, tag=tag)
        ck.cov["sinusoid_calibration_worst_rel_error"] = worst


def run(ck):
    run_attr_property(ck, "C10", "Properties/C10.v", DEPS["C10"], O.oracle_c10, 30, 500, cross_only=("C10" == "C09"), extra=extra)


def replay(rec):
    return replay_attr(rec, O.oracle_c10)
