from .. import attr_oracles as O
from .attr_common import run_attr_property, replay_attr

DEPS = {"C20": ["AttrThms.vo"], "C09": ["AttrThms.vo"], "C10": ["Jordan.vo", "AttrThms.vo", "AttrThms2.vo"], "C11": ["AttrThms.vo", "gen/KernelsGen.vo"], "C06": ["AttrThms.vo"]}


def monte_carlo(ck):
    """Gaussian data, non-overlapping segments: reported deviations vs the spread of the estimates over independent realisations.
    Acceptance band = 6 sigma of the sampling error of a standard deviation estimated from R realisations, so the seed cannot cause an alarm."""
    import numpy as np
    from speckit.analysis import SpectrumAnalyzer
    R = 80 if ck.tier == "quick" else 400
    band = 6.0 / np.sqrt(2.0 * (R - 1))
    lo, hi = 1.0 / (1.0 + band) - 0.05, 1.0 + band + 0.05
    worst = {}
    for nseg in ([16] if ck.tier == "quick" else [8, 32, 128]):
        for noise in ([0.3, 1.5] if ck.tier == "quick" else [0.1, 0.3, 1.0, 3.0]):
            L = 64; N = L * nseg; d = 2
            g = np.random.default_rng(ck.rng.randint(0, 2 ** 31))
            est = {"Gxx": [], "coh": [], "H": [], "Gxy": []}; rep = {"Gxx": [], "coh": [], "H": [], "Gxy": []}
            f0 = 9.3 / L
            for _ in range(R):
                x = g.standard_normal(N); y = np.roll(x, d) + noise * g.standard_normal(N)
                r = SpectrumAnalyzer(np.vstack([x, y]), 1.0, olap=0.0, win="hann", order=-1).compute_single_bin(f0, L=L)
                est["Gxx"].append(float(r.Gxx[0])); rep["Gxx"].append(float(r.Gxx_dev[0]))
                est["coh"].append(float(r.coh[0])); rep["coh"].append(float(r.coh_dev[0]))
                est["H"].append(abs(complex(r.Hxy[0]))); rep["H"].append(float(r.Hxy_dev[0]))
                est["Gxy"].append(complex(r.Gxy[0])); rep["Gxy"].append(float(r.Gxy_dev[0]))
            for k in est:
                obs = float(np.sqrt(np.mean(np.abs(np.array(est[k]) - np.mean(est[k])) ** 2)))
                pred = float(np.sqrt(np.mean(np.array(rep[k]) ** 2)))
                ratio = pred / obs
                worst[k] = max(worst.get(k, 1.0), max(ratio, 1 / ratio))
                # asymptotic formulas: allow their known small-sample bias on top of the statistical band
                slack = 1.0 + 4.0 / nseg
                if not (lo / slack <= ratio <= hi * slack):
                    ck.violation("%s: reported deviation %.4g vs observed spread %.4g over %d realisations (ratio %.2f, %d segments, noise %.1f)" % (k, pred, obs, R, ratio, nseg, noise),
                                 dict(quantity=k, nseg=nseg, noise=noise, R=R, L=L, delay=d), tag="montecarlo:" + k)
    ck.cov["monte_carlo_worst_ratio"] = worst
    ck.cov["monte_carlo_realisations"] = R


def extra(ck):
    if "C10" == "C10":
        monte_carlo(ck)
    if "C10" == "C06":
        bad, worst = O.sinusoid_calibration(ck.rng, 8 if ck.tier == "quick" else 80)
        for tag, what, inp in bad:
            ck.violation(what, inp, tag=tag)
        ck.cov["sinusoid_calibration_worst_rel_error"] = worst


def run(ck):
    run_attr_property(ck, "C10", "Properties/C10.v", DEPS["C10"], O.oracle_c10, 30, 500, cross_only=("C10" == "C09"), extra=extra)


def replay(rec):
    return replay_attr(rec, O.oracle_c10)
