import math
import numpy as np
from .. import common, translate_dispatch
from ..common import fhex


def correspondence(ck):
    from speckit.utils import kaiser_alpha
    vals = [40.0, 60.0, 100.0, 200.0, 123.456] + [ck.rng.uniform(40, 200) for _ in range(20)]
    terms = ["Eval vm_compute in (kaiser_alpha FloatA (%s) (%s) (%s) (%s) (%s))." % (fhex(-0.0821377), fhex(4.71469), fhex(-0.493285), fhex(0.0889732), fhex(v)) for v in vals]
    body = "From Coq Require Import ZArith PrimFloat.\nFrom SK Require Import Arith Kaiser.\nOpen Scope float_scope.\n" + "\n".join(terms) + "\n"
    res = common.run_case_files({"kai_%d" % __import__("os").getpid(): body})
    rc, out = list(res.values())[0]
    evs = common.parse_evals(out)
    bad = []
    if rc != 0 or len(evs) != len(vals):
        bad.append("coq evaluation failed: " + out[-300:])
    else:
        for ev, v in zip(evs, vals):
            m = float(common.tokens(ev)[0])
            if m != float(kaiser_alpha(v)):
                bad.append("kaiser_alpha(%r): implementation %r, model %r" % (v, float(kaiser_alpha(v)), m))
    ck.obligation("correspondence:utils.kaiser_alpha == Kaiser.kaiser_alpha at binary64 (bit-exact)", not bad, "; ".join(bad[:3]))


def _kaiser_spec(which):
    """The ways a Kaiser window can be requested: by name, or by passing the NumPy / SciPy window function itself."""
    if which == "numpy":
        return np.kaiser
    if which == "scipy":
        from scipy.signal.windows import kaiser
        return kaiser
    return "kaiser"


def _lines(P, L, b0, ph, b, win="name"):
    """Responses at analysis bin b of the two spectral lines (+b0 and its image -b0) of cos(2 pi b0 n/L + ph), separated with the
    quadrature partner sin(...):  |C + iS|^2 = XX + YY + 2 Im(XY) is the line at +b0 alone, |C - iS|^2 the image alone
    (or the other way round; the caller fixes the sign on the sinusoid's own frequency), XX is the real sinusoid (both lines)."""
    from speckit.analysis import SpectrumAnalyzer
    th = 2 * np.pi * b0 * np.arange(L) / L + ph
    an = SpectrumAnalyzer(np.vstack([np.cos(th), np.sin(th)]), 1.0, win=_kaiser_spec(win), psll=P, order=-1, olap=0.0)
    d = an.compute_single_bin(b / L, L=L)._data
    XX = float(d["XX"][0]); YY = float(d["YY"][0]); im = float(np.imag(d["XY"][0]))
    return XX, XX + YY + 2 * im, XX + YY - 2 * im


def _auto_power(P, L, b0, ph, b, win="name", backend="auto"):
    """|X|^2 of the real sinusoid analysed as a single channel (the auto-spectrum kernels)."""
    from speckit.analysis import SpectrumAnalyzer
    th = 2 * np.pi * b0 * np.arange(L) / L + ph
    an = SpectrumAnalyzer(np.cos(th), 1.0, win=_kaiser_spec(win), psll=P, order=-1, olap=0.0, backend=backend)
    return float(an.compute_single_bin(b / L, L=L)._data["XX"][0])


def sidelobe_case(P, L, b0, ph, off, win="name"):
    """Returns (violation text or None, suppression of the line in dB, suppression of the real sinusoid in dB)."""
    from speckit.utils import kaiser_alpha
    alpha = float(kaiser_alpha(P)); lobe = math.sqrt(1 + alpha * alpha)
    xx0, p0, m0 = _lines(P, L, b0, ph, b0, win)
    sgn = 1 if p0 >= m0 else -1
    on = max(p0, m0)
    b = b0 + off
    xx, p, m = _lines(P, L, b0, ph, b, win)
    line, image = (p, m) if sgn == 1 else (m, p)
    sup = 10 * math.log10(on / max(line, 1e-320))
    sup_real = 10 * math.log10(xx0 / max(xx, 1e-320))
    what = None
    if sup < P - 1 - 0.05:
        what = "psll=%g, L=%d: response %.2f bins from a spectral line at bin %.3f (phase %.2f) is only %.2f dB down (requested %g)" % (P, L, abs(off), b0, ph, sup, P)
    # the image line at -b0 (periodically L - b0) is the same window response at another offset
    dimg = min(abs((b + b0) % L), abs(L - (b + b0) % L))
    if what is None and dimg > lobe * 1.0001:
        supi = 10 * math.log10(on / max(image, 1e-320))
        if supi < P - 1 - 0.05:
            what = "psll=%g, L=%d: response %.2f bins from the image line of a sinusoid at bin %.3f (phase %.2f) is only %.2f dB down (requested %g)" % (P, L, dimg, b0, ph, supi, P)
    # the real sinusoid is the coherent sum of the two lines: its response cannot exceed (|line| + |image|)^2 / 4
    if what is None and xx > 0.25 * (math.sqrt(max(line, 0)) + math.sqrt(max(image, 0))) ** 2 * (1 + 1e-6) + 1e-300:
        what = "psll=%g, L=%d: response to the real sinusoid at bin %.3f exceeds the coherent sum of its two lines at offset %.2f" % (P, L, b0, off)
    # the same record analysed as a single channel (auto-spectrum kernels, every backend) has the same |X|^2 as in the pair
    if what is None:
        for be in ("auto", "numpy"):
            xa = _auto_power(P, L, b0, ph, b, win, be)
            if abs(xa - xx) > 0.5 * xx + 10 ** (-(P + 25) / 10) * xx0:      # rounding differs between kernels; a truncated window or another shape does not
                what = "psll=%g, L=%d: single-channel analysis (backend %s) gives |X|^2 = %r at offset %.2f bins but the same channel in a pair gives %r (%.1f dB vs %.1f dB below the tone)" % (
                    P, L, be, xa, off, xx, 10 * math.log10(xx0 / max(xa, 1e-320)), 10 * math.log10(xx0 / max(xx, 1e-320)))
                break
    return what, sup, sup_real


class ConstLScheduler:
    """User scheduler: one full-length segment per bin, bins at the given fractional bin numbers (picklable)."""
    def __init__(self, bins):
        self.bins = [float(b) for b in bins]; self.__name__ = "const_L"

    def __call__(self, **a):
        N = int(a["N"]); fs = float(a["fs"]); nb = len(self.bins)
        f = np.array([b * fs / N for b in self.bins])
        return dict(f=f, r=np.full(nb, fs / N), b=np.array(self.bins), L=np.full(nb, N, dtype=np.int64), K=np.ones(nb, dtype=np.int64),
                    navg=np.ones(nb, dtype=np.int64), O=np.zeros(nb), D=[np.array([0], dtype=np.int64) for _ in range(nb)], nf=nb)


def multibin_case(P, L, b0, ph, offs, win="name"):
    """The same measurement through compute() (the multi-bin path): all analysis bins of one plan in one call."""
    from speckit.analysis import SpectrumAnalyzer
    from speckit.utils import kaiser_alpha
    alpha = float(kaiser_alpha(P)); lobe = math.sqrt(1 + alpha * alpha)
    bins = [b0] + [b0 + o for o in offs if 0 < b0 + o < L / 2]
    th = 2 * np.pi * b0 * np.arange(L) / L + ph
    an = SpectrumAnalyzer(np.vstack([np.cos(th), np.sin(th)]), 1.0, win=_kaiser_spec(win), psll=P, order=-1, olap=0.0, scheduler=ConstLScheduler(bins))
    d = an.compute()._data
    XX = np.asarray(d["XX"], float); YY = np.asarray(d["YY"], float); im = np.imag(np.asarray(d["XY"]))
    p = XX + YY + 2 * im; m = XX + YY - 2 * im
    line = p if p[0] >= m[0] else m
    on = float(line[0])
    for k in range(1, len(bins)):
        sup = 10 * math.log10(on / max(float(line[k]), 1e-320))
        if sup < P - 1 - 0.05:
            return "psll=%g, L=%d, compute() path: response %.2f bins from a spectral line at bin %.3f is only %.2f dB down (requested %g)" % (P, L, abs(bins[k] - b0), b0, sup, P), sup
    return None, None


def sweep(ck):
    """Response to a pure sinusoid at analysis offsets beyond sqrt(1+alpha^2) bins is at least P-1 dB below the on-frequency response.
    The suppression is measured per spectral line: a real sinusoid has a second line at -b0 whose own (equally suppressed) leakage adds
    coherently, which for short segments costs up to 6 dB at frequencies comparably far from both and says nothing about the window."""
    from speckit.utils import kaiser_alpha
    n = 30 if ck.tier == "quick" else 500
    worst = 1e9; worst_real = 1e9
    evals = 0
    for _ in range(n):
        P = ck.rng.choice([40, 60, 80, 120, 160, 200, ck.rng.uniform(40, 200), ck.rng.choice([40.99, 45.5, 49.99, 54.9, 61.7])])
        L = ck.rng.choice([64, 100, 1000, 4096])
        alpha = float(kaiser_alpha(P)); lobe = math.sqrt(1 + alpha * alpha)
        b0 = ck.rng.uniform(lobe + 1, L / 2 - lobe - 1)
        if not (b0 > lobe + 1):
            continue
        ph = ck.rng.uniform(0, 2 * np.pi)
        offs = [lobe * 1.0001, lobe + ck.rng.uniform(0, 2), lobe + ck.rng.uniform(2, 10), ck.rng.uniform(lobe, L / 4)]
        for off in offs:
            for sgn in (-1, 1):
                b = b0 + sgn * off
                if b < 0 or b > L / 2:
                    continue
                wsel = ck.rng.choice(["name", "name", "numpy", "scipy"])
                what, sup, sup_real = sidelobe_case(P, L, b0, ph, sgn * off, wsel); evals += 1
                worst = min(worst, sup - (P - 1)); worst_real = min(worst_real, sup_real - (P - 1))
                if what:
                    ck.violation(what, dict(psll=P, L=L, bin=b0, offset=sgn * off, phase=ph, win=wsel), tag="sidelobe")
        # the multi-bin path: the same tone, all offsets in one compute() call
        what, _ = multibin_case(P, L, b0, ph, [sg * o for o in offs for sg in (-1, 1)], ck.rng.choice(["name", "numpy"])); evals += 1
        if what:
            ck.violation(what, dict(psll=P, L=L, bin=b0, phase=ph, path="compute"), tag="sidelobe-multibin")
    # fractional requests near the low end, first side lobes scanned finely (the bound has least slack there)
    from speckit.utils import kaiser_alpha as _ka
    for P in (40.99, 45.5, 49.99, 75.0, 112.5, 137.5, 150.0, 165.0, 180.0):
        lobe = math.sqrt(1 + float(_ka(P)) ** 2)
        for L, b0 in ((64, 20.3), (100, 31.0)):
            for off in np.arange(lobe * 1.0001, lobe + 3.0, 0.05):
                what, sup, _ = sidelobe_case(P, L, b0, 0.7, float(off), "name"); evals += 1
                worst = min(worst, sup - (P - 1))
                if what:
                    ck.violation(what, dict(psll=P, L=L, bin=b0, offset=float(off), phase=0.7, win="name"), tag="sidelobe"); break
    ck.cov["sidelobe_evaluations"] = evals
    ck.cov["worst_margin_dB_over_P_minus_1"] = worst
    ck.cov["worst_margin_dB_real_sinusoid_both_lines"] = worst_real


def run(ck):
    r = translate_dispatch.regen()
    ck.obligation("translate:T3 window construction in _lpsd_core / compute_single_bin", r["ok"], r["error"] or "")
    ck.build_theorems("Properties/C12.v", deps=["Kaiser.vo", "Dispatch.vo", "gen/DispatchGen.vo"])
    correspondence(ck)
    sweep(ck)
    ck.cov["rule"] = "P in [40,200], L in {64,100,1000,4096}, random fractional sinusoid bins and phases, analysis offsets just beyond and far beyond sqrt(1+alpha^2) bins on both sides; suppression measured per spectral line (the line and its image separated with the quadrature partner through XX+YY+-2Im(XY)); threshold P-1 dB with 0.05 dB numerical allowance"
    ck.samples = [dict(psll=200, L=64), dict(psll=60, L=1000)]
    ck.assumptions += ["PARTIAL: the Kaiser-Bessel side-lobe bound itself is swept, not proved (no Bessel theory in the installed libraries)", "np.kaiser / i0 accuracy"]


def replay(rec):
    i = rec["violation"]["input"]
    what, sup, sup_real = sidelobe_case(i["psll"], i["L"], i["bin"], i["phase"], i["offset"], i.get("win", "name"))
    print("replay:", what or "property holds now (line %.2f dB down, real sinusoid %.2f dB)" % (sup, sup_real)); return 1 if what else 0
