import math
import numpy as np
from .. import common, translate_dispatch
from ..common import fhex


def correspondence(ck):
    from speckit.utils import kaiser_alpha
    vals = [40.0, 60.0, 100.0, 200.0, 123.456] + [ck.rng.uniform(40, 200) for _ in range(20)]
    terms = ["Eval vm_compute in (kaiser_alpha FloatA (%s) (%s) (%s) (%s) (%s))." % (fhex(-0.0821377), fhex(4.71469), fhex(-0.493285), fhex(0.0889732), fhex(v)) for v in vals]
    body = "From Coq Require Import ZArith PrimFloat.\nFrom SK Require Import Arith Kaiser.\nOpen Scope float_scope.\n" + "\n".join(terms) + "\n"
    res = common.run_case_files({"kai_%d" % __import__("os").getpid(): body})
    rc, out = list(res.values())[0]
    evs = common.parse_evals(out)
    bad = []
    if rc != 0 or len(evs) != len(vals):
        bad.append("coq evaluation failed: " + out[-300:])
    else:
        for ev, v in zip(evs, vals):
            m = float(common.tokens(ev)[0])
            if m != float(kaiser_alpha(v)):
                bad.append("kaiser_alpha(%r): implementation %r, model %r" % (v, float(kaiser_alpha(v)), m))
    ck.obligation("correspondence:utils.kaiser_alpha == Kaiser.kaiser_alpha at binary64 (bit-exact)", not bad, "; ".join(bad[:3]))


def sweep(ck):
    """Response to a pure sinusoid at analysis offsets beyond sqrt(1+alpha^2) bins is at least P-1 dB below the on-frequency response."""
    from speckit.analysis import SpectrumAnalyzer
    from speckit.utils import kaiser_alpha
    n = 30 if ck.tier == "quick" else 500
    worst = 1e9
    evals = 0
    for _ in range(n):
        P = ck.rng.choice([40, 60, 80, 120, 160, 200, ck.rng.uniform(40, 200)])
        L = ck.rng.choice([64, 100, 1000, 4096])
        alpha = float(kaiser_alpha(P)); lobe = math.sqrt(1 + alpha * alpha)
        b0 = ck.rng.uniform(lobe + 1, L / 2 - lobe - 1)
        if not (b0 > lobe + 1):
            continue
        ph = ck.rng.uniform(0, 2 * np.pi); fs = 1.0
        x = np.cos(2 * np.pi * b0 * np.arange(L) / L + ph)
        an = SpectrumAnalyzer(x, fs, win="kaiser", psll=P, order=-1, olap=0.0)
        on = float(an.compute_single_bin(b0 * fs / L, L=L)._data["XX"][0])
        offs = [lobe * 1.0001, lobe + ck.rng.uniform(0, 2), lobe + ck.rng.uniform(2, 10), ck.rng.uniform(lobe, L / 4)]
        for off in offs:
            for sgn in (-1, 1):
                b = b0 + sgn * off
                if b < 0 or b > L / 2:
                    continue
                v = float(an.compute_single_bin(b * fs / L, L=L)._data["XX"][0]); evals += 1
                sup = 10 * math.log10(on / max(v, 1e-320))
                worst = min(worst, sup - (P - 1))
                if sup < P - 1 - 0.05:
                    ck.violation("psll=%g, L=%d: response %.2f bins from a sinusoid at bin %.3f (phase %.2f) is only %.2f dB down (requested %g)" % (P, L, off, b0, ph, sup, P),
                                 dict(psll=P, L=L, bin=b0, offset=sgn * off, phase=ph), tag="sidelobe")
    ck.cov["sidelobe_evaluations"] = evals
    ck.cov["worst_margin_dB_over_P_minus_1"] = worst


def run(ck):
    r = translate_dispatch.regen()
    ck.obligation("translate:T3 window construction in _lpsd_core / compute_single_bin", r["ok"], r["error"] or "")
    ck.build_theorems("Properties/C12.v", deps=["Kaiser.vo", "Dispatch.vo", "gen/DispatchGen.vo"])
    correspondence(ck)
    sweep(ck)
    ck.cov["rule"] = "P in [40,200], L in {64,100,1000,4096}, random fractional sinusoid bins and phases, analysis offsets just beyond and far beyond sqrt(1+alpha^2) bins on both sides; threshold P-1 dB with 0.05 dB numerical allowance"
    ck.samples = [dict(psll=200, L=64), dict(psll=60, L=1000)]
    ck.assumptions += ["PARTIAL: the Kaiser-Bessel side-lobe bound itself is swept, not proved (no Bessel theory in the installed libraries)", "np.kaiser / i0 accuracy"]


def replay(rec):
    print("replay input:", rec["violation"]["input"]); return 1
