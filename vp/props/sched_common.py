"""Common driver for the scheduler properties C02, C03, C04."""
import json, os, glob
import numpy as np
from .. import common, sched

MODEL_SCHEDS = ("ltf", "lpsd", "vectorized_ltf", "new_ltf")
MAX_SUMK = 25000


def load_corpus(pid):
    out = []
    for f in sorted(glob.glob(os.path.join(common.VERIF, "corpus", pid, "*.json"))):
        try:
            out.append(json.load(open(f)))
        except Exception:
            pass
    return out


def run_sched_property(ck, pid, oracle, pfile, nquick, nthorough, analyzer=False, extra=None):
    ck.build_theorems(pfile, deps=["SchedRun.vo", "SchedThms.vo", "SchedThms2.vo", "SchedMono.vo", "SchedMonoVec.vo", "NewLtf.vo", "SchedTerm.vo"])
    n = nquick if ck.tier == "quick" else nthorough
    cfgs = [dict(c, family="corpus") for c in load_corpus(pid)]
    while len(cfgs) < n:
        cfgs.append(sched.gen_config(ck.rng))
    terms, impls = [], {}
    fam = {}
    bad_grid = []
    oracle_fail = 0
    skipped_model = 0
    for i, cfg in enumerate(cfgs):
        fam[cfg["family"]] = fam.get(cfg["family"], 0) + 1
        for nm in sched.SCHEDS:
            res = sched.run_sched(nm, cfg)
            fails = oracle(nm, cfg, res)
            if nm == "vectorized_ltf":
                g = res["rec"].get("logspace")
                if g:
                    import numpy as _np
                    gr = _np.asarray(g[0][1], float)
                    if len(gr) and not (gr[0] > 0 and _np.all(_np.diff(gr) >= 0)):
                        bad_grid.append(json.dumps(sched_kwargs(cfg)))
            for tag, what in fails:
                oracle_fail += 1
                ck.violation("%s: %s" % (nm, what), dict(sched_kwargs(cfg), scheduler=nm), tag="%s:%s" % (nm, tag))
            if nm in MODEL_SCHEDS:
                sumk = int(sum(int(k) for k in res["plan"]["K"])) if res["ok"] else 0
                if sumk > MAX_SUMK or (res["ok"] and len(res["plan"]["f"]) > 1500):
                    skipped_model += 1
                else:
                    key = (i, nm)
                    impls[key] = (cfg, res)
                    terms.append((key, sched.coq_case_vec(cfg, res) if nm == "vectorized_ltf" else (sched.coq_case_new(cfg, res) if nm == "new_ltf" else sched.coq_case_ltf(nm, cfg, res))))
    out = sched.run_models(terms)
    mism = {nm: [] for nm in MODEL_SCHEDS}
    nbins = 0
    for key, (cfg, res) in impls.items():
        m = out.get(key)
        if m is None or m[0] == "error":
            mism[key[1]].append((cfg, "model evaluation error: %s" % (m[1][-300:] if m else "missing")))
            continue
        d = sched.compare(sched.impl_summary(res), m)
        nbins += len(m[1]) // 4
        if d:
            mism[key[1]].append((cfg, d))
    for nm in MODEL_SCHEDS:
        ck.obligation("correspondence:%s_plan == Sched.v model at binary64 (bit-exact f,r,b,L,K,D)" % nm, not mism[nm],
                      "; ".join("%s -> %s" % (json.dumps(sched_kwargs(c)), d) for c, d in mism[nm][:3]))
    ck.obligation("premise:vectorised lookup grid recorded from the implementation is positive and sorted (hypothesis of C04_vectorized_plan_monotone)", not bad_grid, "; ".join(bad_grid[:3]))
    # oracle-only sweep (cheap): many more boundary configurations, no Coq evaluation
    n_or = 8 * n
    for _ in range(n_or):
        cfg = sched.gen_config(ck.rng, ck.rng.choice(["small", "mid", "xovL<1", "clampLmin", "clampLmin", "bminactive", "nseg12", "tie"]))
        fam[cfg["family"]] = fam.get(cfg["family"], 0) + 1
        for nm in sched.SCHEDS:
            res = sched.run_sched(nm, cfg)
            for tag, what in oracle(nm, cfg, res):
                oracle_fail += 1
                ck.violation("%s: %s" % (nm, what), dict(sched_kwargs(cfg), scheduler=nm), tag="%s:%s" % (nm, tag))
    if analyzer:
        na = analyzer_plans(ck, cfgs[: max(20, n // 4)])
        ck.cov["analyzer_plan_calls"] = na
    if extra:
        extra(ck, cfgs)
    # model/implementation disagreement without an oracle failure so far: widen the search
    if any(mism.values()) and not any(v["kind"] == "failing-input" for v in ck.violations):
        budget = 6 * n
        for _ in range(budget):
            cfg = sched.gen_config(ck.rng)
            for nm in sched.SCHEDS:
                res = sched.run_sched(nm, cfg)
                for tag, what in oracle(nm, cfg, res):
                    ck.violation("%s: %s" % (nm, what), dict(sched_kwargs(cfg), scheduler=nm), tag="%s:%s" % (nm, tag))
            if any(v["kind"] == "failing-input" for v in ck.violations):
                break
        ck.cov["search_evaluations"] = budget
    ck.cov.update({
        "correspondence_cases": len(impls), "correspondence_bins": nbins,
        "correspondence_mismatches": sum(len(v) for v in mism.values()),
        "model_skipped_large": skipped_model,
        "oracle_evaluations": (len(cfgs) + n_or) * len(sched.SCHEDS), "oracle_failures": oracle_fail,
        "input_distribution": fam,
        "rule": "admissible configurations from boundary families (see vp/sched.py gen_config) x 4 schedulers; "
                "direct property oracle on the implementation's plan; lpsd/ltf/vectorized plans compared bit-exactly with the Coq model (vm_compute at PrimFloat)",
    })
    ck.samples = [sched_kwargs(c) for c in cfgs[:6]]
    ck.assumptions += [
        "binary64 vs real arithmetic in integer decisions (theorems are at R; FloatA model is tied bit-exactly to the code; tie-straddling family explores the gap)",
        "libm pow (x**0.5), np.logspace, np.sqrt: oracle tables / correctly-rounded sqrt",
        "logfact=(N/2)**(1/Jdes)-1 computed by the harness with the same Python expression",
    ]


def sched_kwargs(cfg):
    return {k: cfg[k] for k in ("N", "fs", "olap", "bmin", "Lmin", "Jdes", "Kdes")}


def analyzer_plans(ck, cfgs):
    """Build the plan through SpectrumAnalyzer.plan(); an exception for an admissible configuration is a C02 failure."""
    from speckit.analysis import SpectrumAnalyzer
    n = 0
    for cfg in cfgs:
        for nm in sched.SCHEDS:
            x = np.zeros(cfg["N"])
            try:
                kw = dict(olap=cfg["olap"], bmin=cfg["bmin"], Lmin=cfg["Lmin"], Jdes=cfg["Jdes"], Kdes=cfg["Kdes"], scheduler=nm, win="hann")
                an = SpectrumAnalyzer(x, cfg["fs"], **kw)
                p = an.plan()
                n += 1
                if p["nf"] < 1:
                    ck.violation("%s: analyzer plan has no bins" % nm, dict(sched_kwargs(cfg), scheduler=nm), tag="%s:analyzer:nobins" % nm)
                # the analyzer's plan is the scheduler's plan for the configuration it was given (same olap, bmin, Lmin, Jdes, Kdes)
                res = sched.run_sched(nm, cfg)
                if res["ok"]:
                    q = res["plan"]
                    same = len(q["f"]) == len(p["f"]) and all(np.array_equal(np.asarray(p[k]), np.asarray(q[k])) for k in ("f", "L", "K")) \
                        and all(np.array_equal(np.asarray(a), np.asarray(b)) for a, b in zip(p["D"], q["D"]))
                    if not same:
                        j = next((i for i in range(min(len(p["f"]), len(q["f"]))) if p["L"][i] != q["L"][i] or p["K"][i] != q["K"][i] or p["f"][i] != q["f"][i]), -1)
                        ck.violation("%s: the plan built through SpectrumAnalyzer differs from the scheduler's plan for the same configuration (olap=%r): %d vs %d bins%s" %
                                     (nm, cfg["olap"], len(p["f"]), len(q["f"]), "" if j < 0 else ", first difference at bin %d (L %d/%d, K %d/%d)" % (j, p["L"][j], q["L"][j], p["K"][j], q["K"][j])),
                                     dict(sched_kwargs(cfg), scheduler=nm), tag="%s:analyzer:differs" % nm)
            except Exception as e:
                n += 1
                ck.violation("%s: SpectrumAnalyzer.plan() raised %s: %s" % (nm, type(e).__name__, str(e)[:150]),
                             dict(sched_kwargs(cfg), scheduler=nm), tag="%s:analyzer:%s" % (nm, type(e).__name__))
    return n


def replay_sched(rec, oracle):
    common.pin_env()
    v = rec["violation"]
    inp = v["input"]
    if v["kind"] != "failing-input":
        print("replay: obligations that no longer check:", inp.get("obligations"))
        return 1
    nm = inp["scheduler"]
    cfg = {k: inp[k] for k in ("N", "fs", "olap", "bmin", "Lmin", "Jdes", "Kdes")}
    res = sched.run_sched(nm, cfg)
    fails = oracle(nm, cfg, res)
    print("replay %s on %s: %s" % (nm, cfg, fails or "property holds now"))
    return 1 if fails else 0
