import numpy as np
from .. import common, translate_attrs

FIELDS = ["XX", "YY", "XY", "S12", "S2", "M2"]


def same_result(a, b):
    return all(np.array_equal(a._data[k], b._data[k], equal_nan=True) for k in FIELDS) and np.array_equal(a._data["f"], b._data["f"])


def ingest_correspondence(ck):
    """Coq model `ingest` (vm_compute on labelled matrices) vs the constructor's shape normalisation."""
    from speckit.analysis import SpectrumAnalyzer
    shapes = [(2, 7), (7, 2), (2, 2), (3, 2), (2, 3), (1, 7), (7, 1), (3, 3), (2, 1), (1, 2), (4, 5), (2, 30), (30, 2)]
    terms, impl = [], []
    for (r, c) in shapes:
        m = (np.arange(r * c, dtype=float) + 1).reshape(r, c)
        try:
            an = SpectrumAnalyzer(m, 1.0)
            impl.append(("cross", [int(v) for v in an.x1], [int(v) for v in an.x2]) if an.iscsd else ("auto", [int(v) for v in an.x1], []))
        except ValueError:
            impl.append(("error", [], []))
        rows = "[" + "; ".join("[" + "; ".join(str(int(v)) for v in row) + "]" for row in m) + "]"
        terms.append("Eval vm_compute in (match ingest Z 0 (TwoD Z %s) with Auto _ x => (0, x, []) | Cross _ a b => (1, a, b) | ShapeError _ => (2, [], []) end)." % rows)
    # 1-D and 3-D
    an = SpectrumAnalyzer(np.arange(1.0, 8.0), 1.0)
    impl.append(("cross", [], []) if an.iscsd else ("auto", [int(v) for v in an.x1], []))
    terms.append("Eval vm_compute in (match ingest Z 0 (OneD Z [1;2;3;4;5;6;7]) with Auto _ x => (0, x, []) | Cross _ a b => (1, a, b) | ShapeError _ => (2, [], []) end).")
    try:
        SpectrumAnalyzer(np.zeros((2, 3, 4)), 1.0); impl.append(("auto", [], []))
    except ValueError:
        impl.append(("error", [], []))
    terms.append("Eval vm_compute in (match ingest Z 0 (OtherDim Z) with Auto _ x => (0, x, []) | Cross _ a b => (1, a, b) | ShapeError _ => (2, [], []) end).")
    body = "From Coq Require Import ZArith List.\nFrom SK Require Import Ingest.\nImport ListNotations.\nOpen Scope Z_scope.\n" + "\n".join(terms) + "\n"
    res = common.run_case_files({"ingest_%d" % __import__("os").getpid(): body})
    rc, out = list(res.values())[0]
    evs = common.parse_evals(out)
    bad = []
    if rc != 0 or len(evs) != len(impl):
        bad.append("coq evaluation failed: " + out[-300:])
    else:
        for k, (ev, im) in enumerate(zip(evs, impl)):
            t = [int(x) for x in common.tokens(ev)]
            code = {"auto": 0, "cross": 1, "error": 2}[im[0]]
            exp = [code] + im[1] + im[2]
            if t != exp:
                bad.append("shape case %d: implementation %s, model %s" % (k, exp[:8], t[:8]))
    ck.obligation("correspondence:shape normalisation == Ingest.ingest (vm_compute on labelled matrices)", not bad, "; ".join(bad[:3]))
    ck.cov["ingest_cases"] = len(impl)


def make_layouts(x, y, rng):
    """(label, object) pairs that all denote the same two-channel record (x, y)."""
    a = np.vstack([x, y])
    out = [("2xN", a.copy()), ("Nx2", np.ascontiguousarray(a.T)), ("Nx2 view of 2xN", a.copy().T), ("list", [list(x), list(y)]), ("tuple", (tuple(x), tuple(y))),
           ("fortran", np.asfortranarray(a)), ("strided", np.repeat(a, 2, axis=1)[:, ::2]), ("2xN of Nx2 transpose", np.ascontiguousarray(a.T).T)]
    return out


def robustness(ck):
    from speckit.analysis import SpectrumAnalyzer
    n = 10 if ck.tier == "quick" else 120
    runs = 0
    dist = {}
    for _ in range(n):
        N = ck.rng.choice([300, 500, 777])
        g = np.random.default_rng(ck.rng.randint(0, 2 ** 31))
        x = g.standard_normal(N); y = 0.5 * x + g.standard_normal(N)
        kinds = ck.rng.choice([["nan"], ["inf"], ["-inf"], ["nan", "inf", "-inf"], []])
        pos = []
        for kd in kinds:
            for _k in range(ck.rng.choice([1, 3])):
                ch, i = ck.rng.choice([0, 1]), ck.rng.randrange(N)
                (x if ch == 0 else y)[i] = {"nan": np.nan, "inf": np.inf, "-inf": -np.inf}[kd]; pos.append((ch, i, kd))
        xz, yz = np.nan_to_num(x, nan=0.0, posinf=0.0, neginf=0.0), np.nan_to_num(y, nan=0.0, posinf=0.0, neginf=0.0)
        kw = dict(Jdes=12, Kdes=4, order=ck.rng.choice([-1, 0, 1, 2]), scheduler=ck.rng.choice(["ltf", "vectorized_ltf", "lpsd"]), win=ck.rng.choice(["hann", "kaiser"]),
                  backend=ck.rng.choice(["numba", "numpy"]))
        with np.errstate(all="ignore"):
            ref = SpectrumAnalyzer(np.vstack([xz, yz]), 2.0, **kw).compute()
            refa = SpectrumAnalyzer(xz.copy(), 2.0, **kw).compute()
            for lab, obj in make_layouts(x, y, ck.rng):
                dist[lab] = dist.get(lab, 0) + 1
                before = np.array(obj, dtype=float, copy=True) if not isinstance(obj, np.ndarray) else obj.copy()
                r = SpectrumAnalyzer(obj, 2.0, **kw).compute(); runs += 1
                after = np.array(obj, dtype=float) if not isinstance(obj, np.ndarray) else obj
                inp = dict(layout=lab, N=N, nonfinite=pos, kw=kw)
                if not np.array_equal(before, after, equal_nan=True):
                    ck.violation("the caller's %s array was modified (non-finite samples %s)" % (lab, pos[:3]), inp, tag="caller-modified")
                if not same_result(r, ref):
                    ck.violation("result for layout %s with non-finite samples differs from the zero-filled 2xN record" % lab, inp, tag="layout/sanitise")
            # 1-D inputs: ndarray, list, strided view, float32 (values representable), int
            for lab, obj in [("1-D", x.copy()), ("1-D list", list(x)), ("1-D strided", np.repeat(x, 3)[::3])]:
                before = np.array(obj, dtype=float, copy=True)
                r = SpectrumAnalyzer(obj, 2.0, **kw).compute(); runs += 1
                if not np.array_equal(before, np.array(obj, dtype=float), equal_nan=True):
                    ck.violation("the caller's %s array was modified" % lab, dict(layout=lab, N=N, nonfinite=pos, kw=kw), tag="caller-modified")
                if not same_result(r, refa):
                    ck.violation("auto result for %s differs from the zero-filled record" % lab, dict(layout=lab, N=N, nonfinite=pos, kw=kw), tag="layout/sanitise")
            # containers whose non-finite samples only appear at the conversion to float64: Python lists with None for missing samples,
            # object-dtype arrays holding nan/inf — same result as the zero-filled record, for one and for two channels
            xl = [None if not np.isfinite(v) else float(v) for v in x]; yl = [None if not np.isfinite(v) else float(v) for v in y]
            for lab, obj, rr in [("1-D list with None", xl, refa), ("1-D object array", np.array(list(x), dtype=object), refa),
                                 ("list of channels with None", [xl, yl], ref), ("2xN object array", np.array([list(x), list(y)], dtype=object), ref)]:
                try:
                    r = SpectrumAnalyzer(obj, 2.0, **kw).compute(); runs += 1
                except Exception as e:
                    ck.violation("%s input raises %s: %s" % (lab, type(e).__name__, str(e)[:100]), dict(layout=lab, N=N, nonfinite=pos, kw=kw), tag="layout/sanitise"); continue
                if not same_result(r, rr):
                    ck.violation("result for a %s (non-finite samples %s) differs from the zero-filled record" % (lab, pos[:3]), dict(layout=lab, N=N, nonfinite=pos, kw=kw), tag="layout/sanitise")
            xi = np.round(xz * 100).astype(np.int64)
            for lab, obj, refd in [("int64", xi, xi.astype(float)), ("float32", xz.astype(np.float32), xz.astype(np.float32).astype(float)), ("bool", xz > 0, (xz > 0).astype(float))]:
                r = SpectrumAnalyzer(obj, 2.0, **kw).compute(); r0 = SpectrumAnalyzer(refd, 2.0, **kw).compute(); runs += 1
                if not same_result(r, r0):
                    ck.violation("result depends on the dtype (%s) of the same samples" % lab, dict(layout=lab, N=N, kw=kw), tag="dtype")
    ck.cov["robustness_runs"] = runs
    ck.cov["input_distribution"] = dist


def untouched_finite(ck):
    """Finite, float64, C-contiguous inputs (which the constructor does not copy) must come back untouched from every backend/order,
    including bins averaged over a single segment and single-bin requests with L = N."""
    from speckit.analysis import SpectrumAnalyzer
    g = np.random.default_rng(ck.rng.randint(0, 2 ** 31))
    N = 256
    for be in ("numba", "numpy", "cuda"):
        for order in (-1, 0, 1, 2):
            for cross in (False, True):
                x = g.standard_normal((2, N)) + 5.0 if cross else g.standard_normal(N) + 5.0
                keep = x.copy()
                kw = dict(Jdes=6, Kdes=2, order=order, scheduler=ck.rng.choice(["ltf", "lpsd", "vectorized_ltf"]), win="hann", backend=be)
                with np.errstate(all="ignore"):
                    an = SpectrumAnalyzer(x, 1.0, **kw)
                    an.compute(); an.compute_single_bin(0.1, L=N); an.compute_single_bin(0.2, L=N // 2)
                if not np.array_equal(x, keep):
                    ck.violation("the caller's finite %s float64 array was modified by an analysis (backend=%s, order=%d): mean %r -> %r" % ("2xN" if cross else "1-D", be, order, float(keep.mean()), float(x.mean())),
                                 dict(backend=be, order=order, cross=cross, N=N, kw=kw), tag="caller-modified")


def finiteness(ck):
    from speckit.analysis import SpectrumAnalyzer
    from ..attr_oracles import ALL_DYNAMIC
    n = 10 if ck.tier == "quick" else 100
    errs = {"Gxy_dev", "Hxy_dev", "coh_dev", "Gxy_error", "Hxy_mag_error", "Hxy_rad_error", "Hxy_deg_error", "coh_error"}
    must = ["Gxx", "Gyy", "Gxy", "ENBW", "psd", "asd", "ps", "csd", "Gyx", "Hxy", "Hyx", "coh", "ccoh", "cs", "tf", "cf", "cf_rad", "cf_deg", "GyyCx", "GyyRx", "GyySx",
            "Gxx_dev", "Gyy_dev", "Gxx_error", "Gyy_error", "XY_emp_var", "XY_emp_dev", "Gxx_emp_dev", "Gxy_emp_dev"]
    cnt = 0
    kinds_all = ["zeros", "constant", "xzero", "yzero", "identical", "tiny", "huge", "normal", "tiny90", "tiny120", "huge85", "mixed"]
    for it_ in range(max(n, len(kinds_all))):
        N = ck.rng.choice([200, 512])
        g = np.random.default_rng(ck.rng.randint(0, 2 ** 31))
        kind = kinds_all[it_ % len(kinds_all)]
        x = g.standard_normal(N); y = g.standard_normal(N)
        if kind == "zeros": x[:] = 0; y[:] = 0
        elif kind == "constant": x[:] = 4.0; y[:] = -2.0
        elif kind == "xzero": x[:] = 0
        elif kind == "yzero": y[:] = 0
        elif kind == "identical": y = x.copy()
        elif kind == "tiny": x *= 1e-150; y *= 1e-150
        elif kind == "huge": x *= 1e120; y *= 1e120
        elif kind == "tiny90": x *= 1e-90; y *= 1e-90
        elif kind == "tiny120": x *= 1e-120; y *= 1e-120
        elif kind == "huge85": x *= 1e85; y *= 1e85
        elif kind == "mixed": x *= 1e-130; y *= 1e-40
        for cross in (False, True):
            kw = dict(Jdes=10, Kdes=3, order=ck.rng.choice([-1, 0, 1, 2]), scheduler=ck.rng.choice(["ltf", "vectorized_ltf"]), win="hann", backend=ck.rng.choice(["numba", "numpy"]))
            with np.errstate(all="ignore"):
                r = SpectrumAnalyzer(np.vstack([x, y]) if cross else x, 1.0, **kw).compute()
                cnt += 1
                for nm in must:
                    v = getattr(r, nm)
                    if v is None:
                        continue
                    if not np.all(np.isfinite(v)):
                        ck.violation("%s is not finite for a finite %s record (%s mode)" % (nm, kind, "cross" if cross else "auto"), dict(kind=kind, cross=cross, kw=kw, N=N), tag="nonfinite:" + nm)
                if cross:
                    m = r.coh > 0
                    for nm in errs:
                        v = getattr(r, nm)
                        if not np.all(np.isfinite(v[m])):
                            ck.violation("error bar %s is not finite where coherence is positive (%s record)" % (nm, kind), dict(kind=kind, cross=cross, kw=kw, N=N), tag="nonfinite-err:" + nm)
    ck.cov["finiteness_results"] = cnt


def run(ck):
    r = translate_attrs.regen()
    ck.obligation("translate:T2 SpectrumResult.__getattr__ -> gen/AttrsGen.v", r["ok"], r["error"] or "")
    ck.build_theorems("Properties/C13.v", deps=["Ingest.vo", "gen/AttrsGen.vo", "AttrThms.vo"])
    ingest_correspondence(ck)
    robustness(ck)
    untouched_finite(ck)
    finiteness(ck)
    ck.cov["rule"] = "layouts {2xN, Nx2, views, list, tuple, Fortran, strided, 1-D, dtypes} x NaN/+-Inf positions: caller bytes before/after, bitwise equality with the zero-filled 2xN run; finite outputs on zero/constant/degenerate/tiny/huge records"
    ck.samples = [dict(case="2xN with NaN vs zero-filled"), dict(case="Nx2 view"), dict(case="all-zero record, cross mode")]
    ck.assumptions += ["NumPy's ascontiguousarray / nan_to_num aliasing behaviour is observed on the implementation, not modelled", "overflow of |x|^2 for |x| > 1e150 is outside the sampled range"]


def replay(rec):
    print("replay input:", rec["violation"]["input"]); return 1
