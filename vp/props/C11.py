from .. import attr_oracles as O
from .attr_common import run_attr_property, replay_attr

DEPS = {"C20": ["AttrThms.vo"], "C09": ["AttrThms.vo", "gen/KernelsGen.vo", "GenRef.vo", "KernelCS.vo"], "C10": ["AttrThms.vo", "AttrThms2.vo"], "C11": ["AttrThms.vo", "gen/KernelsGen.vo", "GenRef.vo", "KernelCS.vo", "Rms.vo", "Scatter.vo"], "C06": ["AttrThms.vo"]}


def kernel_scatter(ck):
    """M2 of every backend (incl. the NumPy fallbacks run with a 2-segment gather chunk) = population variance of the per-segment cross products."""
    from .. import kernels as K
    n = 30 if ck.tier == "quick" else 400
    for _ in range(n):
        case = K.gen_case(ck.rng)
        if len(case["starts"]) < 3:
            case["starts"] = (case["starts"] * 5)[:5] if case["N"] == case["L"] else [ck.rng.randint(0, case["N"] - case["L"]) for _ in range(5)]
        Q = K.build_Q(case)
        for cross in (False, True):
            d = K.definition(case, cross, Q)
            for be in ("numba", "numpy", "numpy_chunk", "cuda"):
                r, _ = K.run_impl(be, case, cross, Q)
                amp, sc = K.budget(case, cross)
                if not (abs(r[4] - d[4]) <= 4 * amp * sc[4]) or r[4] < 0:
                    ck.violation("%s backend: M2=%r but the population variance of the per-segment cross products is %r (K=%d, L=%d, order=%d, %s)" %
                                 (be, r[4], d[4], len(case["starts"]), case["L"], case["order"], "cross" if cross else "auto"),
                                 dict(backend=be, cross=cross, L=case["L"], starts=case["starts"], order=case["order"], omega=case["omega"], kinds=case["kinds"]), tag="M2:" + be)


def dense_single_bin(ck):
    """Single-bin requests whose nominal segment shift is below one sample ((1-olap)*L < 1): the number of averages the empirical
    variance is divided by is the number of segments actually used."""
    import numpy as np
    from speckit.analysis import SpectrumAnalyzer
    for cross in (False, True):
        for L, olap, be in ((32, 0.99, "numba"), (64, 0.995, "numpy"), (20, 0.97, "numba")):
            N = 3000
            g = np.random.default_rng(ck.rng.randint(0, 2 ** 31))
            x = g.standard_normal(N); y = 0.4 * x + g.standard_normal(N)
            an = SpectrumAnalyzer(np.vstack([x, y]) if cross else x, 1.0, order=0, win="hann", olap=olap, backend=be)
            with np.errstate(all="ignore"):
                r = an.compute_single_bin(0.21, L=L)
            nd = len(np.asarray(r.D[0]).ravel()); M2 = float(r._data["M2"][0])
            inp = dict(L=L, olap=olap, backend=be, cross=cross, N=N)
            if int(r.navg[0]) != nd or int(r.K[0]) != nd:
                ck.violation("single bin, L=%d, olap=%g: navg=%d, K=%d but %d segment starts are reported" % (L, olap, int(r.navg[0]), int(r.K[0]), nd), inp, tag="navg=len(D)")
            elif abs(float(r.XY_emp_var[0]) - M2 / nd) > 1e-12 * (M2 / nd + 1e-300):
                ck.violation("single bin, L=%d, olap=%g: XY_emp_var=%r is not M2/K=%r with K=%d segments" % (L, olap, float(r.XY_emp_var[0]), M2 / nd, nd), inp, tag="emp_var")


def extra(ck):
    if "C11" == "C11":
        kernel_scatter(ck)
        dense_single_bin(ck)
    if "C11" == "C06":
        bad, worst = O.sinusoid_calibration(ck.rng, 8 if ck.tier == "quick" else 80)
        for tag, what, inp in bad:
            ck.violation(what, inp, tag=tag)
        ck.cov["sinusoid_calibration_worst_rel_error"] = worst


def run(ck):
    run_attr_property(ck, "C11", "Properties/C11.v", DEPS["C11"], O.oracle_c11, 25, 400, cross_only=("C11" == "C09"), extra=extra)


def replay(rec):
    return replay_attr(rec, O.oracle_c11)
