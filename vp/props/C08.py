import numpy as np
from .. import common, regen, kernels as K

BACKENDS = ("numba", "numpy", "cuda", "pyfunc")


def trend_sweep(ck):
    """Adding a polynomial of degree <= p to either channel leaves the statistics unchanged (relative to the trend size);
    degree p+1 changes them; order -1 = raw windowed segments (C01's definition with no detrending)."""
    n = 25 if ck.tier == "quick" else 400
    evals = 0
    for _ in range(n):
        case = K.gen_case(ck.rng, small=False)
        L = case["L"]; N = case["N"]
        g = np.random.default_rng(ck.rng.randint(0, 2 ** 31))
        case["x"] = g.standard_normal(N); case["y"] = g.standard_normal(N)
        if len(case["starts"]) < 2 and N > L:
            case["starts"] = [0, N - L]
        order = case["order"]
        Q = K.build_Q(case)
        t = np.arange(N, dtype=float)
        amp = ck.rng.choice([1.0, 1e3])
        coef1 = [amp * g.standard_normal() for _ in range(3)]; coef2 = [amp * g.standard_normal() for _ in range(3)]
        def poly(c, deg):
            tt = (t - N / 2) / max(N, 1)
            return sum(c[k] * tt ** k for k in range(deg + 1))
        for cross in (False, True):
            for be in BACKENDS:
                if be == "cuda" and L * len(case["starts"]) > 3000:
                    continue
                base, _ = K.run_impl(be, case, cross, Q); evals += 1
                amp_sc, sc = K.budget(case, cross)
                inp = dict(backend=be, cross=cross, L=L, N=N, starts=case["starts"], order=order, omega=case["omega"], amp=amp, kinds=case["kinds"])
                if order >= 0:
                    c2 = dict(case); c2["x"] = case["x"] + poly(coef1, order); c2["y"] = case["y"] + poly(coef2, order)
                    r2, _ = K.run_impl(be, c2, cross, Q); evals += 1
                    a2, sc2 = K.budget(c2, cross)
                    for i in range(5):
                        if abs(r2[i] - base[i]) > 40 * a2 * sc2[i] * (3 if order > 0 else 1):
                            ck.violation("adding a degree-%d polynomial (size %g) to the channels changes statistic %d from %r to %r with order=%d detrending (%s backend, L=%d)" %
                                         (order, amp, i, base[i], r2[i], order, be, L), inp, tag="invariance:%s:%d" % (be, order))
                            break
                if order in (-1, 0, 1) and L >= 8 and case["kinds"]["omega"] not in ("zero",):
                    deg = order + 1
                    c3 = dict(case); cc = [0.0] * 3; cc[deg] = 30.0 * amp
                    c3["x"] = case["x"] + poly(cc, deg)
                    r3, _ = K.run_impl(be, c3, cross, Q); evals += 1
                    d3 = K.definition(c3, cross, Q)
                    # the change must be the one the definition predicts (a trend of degree p+1 is NOT removed)
                    j = K.close(r3, d3, c3, cross, mult=4.0)
                    if j is not None:
                        ck.violation("a degree-%d trend with order=%d detrending: statistic %d is %r but the definition (no removal of that degree) gives %r (%s)" % (deg, order, j, r3[j], d3[j], be), inp, tag="notremoved:%s" % be)
                    if abs(d3[0] - K.definition(case, cross, Q)[0]) > 1e-6 * max(d3[0], 1e-300) and abs(r3[0] - base[0]) <= 1e-9 * max(abs(base[0]), 1e-300):
                        ck.violation("a degree-%d trend does not change the estimate although order=%d should not remove it (%s)" % (deg, order, be), inp, tag="overremoved:%s" % be)
    ck.cov["kernel_evaluations"] = evals


def basis_contract(ck):
    """Oracle contract for LAPACK's Q: orthonormal columns spanning 1, t, t^2."""
    from speckit.core import _build_Q
    worst = 0.0
    for L in [2, 3, 5, 16, 33, 64, 257, 1000, 1023, 1024, 1025, 2048, 4097, 20000] + [ck.rng.randint(1024, 60000) for _ in range(3)]:
        for order in (1, 2):
            if L < order + 1:
                continue
            Q = _build_Q(L, order)
            e1 = float(np.max(np.abs(Q.T @ Q - np.eye(order + 1))))
            t = np.linspace(-1, 1, L)
            V = np.stack([t ** k for k in range(order + 1)], axis=1)
            e2 = float(np.max(np.abs(V - Q @ (Q.T @ V))))
            worst = max(worst, e1, e2)
            if max(e1, e2) > 1e-10:
                ck.violation("_build_Q(L=%d, order=%d) is not an orthonormal basis of the polynomials (errors %g, %g)" % (L, order, e1, e2), dict(L=L, order=order), tag="basis")
    ck.cov["basis_contract_worst"] = worst


def analyzer_dispatch(ck):
    """Through the analyzer: every order uses the kernel family of that order on every backend (incl. CUDA simulator, cross mode)."""
    from speckit.analysis import SpectrumAnalyzer
    n = 3 if ck.tier == "quick" else 20
    for _ in range(n):
        N = 400
        g = np.random.default_rng(ck.rng.randint(0, 2 ** 31))
        x = g.standard_normal(N) + 5.0; y = g.standard_normal(N) - 3.0 + 0.01 * np.arange(N)
        for order in (-1, 0, 1, 2):
            for cross in (False, True):
                res = {}
                for be in ("numba", "numpy", "cuda"):
                    kw = dict(Jdes=8, Kdes=3, order=order, scheduler="ltf", win="hann", backend=be, Lmin=16)
                    with np.errstate(all="ignore"):
                        r = SpectrumAnalyzer(np.vstack([x, y]) if cross else x, 1.0, **kw).compute()
                    res[be] = np.concatenate([r._data["XX"], r._data["YY"], r._data["XY"].real, r._data["XY"].imag])
                for be in ("numpy", "cuda"):
                    sc = np.max(np.abs(res["numba"])) + 1e-300
                    if np.any(np.abs(res[be] - res["numba"]) > 1e-8 * sc):
                        ck.violation("order=%d %s: backend %s disagrees with numba through the analyzer (different detrending applied?)" % (order, "cross" if cross else "auto", be),
                                     dict(order=order, cross=cross, backend=be), tag="dispatch:%s" % be)


def order_interleaving(ck):
    """Analyses with different detrend orders on the same record in one process do not influence each other: the order-p estimate
    is the same before and after an analysis with another order (and with a cubic trend present the orders do differ)."""
    from speckit.analysis import SpectrumAnalyzer
    for it in range(2 if ck.tier == "quick" else 10):
        N = ck.rng.randint(380, 460)
        g = np.random.default_rng(ck.rng.randint(0, 2 ** 31))
        t = (np.arange(N) - N / 2) / N
        x = g.standard_normal(N) + 40 * t ** 3 + 9 * t ** 2; y = g.standard_normal(N) - 25 * t ** 3 + 4 * t
        for be in ("numba", "numpy"):
            for cross in (False, True):
                first = {}
                seq = [1, 2, 1, 0, 2, -1, 0, 1]
                for order in seq:
                    kw = dict(Jdes=8, Kdes=3, order=order, scheduler="ltf", win="hann", backend=be, Lmin=16)
                    with np.errstate(all="ignore"):
                        r = SpectrumAnalyzer(np.vstack([x, y]) if cross else x, 1.0, **kw).compute()
                    v = np.concatenate([r._data["XX"], r._data["YY"], r._data["XY"].real, r._data["XY"].imag])
                    if order in first and not np.array_equal(first[order], v):
                        ck.violation("order=%d %s analysis (%s backend) gives different numbers after analyses with other detrend orders in the same process (max rel change %g)" %
                                     (order, "cross" if cross else "auto", be, float(np.max(np.abs(v - first[order])) / (np.max(np.abs(first[order])) + 1e-300))),
                                     dict(order=order, cross=cross, backend=be, N=N, sequence=seq), tag="interleave:%s" % be)
                        break
                    first.setdefault(order, v)
                if 1 in first and 2 in first and np.allclose(first[1], first[2], rtol=1e-6, atol=0):
                    ck.violation("order=1 and order=2 analyses coincide although the record has a quadratic trend (%s backend)" % be, dict(backend=be, N=N), tag="interleave-same:%s" % be)


def single_bin_large_trend(ck):
    """compute_single_bin with order p: adding a polynomial of degree <= p that dwarfs the noise (1e6 x) leaves the estimate unchanged
    relative to the size of the trend; short segments (L <= p+1 and just above) included."""
    from speckit.analysis import SpectrumAnalyzer
    for be in ("numba", "numpy"):
        for order in (1, 2):
            for cross in (False, True):
                N = 2000
                g = np.random.default_rng(ck.rng.randint(0, 2 ** 31))
                t = (np.arange(N) - N / 2) / N
                x = g.standard_normal(N); y = g.standard_normal(N)
                A = 1e6
                px = A * (0.7 + 1.3 * t + (0.9 * t ** 2 if order == 2 else 0.0)); py = A * (-0.4 + 0.8 * t - (1.1 * t ** 2 if order == 2 else 0.0))
                for L in (400, 64, 7):
                    kw = dict(order=order, win="hann", olap=0.5, backend=be)
                    with np.errstate(all="ignore"):
                        r0 = SpectrumAnalyzer(np.vstack([x, y]) if cross else x, 1.0, **kw).compute_single_bin(2.3 / L, L=L)
                        r1 = SpectrumAnalyzer(np.vstack([x + px, y + py]) if cross else x + px, 1.0, **kw).compute_single_bin(2.3 / L, L=L)
                    for k in ("XX", "YY"):
                        a, b = float(r0._data[k][0]), float(r1._data[k][0])
                        # leftover of a float64 projection: ~1e-13 * A in amplitude, i.e. (1e-13 A)^2 L^2 in these raw sums; allow 1e4 x that
                        if abs(a - b) > 1e-6 * abs(a) + (1e-11 * A * L) ** 2:
                            ck.violation("single bin, order=%d, L=%d, %s backend: adding a degree-%d polynomial of size %g changes %s from %r to %r" % (order, L, be, order, A, k, a, b),
                                         dict(order=order, L=L, backend=be, cross=cross, A=A), tag="single-bin-trend:%s" % be)
                            break


def run(ck):
    r = regen.regen_kernels()
    ck.obligation("translate:T1 kernels -> gen/KernelsGen.v", r["ok"], r["error"] or "")
    ck.build_theorems("Properties/C08.v", deps=["gen/KernelsGen.vo", "GenRef.vo", "KernelThms2.vo", "DetrendPoly.vo"])
    basis_contract(ck)
    trend_sweep(ck)
    analyzer_dispatch(ck)
    order_interleaving(ck)
    single_bin_large_trend(ck)
    ck.cov["rule"] = "kernel cases (L in {5..257}, 4 backends, auto+cross): add degree<=p polynomials of size 1 or 1e3 to both channels (own coefficients) -> unchanged within the rounding budget of the trend; degree p+1 -> changes as the definition predicts; QR basis contract; analyzer dispatch per order on 3 backends"
    ck.samples = [dict(test="order 2, csd, numba, quadratic trends of size 1e3 on both channels")]
    ck.assumptions += ["orders 1,2 are proved for any basis with orthonormal columns; that LAPACK's Q is orthonormal and spans 1,t,t^2 is a contract validated numerically each run", "rounding relative to the size of the added trend"]


def replay(rec):
    print("replay input:", rec["violation"]["input"]); return 1
