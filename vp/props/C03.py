from .. import sched
from .sched_common import run_sched_property, replay_sched


def run(ck):
    run_sched_property(ck, "C03", sched.oracle_c03, "Properties/C03.v", 120, 700)


def replay(rec):
    return replay_sched(rec, sched.oracle_c03)
