from .. import attr_oracles as O
from .attr_common import run_attr_property, replay_attr

DEPS = {"C20": ["AttrThms.vo"], "C09": ["AttrThms.vo"], "C10": ["AttrThms.vo", "AttrThms2.vo"], "C11": ["AttrThms.vo", "gen/KernelsGen.vo"], "C06": ["AttrThms.vo", "gen/KernelsGen.vo", "GenRef.vo", "KernelLin.vo", "Sinusoid.vo"]}


def extra(ck):
    if "C06" == "C06":
        bad, worst = O.sinusoid_calibration(ck.rng, 24 if ck.tier == "quick" else 300)
        for tag, what, inp in bad:
            ck.violation(what, inp, tag=tag)
        ck.cov["sinusoid_calibration_worst_rel_error"] = worst


def run(ck):
    run_attr_property(ck, "C06", "Properties/C06.v", DEPS["C06"], O.oracle_c06, 20, 300, cross_only=("C06" == "C09"), extra=extra)


def replay(rec):
    return replay_attr(rec, O.oracle_c06)
