import numpy as np
from .. import sched, common
from .sched_common import run_sched_property, replay_sched, sched_kwargs


def nf_function(a, b, c, m, e):
    return lambda J: (a * J + b) // c + (e if (J * 7919) % m == 0 else 0)


def jdes_correspondence(ck):
    """find_Jdes_binary_search vs Coq jsearch on synthetic nf functions (monotone and perturbed)."""
    from speckit.utils import find_Jdes_binary_search
    cases = []
    n = 60 if ck.tier == "quick" else 600
    for i in range(n):
        a = ck.rng.choice([1, 2, 3, 7]); c = ck.rng.choice([1, 2, 5, 10, 1000]); b = ck.rng.randint(0, 50)
        m = ck.rng.choice([10 ** 9, 3, 5, 11]); e = ck.rng.choice([0, 1, -1, 5])
        g = nf_function(a, b, c, m, e)
        J0 = ck.rng.randint(50, 1100000)
        t = g(J0) + ck.rng.choice([0, 0, 0, 1, -1])
        calls = []
        def fake(**kw):
            calls.append(kw["Jdes"]); return {"nf": g(kw["Jdes"])}
        r = find_Jdes_binary_search(fake, t, N=1)
        cases.append(((a, b, c, m, e, t), r, len(calls)))
    body = "From Coq Require Import ZArith.\nFrom SK Require Import SchedThms2.\nOpen Scope Z_scope.\n"
    for (a, b, c, m, e, t), r, nc in cases:
        body += "Eval vm_compute in (match find_Jdes (fun J => (%d * J + %d) / %d + (if (J * 7919) mod %d =? 0 then %d else 0)) %d with Some (Some J) => J | Some None => -1 | None => -2 end).\n" % (a, b, c, m, e, t)
    res = common.run_case_files({"jdes_%d" % __import__("os").getpid(): body})
    rc, out = list(res.values())[0]
    evs = common.parse_evals(out)
    bad = []
    if rc != 0 or len(evs) != len(cases):
        bad.append("coq evaluation failed: " + out[-300:])
    else:
        for (par, r, nc), ev in zip(cases, evs):
            mv = int(common.tokens(ev)[0])
            iv = -1 if r is None else int(r)
            if mv != iv:
                bad.append("nf(J)=(%d*J+%d)//%d+pert(m=%d,e=%d), target %d: impl=%s model=%s" % (par + (iv, mv)))
            # direct oracle: a returned Jdes must produce exactly the target
            if r is not None and nf_function(*par[:5])(r) != par[5]:
                ck.violation("find_Jdes_binary_search returned Jdes=%d whose nf=%d != target %d" % (r, nf_function(*par[:5])(r), par[5]),
                             {"a": par[0], "b": par[1], "c": par[2], "m": par[3], "e": par[4], "target": par[5]}, tag="jdes:unsound")
            if nc > 21:
                ck.violation("find_Jdes_binary_search used %d probes (>21)" % nc, {"params": par}, tag="jdes:probes")
    ck.obligation("correspondence:find_Jdes_binary_search == jsearch model (result for synthetic nf functions)", not bad, "; ".join(bad[:3]))
    ck.cov["jdes_cases"] = len(cases)


def forced_nf(ck):
    """force_target_nf: the plan has exactly the requested number of bins, or RuntimeError."""
    from speckit.analysis import SpectrumAnalyzer
    n = 6 if ck.tier == "quick" else 60
    tried = 0
    for i in range(n):
        N = ck.rng.choice([2000, 5000, 12000]); x = np.zeros(N)
        nm = ck.rng.choice(["lpsd", "ltf", "vectorized_ltf"])
        t = ck.rng.choice([45, 120, 150, 200, 300, 333, 500, N // 3])
        kw = dict(olap=ck.rng.choice([0.5, 0.75]), Kdes=ck.rng.choice([10, 50]), Jdes=t, force_target_nf=True, scheduler=nm, win="hann")
        tried += 1
        try:
            p = SpectrumAnalyzer(x, 1.0, **kw).plan()
            if int(p["nf"]) != t or len(p["f"]) != t:
                ck.violation("force_target_nf: requested %d bins, plan has %d (no error raised)" % (t, int(p["nf"])),
                             dict(N=N, scheduler=nm, target=t, olap=kw["olap"], Kdes=kw["Kdes"]), tag="force:count")
        except RuntimeError:
            pass
        except Exception as e:
            ck.violation("force_target_nf raised %s: %s" % (type(e).__name__, str(e)[:100]),
                         dict(N=N, scheduler=nm, target=t, olap=kw["olap"], Kdes=kw["Kdes"]), tag="force:exc")
    ck.cov["forced_nf_cases"] = tried


def vec_vs_iter(ck, cfgs):
    """vectorised bin count within 10% of the iterative one (empirical statement about the lookup grid; swept)."""
    ratios = []
    for cfg in cfgs:
        a = sched.run_sched("ltf", cfg); b = sched.run_sched("vectorized_ltf", cfg)
        if not (a["ok"] and b["ok"]):
            continue
        ni, nv = len(a["plan"]["f"]), len(b["plan"]["f"])
        ratios.append(nv / ni)
        if abs(nv - ni) > 0.1 * ni:
            ck.violation("vectorized_ltf has %d bins, ltf has %d (differs by more than 10%%)" % (nv, ni),
                         dict(sched_kwargs(cfg), nf_iter=ni, nf_vec=nv), tag="vec10")
    if ratios:
        ck.cov["vec_over_iter_nf_ratio_min_max"] = [min(ratios), max(ratios)]
        ck.cov["vec_vs_iter_cases"] = len(ratios)


def extra(ck, cfgs):
    jdes_correspondence(ck)
    forced_nf(ck)
    vec_vs_iter(ck, cfgs)
    ck.assumptions.append("'vectorised bin count within 10% of the iterative one' is an empirical statement about a 10*Jdes-point lookup grid: swept, not proved")
    ck.assumptions.append("K >= Kdes and monotonicity of L/K along the plan: checked by the direct oracle on every sampled plan (theorem covers nearest-K, even spreading, overlap, log spacing, Jdes search)")


def run(ck):
    run_sched_property(ck, "C04", sched.oracle_c04, "Properties/C04.v", 100, 600, analyzer=True, extra=extra)
    # extra theorem file dependency
    res, _ = common.coq_make(["SchedThms2.vo", "SchedMono.vo"])
    for t, (ok, err) in res.items():
        ck.obligation("build:" + t, ok, err)


def replay(rec):
    inp = rec["violation"]["input"]
    if "scheduler" in inp and "target" not in inp:
        return replay_sched(rec, sched.oracle_c04)
    print("replay input:", inp)
    return 1
