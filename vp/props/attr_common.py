"""Common driver for the properties decided on the generated attribute table (C06, C09, C10, C11, C20)."""
import numpy as np
from .. import common, attrs, regen, translate_attrs


def info_brief(info):
    return {k: (v if not isinstance(v, np.ndarray) else "array(%d)" % len(v)) for k, v in info.items() if k not in ("x", "y")}


def run_attr_property(ck, pid, pfile, deps, oracle, nquick, nthorough, cross_only=False, extra=None):
    r = translate_attrs.regen()
    ck.obligation("translate:T2 SpectrumResult.__getattr__ -> gen/AttrsGen.v", r["ok"], r["error"] or "")
    if any(d.startswith("gen/Kernels") or d in ("GenRef.vo",) for d in deps):
        rk = regen.regen_kernels()
        ck.obligation("translate:T1 kernels -> gen/KernelsGen.v", rk["ok"], rk["error"] or "")
    ck.build_theorems(pfile, deps=["gen/AttrsGen.vo"] + list(deps))
    n = nquick if ck.tier == "quick" else nthorough
    ir = attrs.load_ir() if r["ok"] else None
    irbad = []
    coq_samples = []
    dist = {}
    made = 0
    def one():
        nonlocal made
        res, an, info = attrs.make_result(ck.rng, cross=True if cross_only else None)
        made += 1
        key = "%s/%s/%s" % ("cross" if info["cross"] else "auto", info["which"], info["kind"])
        dist[key] = dist.get(key, 0) + 1
        if ir is not None:
            for nm, what in attrs.check_ir(res, ir):
                irbad.append("%s (%s)" % (what, nm))
            if made <= 8:
                coq_samples.extend(attrs.coq_attr_samples(res, ir, ck.rng))
        for tag, what in list(oracle(res, an, info, ck.rng)) + attrs.plan_order_check(res, info):
            inp = info_brief(info); inp["seed_state"] = None
            inp["x"] = [float(v) for v in info["x"]]; inp["y"] = [float(v) for v in info["y"]]
            ck.violation(what, inp, tag=tag)
        return info
    infos = [one() for _ in range(n)]
    ck.obligation("correspondence:generated attribute table (IR of gen/AttrsGen.v) == attribute values of real results", not irbad, "; ".join(irbad[:4]))
    if ir is not None:
        cbad, ncoq = attrs.coq_eval_attrs(coq_samples, attrs.transcendental_names(ir))
        ck.obligation("correspondence:gen/AttrsGen.v definitions evaluated at binary64 (vm_compute) == attribute values of real results", not cbad, "; ".join(cbad[:4]))
        ck.cov["coq_attribute_evaluations"] = ncoq
    if extra:
        extra(ck)
    broken = [o for o in ck.obl if not o[1]]
    if broken and not any(v["kind"] == "failing-input" for v in ck.violations):
        for _ in range(5 * n):
            one()
            if any(v["kind"] == "failing-input" for v in ck.violations):
                break
    ck.cov.update({"results_analysed": made, "input_distribution": dist, "ir_mismatches": len(irbad),
                   "rule": "real analyses (auto/cross x full/single-bin/equal-K x data kinds incl. zero/constant/identical/scaled channels x 4 schedulers x orders x windows); "
                           "every attribute compared with the translator's table; direct property oracle per result"})
    ck.samples = [info_brief(i) for i in infos[:6]]
    ck.assumptions += ["T2 translator front end (fail-closed); np.sqrt/arcsin/angle/unwrap/log10 as real functions", "float rounding of derived quantities (compared within 1e-10..1e-13)"]


def replay_attr(rec, oracle):
    import random
    common.pin_env()
    v = rec["violation"]
    if v["kind"] != "failing-input":
        print("replay: obligations that no longer check:", v["input"].get("obligations")); return 1
    inp = v["input"]
    from speckit.analysis import SpectrumAnalyzer
    x, y = np.array(inp["x"]), np.array(inp["y"])
    data = np.vstack([x, y]) if inp["cross"] else x
    an = SpectrumAnalyzer(data, inp["fs"], **attrs.resolve_kw(inp["kw"]))
    res = an.compute()
    info = dict(inp); info["x"], info["y"] = x, y
    fails = list(oracle(res, an, info, random.Random(0))) + attrs.plan_order_check(res, info)
    print("replay:", fails or "property holds now")
    return 1 if fails else 0
