from .. import attr_oracles as O
from .attr_common import run_attr_property, replay_attr

DEPS = {"C20": ["AttrThms.vo", "Interp.vo"], "C09": ["AttrThms.vo"], "C10": ["AttrThms.vo", "AttrThms2.vo"], "C11": ["AttrThms.vo", "gen/KernelsGen.vo"], "C06": ["AttrThms.vo"]}


def interp_correspondence(ck):
    """get_measurement (np.interp, real and imaginary parts separately) vs Interp.interp at binary64."""
    import numpy as np
    from .. import attrs, common
    from ..common import fhex
    terms, exp = [], []
    for _ in range(6 if ck.tier == "quick" else 60):
        r, an, info = attrs.make_result(ck.rng, which="full")
        f = np.asarray(r.f, float)
        if len(f) < 3 or not np.all(np.diff(f) > 0):
            continue
        for nm in (["Gxx", "L"] + (["Gxy", "Hxy"] if r.iscsd else ["asd"])):
            tab = np.asarray(getattr(r, nm))
            j = ck.rng.randrange(len(f) - 1)
            qs = [float(f[j]), float(f[j] + 0.37 * (f[j + 1] - f[j])), float(f[0] * 0.5), float(f[-1] * 2), float(f[-1]), float(np.nextafter(f[j + 1], 0))]
            for q in qs:
                got = r.get_measurement(q, nm)
                xs = "[" + "; ".join(fhex(v) for v in f) + "]"
                if np.iscomplexobj(tab):
                    fp = "[" + "; ".join("(%s, %s)" % (fhex(v.real), fhex(v.imag)) for v in tab) + "]"
                    terms.append("Eval vm_compute in (interp_cpx FloatA %s %s %s)." % (fhex(q), xs, fp)); exp.append((nm, q, complex(got)))
                else:
                    fp = "[" + "; ".join(fhex(float(v)) for v in tab) + "]"
                    terms.append("Eval vm_compute in (interp FloatA %s (combine %s %s))." % (fhex(q), xs, fp)); exp.append((nm, q, complex(float(got), 0.0)))
    body = "From Coq Require Import ZArith List PrimFloat.\nFrom SK Require Import Arith Interp.\nImport ListNotations.\nOpen Scope float_scope.\n" + "\n".join(terms) + "\n"
    res = common.run_case_files({"interp_%d" % __import__("os").getpid(): body})
    rc, out = list(res.values())[0]
    evs = common.parse_evals(out)
    bad = []
    if rc != 0 or len(evs) != len(exp):
        bad.append("coq evaluation failed: " + out[-300:])
    else:
        for ev, (nm, q, val) in zip(evs, exp):
            t = [float(x) for x in common.tokens(ev)]
            m = complex(t[0], t[1]) if len(t) >= 2 else complex(t[0], 0.0)
            if not abs(m - val) <= 1e-12 * max(abs(m), abs(val)) + 1e-300:
                bad.append("get_measurement(%r, %r): implementation %r, model %r" % (q, nm, val, m))
    ck.obligation("correspondence:get_measurement == Interp.interp at binary64 (grid points, interior, both clamps; real and complex)", not bad, "; ".join(bad[:3]))
    ck.cov["interp_cases"] = len(exp)


def extra(ck):
    if "C20" == "C20":
        interp_correspondence(ck)
    if "C20" == "C06":
        bad, worst = O.sinusoid_calibration(ck.rng, 8 if ck.tier == "quick" else 80)
        for tag, what, inp in bad:
            ck.violation(what, inp, tag=tag)
        ck.cov["sinusoid_calibration_worst_rel_error"] = worst


def run(ck):
    run_attr_property(ck, "C20", "Properties/C20.v", DEPS["C20"], O.oracle_c20, 25, 400, cross_only=("C20" == "C09"), extra=extra)


def replay(rec):
    return replay_attr(rec, O.oracle_c20)
