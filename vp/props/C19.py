import math
import numpy as np
from .. import common, attrs
from ..common import fhex


def correspondence(ck):
    """integral_rms vs Rms.integral_rms at binary64 (bit-exact: elementwise numpy + sequential cumsum)."""
    from speckit.dsp import integral_rms
    n = 40 if ck.tier == "quick" else 500
    terms, exp = [], []
    for _ in range(n):
        m = ck.rng.choice([1, 2, 3, 7, 40])
        f = np.cumsum([ck.rng.uniform(0.01, 2.0) for _ in range(m)])
        if ck.rng.random() < 0.15 and m > 2:
            f[1] = f[0]     # repeated grid point
        a = np.array([abs(ck.rng.gauss(0, 1)) * 10 ** ck.rng.uniform(-3, 3) for _ in range(m)])
        kind = ck.rng.choice(["inside", "grid", "wide", "point", "outside", "none"])
        if kind == "inside":
            b = sorted([ck.rng.uniform(f[0], f[-1]), ck.rng.uniform(f[0], f[-1])])
        elif kind == "grid":
            i, j = sorted([ck.rng.randrange(m), ck.rng.randrange(m)]); b = [f[i], f[j]]
        elif kind == "wide":
            b = [f[0] - 1, f[-1] + 1]
        elif kind == "point":
            b = [f[ck.rng.randrange(m)]] * 2
        elif kind == "outside":
            b = [f[-1] + 1, f[-1] + 2]
        else:
            b = None
        impl = float(integral_rms(f, a, None if b is None else tuple(b)))
        bb = [-math.inf, math.inf] if b is None else b
        terms.append("Eval vm_compute in (integral_rms FloatA PrimFloat.sqrt %s %s %s %s)." % (
            "[" + "; ".join(fhex(v) for v in f) + "]", "[" + "; ".join(fhex(v) for v in a) + "]", fhex(bb[0]), fhex(bb[1])))
        exp.append((list(map(float, f)), list(map(float, a)), b, impl, kind))
    body = "From Coq Require Import ZArith List PrimFloat.\nFrom SK Require Import Arith Rms.\nImport ListNotations.\nOpen Scope float_scope.\n" + "\n".join(terms) + "\n"
    res = common.run_case_files({"rms_%d" % __import__("os").getpid(): body})
    rc, out = list(res.values())[0]
    evs = common.parse_evals(out)
    bad = []
    if rc != 0 or len(evs) != len(exp):
        bad.append("coq evaluation failed: " + out[-300:])
    else:
        for ev, (f, a, b, impl, kind) in zip(evs, exp):
            m = float(common.tokens(ev)[0])
            if not (m == impl or abs(m - impl) <= 4e-16 * abs(impl)):
                bad.append("band kind %s, %d points: implementation %r, model %r" % (kind, len(f), impl, m))
    ck.obligation("correspondence:integral_rms == Rms.integral_rms at binary64", not bad, "; ".join(bad[:3]))
    ck.cov["rms_cases"] = len(exp)


def oracle(ck):
    import pandas as pd
    from speckit.dsp import integral_rms, polynomial_detrend, df_detrend
    n = 40 if ck.tier == "quick" else 500
    for _ in range(n):
        # --- RMS: trapezoid over in-band grid points, additivity, monotonicity
        m = ck.rng.choice([3, 8, 50])
        f = np.cumsum([ck.rng.uniform(0.01, 2.0) for _ in range(m)])
        a = np.array([abs(ck.rng.gauss(0, 1)) for _ in range(m)])
        i, j, k = sorted(ck.rng.sample(range(m), 3)) if m >= 3 else (0, 1, 2)
        def trap(lo, hi):
            sel = (f >= lo) & (f <= hi)
            ff, yy = f[sel], a[sel] ** 2
            return float(np.sum(0.5 * (yy[1:] + yy[:-1]) * np.diff(ff))) if len(ff) > 1 else 0.0
        inp = dict(f=[float(v) for v in f], asd=[float(v) for v in a], i=i, j=j, k=k)
        r_ij = float(integral_rms(f, a, (f[i], f[j]))); r_jk = float(integral_rms(f, a, (f[j], f[k]))); r_ik = float(integral_rms(f, a, (f[i], f[k])))
        if abs(r_ij ** 2 - trap(f[i], f[j])) > 1e-12 * (1 + trap(f[i], f[j])):
            ck.violation("integral_rms^2=%r is not the trapezoidal integral %r of ASD^2 over the in-band grid points" % (r_ij ** 2, trap(f[i], f[j])), inp, tag="trapz")
        if abs(r_ij ** 2 + r_jk ** 2 - r_ik ** 2) > 1e-11 * (1 + r_ik ** 2):
            ck.violation("band powers are not additive over adjacent bands sharing a grid point: %r + %r != %r" % (r_ij ** 2, r_jk ** 2, r_ik ** 2), inp, tag="additive")
        lo, hi = sorted([ck.rng.uniform(f[0], f[-1]), ck.rng.uniform(f[0], f[-1])])
        lo2, hi2 = lo - ck.rng.uniform(0, 1), hi + ck.rng.uniform(0, 1)
        if float(integral_rms(f, a, (lo, hi))) > float(integral_rms(f, a, (lo2, hi2))) * (1 + 1e-12) + 1e-300:
            ck.violation("band RMS decreases when the band is widened", dict(inp, band=(lo, hi), wider=(lo2, hi2)), tag="monotone")
        if float(integral_rms(f, a, (f[j], f[j]))) != 0.0 or float(integral_rms(f, a, (f[-1] + 1, f[-1] + 2))) != 0.0:
            ck.violation("a point band or a band outside the grid does not give 0", inp, tag="point")
        # --- detrend: residual orthogonal to polynomials of degree <= p, kills them, idempotent
        order = ck.rng.choice([0, 1, 2, 3, 4, 5]); N = ck.rng.choice([order + 1, order + 2, 20, 100])
        x = np.array([ck.rng.gauss(0, 1) for _ in range(N)])
        t = np.arange(N, dtype=float)
        r = np.asarray(polynomial_detrend(x, order=order))
        tn = (t - t.mean()) / max(N, 1)
        sc = float(np.linalg.norm(x)) + 1e-300
        worst = max(abs(float(np.dot(r, tn ** q))) / (sc * (np.linalg.norm(tn ** q) + 1e-300)) for q in range(order + 1))
        di = dict(order=order, N=N, x=[float(v) for v in x])
        if worst > 1e-7:
            ck.violation("detrended series is not orthogonal to polynomials of degree <= %d (normalised inner product %g)" % (order, worst), di, tag="orthogonal")
        cp = [ck.rng.uniform(-2, 2) for _ in range(order + 1)]
        ply = sum(c * tn ** q for q, c in enumerate(cp))
        z = np.asarray(polynomial_detrend(ply, order=order))
        if np.max(np.abs(z)) > 1e-7 * (np.max(np.abs(ply)) + 1e-300):
            ck.violation("a polynomial of degree %d is not removed by order-%d detrending (residual %g)" % (order, order, float(np.max(np.abs(z)))), di, tag="kills")
        r2 = np.asarray(polynomial_detrend(r, order=order))
        if np.max(np.abs(r2 - r)) > 1e-7 * sc:
            ck.violation("detrending is not idempotent (order %d)" % order, di, tag="idempotent")
        if N >= 2:
            short = np.asarray(polynomial_detrend(x[:2], order=5))
            if np.max(np.abs(short)) > 1e-9 * (1 + np.max(np.abs(x[:2]))):
                ck.violation("a 2-sample series detrended with order 5 (reduced to 1) is not zero", di, tag="short")
    # integer-dtype series (counts, ADC codes): the residual must still have zero mean / be orthogonal to polynomials
    for dt in (np.int64, np.int32, np.uint16):
        for order in (0, 1, 2):
            xi = np.array([ck.rng.randint(0, 9000) for _ in range(37)]).astype(dt)
            ri = np.asarray(polynomial_detrend(xi, order=order), float)
            if abs(float(np.mean(ri))) > 1e-8 * (1 + float(np.max(np.abs(xi.astype(float))))):
                ck.violation("order-%d detrend of an %s series leaves mean %r" % (order, np.dtype(dt).name, float(np.mean(ri))), dict(dtype=np.dtype(dt).name, order=order, x=[int(v) for v in xi]), tag="int-dtype")
    dfi = pd.DataFrame({"counts": np.arange(40, dtype=np.int64) % 7 + 3, "v": np.linspace(0, 1, 40)})
    oi = df_detrend(dfi, order=0)
    if abs(float(oi["counts_detrended"].mean())) > 1e-9 or abs(float(oi["v_detrended"].mean())) > 1e-12:
        ck.violation("df_detrend(order=0) leaves a non-zero mean in an integer column (%r)" % float(oi["counts_detrended"].mean()), dict(columns=["counts", "v"]), tag="int-dtype-df")
    # DataFrame wrapper: per selected numeric column
    df = pd.DataFrame({"a": np.arange(50.0) ** 2, "b": np.sin(np.arange(50) / 3.0) + 0.1 * np.arange(50), "s": ["x"] * 50})
    out = df_detrend(df, columns=["a", "s"], order=2)
    if not ("a_detrended" in out and "b_detrended" not in out and "s_detrended" not in out and np.allclose(out["a_detrended"].to_numpy(), polynomial_detrend(df["a"].to_numpy(), order=2)) and np.array_equal(out["a"].to_numpy(), df["a"].to_numpy())):
        ck.violation("df_detrend does not detrend exactly the selected numeric columns", dict(columns=["a", "s"]), tag="df")
    # long records: the residual is orthogonal to the polynomials on ALL samples
    for nlong in (250000, 600001):
        gL = np.random.default_rng(ck.rng.randint(0, 2 ** 31))
        xL = gL.standard_normal(nlong)
        tL = (np.arange(nlong) - nlong / 2) / nlong
        for order in (1, 3):
            rL = polynomial_detrend(xL, order=order)
            worstL = max(abs(float(np.dot(rL, tL ** k))) / (np.linalg.norm(rL) * np.linalg.norm(tL ** k) + 1e-300) for k in range(order + 1))
            if worstL > 1e-7:
                ck.violation("order-%d detrend of a %d-sample record is not orthogonal to polynomials of degree <= %d (normalised inner product %g)" % (order, nlong, order, worstL), dict(n=nlong, order=order), tag="orthogonal-long")
    # grids at nano/micro-hertz (bin widths far below 1e-8 Hz): still the trapezoid over the in-band points
    for lab, fg, bands in (("logspace(-9,-7)", np.logspace(-9, -7, 40), [(None, None), (2e-9, 5e-8)]), ("1e-7..1 Hz log grid", np.logspace(-7, 0, 80), [(1e-7, 4e-7), (1.2e-7, 9e-7), (1e-3, 1e-1)])):
        ag = 1.0 + 0.5 * np.cos(np.arange(len(fg)) * 0.7)
        for lo, hi in bands:
            sel = np.ones(len(fg), bool) if lo is None else (fg >= lo) & (fg <= hi)
            want = math.sqrt(float(np.sum(0.5 * (ag[sel][1:] ** 2 + ag[sel][:-1] ** 2) * np.diff(fg[sel])))) if sel.sum() > 1 else 0.0
            got = float(integral_rms(fg, ag, None if lo is None else (lo, hi)))
            if abs(got - want) > 1e-9 * (want + 1e-300):
                ck.violation("integral_rms on the grid %s, band %r: %r but the trapezoid over the in-band points gives %r" % (lab, (lo, hi), got, want), dict(grid=lab, band=(lo, hi)), tag="tiny-grid")
    # grids that are not float64 (integer frequencies, float32 arrays): band edges are compared as the numbers given, not cast to the grid's type
    for lab, fg in (("integer grid", np.arange(0, 51)), ("float32 grid", np.linspace(0, 5, 51).astype(np.float32))):
        ag = 1.0 + 0.3 * np.sin(np.arange(len(fg)))
        f64 = np.asarray(fg, float)
        for lo, hi in ((2.5, 7.5), (0.6, 3.05), (1.0, 4.0), (0.31, 0.69)):
            sel = (f64 >= lo) & (f64 <= hi)
            want = math.sqrt(float(np.sum(0.5 * (ag[sel][1:] ** 2 + ag[sel][:-1] ** 2) * np.diff(f64[sel])))) if sel.sum() > 1 else 0.0
            got = float(integral_rms(fg, ag, (lo, hi)))
            if abs(got - want) > 1e-6 * (1 + want):
                ck.violation("integral_rms on an %s, band (%r, %r): %r but the trapezoid over the in-band points gives %r" % (lab, lo, hi, got, want), dict(grid=lab, band=(lo, hi)), tag="grid-dtype")
    # DataFrame wrapper on frames whose index is not 0..n-1 (time-stamped, sliced, filtered, re-sorted): row by row, not by label;
    # in place or not, orders 0..3; applied twice it changes nothing
    basef = pd.DataFrame({"a": 0.02 * np.arange(80.0) ** 2 + np.sin(np.arange(80) / 3.0), "b": np.cos(np.arange(80) / 5.0) + 0.3 * np.arange(80)})
    frames = (("time index", basef.set_index(pd.Index(1000.0 + 0.25 * np.arange(80)))), ("row slice", basef.iloc[15:70]),
              ("boolean filter", basef[np.arange(80) % 3 != 0]), ("re-sorted", basef.sort_values("b", ascending=False)))
    for lab, fr in frames:
        for order in (0, 1, 3):
            for inplace in (False, True):
                o = df_detrend(fr, columns=["a"], order=order, inplace=inplace)
                col = "a" if inplace else "a_detrended"
                want = polynomial_detrend(fr["a"].to_numpy(), order=order)
                got = o[col].to_numpy() if col in o else None
                if got is None or len(got) != len(want) or not np.allclose(got, want, rtol=0, atol=1e-9 * (1 + np.max(np.abs(want))), equal_nan=False):
                    ck.violation("df_detrend on a %s frame (order %d, inplace=%s) does not return polynomial_detrend(column) row by row" % (lab, order, inplace), dict(frame=lab, order=order, inplace=inplace), tag="df-index")
                    continue
                o2 = df_detrend(o, columns=[col], order=order, inplace=True)
                if not np.allclose(o2[col].to_numpy(), got, rtol=0, atol=1e-8 * (1 + np.max(np.abs(fr["a"].to_numpy())))):
                    ck.violation("df_detrend applied twice changes the column (%s frame, order %d)" % (lab, order), dict(frame=lab, order=order), tag="df-idempotent")
    # result's own RMS method = integral_rms of its asd; Parseval link on broadband data (a few percent)
    from speckit.analysis import SpectrumAnalyzer
    for _ in range(2 if ck.tier == "quick" else 12):
        N = 20000
        g = np.random.default_rng(ck.rng.randint(0, 2 ** 31))
        x = g.standard_normal(N) * ck.rng.choice([1.0, 3.0])
        r = SpectrumAnalyzer(x, 10.0, Jdes=300, Kdes=50, order=0, scheduler="ltf", win="hann").compute()
        band = (float(r.f[3]), float(r.f[-4]))
        if abs(r.get_rms(band) - float(integral_rms(r.f, r.asd, band))) > 1e-12 * (1 + r.get_rms(band)):
            ck.violation("get_rms differs from integral_rms of the result's own ASD", dict(band=band), tag="get_rms")
        # several bands queried on the SAME result, edges that differ only below a millihertz (slow data): each is its own integral
        rl = SpectrumAnalyzer(x[:6000], 0.02, Jdes=60, Kdes=8, order=0, scheduler="ltf", win="hann").compute()
        fl = np.asarray(rl.f, float)
        qs = [(float(fl[1]), float(fl[6])), (float(fl[2]), float(fl[9])), (float(fl[1]) * 1.01, float(fl[12])), (float(fl[4]), float(fl[5])), (float(fl[1]), float(fl[6]))]
        for bq in qs:
            got = rl.get_rms(bq); want = float(integral_rms(rl.f, rl.asd, bq))
            if abs(got - want) > 1e-12 * (1 + abs(want)):
                ck.violation("get_rms(%r) on a result already queried for other bands returns %r, the trapezoid integral is %r" % (bq, got, want), dict(bands=qs, fs=0.02), tag="get_rms-repeat")
                break
        full = r.get_rms()
        if abs(full / float(np.std(x)) - 1) > 0.06:
            ck.violation("full-band RMS %r differs from the time-domain RMS %r by more than a few percent" % (full, float(np.std(x))), dict(N=N), tag="parseval")
    ck.cov["oracle_cases"] = n


def run(ck):
    ck.build_theorems("Properties/C19.v", deps=["Rms.vo", "LeastSquares.vo"])
    correspondence(ck)
    oracle(ck)
    ck.cov["rule"] = "random grids (1..50 points, repeated points), ASD arrays over 6 decades, bands {inside, on grid points, wide, point, outside, none}; detrend orders 0..5 incl. N = order+1 and 2-sample series; DataFrame wrapper; Parseval link on white records"
    ck.samples = [dict(case="grid of 7 points, band on grid points"), dict(case="order 3 detrend, N=4")]
    ck.assumptions += ["np.polyfit returns a solution of the normal equations (its residual is checked on every sampled series); the theorems for orders >= 1 are stated for any such solution", "Parseval link is statistical (6% allowance)"]


def replay(rec):
    print("replay input:", rec["violation"]["input"]); return 1
