import math
import numpy as np
from .. import common
from ..common import fhex


class FixedPhases:
    """Stands in for numpy's Generator in fftnoise: phases are quarter turns, so the rotations are exact units."""
    def __init__(self, quarters):
        self.q = np.asarray(quarters, float)
    def random(self, n):
        assert n == len(self.q)
        return self.q / 4.0


def correspondence(ck):
    import speckit.noise as NZ
    # (1) section coefficients, bit-exact
    terms, exp = [], []
    for _ in range(12 if ck.tier == "quick" else 120):
        fs = ck.rng.choice([10.0, 100.0, 48000.0]); fmin = fs * 10 ** ck.rng.uniform(-9.5, -1); fmax = fs * ck.rng.uniform(0.2, 0.5)
        alpha = ck.rng.choice([0.01, 0.5, 1.0, 1.5, 2.0])
        g = NZ.alpha_noise(fs, fmin, fmax, alpha, init_filter=False, seed=1)
        k = ck.rng.randrange(g._num_spectra)
        # recompute the section corner frequencies exactly as the constructor does
        lw0 = np.log10(2.0 * np.pi * fmin); lw1 = np.log10(2.0 * np.pi * fmax)
        ns = int(np.ceil(4.5 * (lw1 - lw0))); dp = (lw1 - lw0) / ns
        i = np.arange(ns); lp = lw0 + dp * 0.5 * ((2.0 * i + 1.0) - alpha / 2.0)
        fmn = np.power(10.0, lp) / (2.0 * np.pi); fmx = np.power(10.0, lp + (dp * alpha / 2.0)) / (2.0 * np.pi)
        terms.append("Eval vm_compute in (sec_coeffs FloatA (%s)%%float (%s)%%float (%s)%%float (%s)%%float)." % (fhex(np.pi), fhex(fs), fhex(fmn[k]), fhex(fmx[k])))
        exp.append(("coef", (float(g._a_coeffs[k][0]), float(g._a_coeffs[k][1]), -float(g._b_coeffs[k][1])), dict(fs=fs, fmin=fmin, fmax=fmax, alpha=alpha, k=k, ns=ns, got_ns=g._num_spectra)))
    # (2) Hermitian construction with integer spectra and quarter-turn phases
    herm_cases = []
    for _ in range(10 if ck.tier == "quick" else 80):
        N = ck.rng.choice([2, 3, 4, 5, 8, 9, 16, 17])
        F = [(ck.rng.randint(-5, 5), ck.rng.randint(-5, 5)) for _ in range(N)]
        Npp = (N - 1) // 2
        q = [ck.rng.randrange(4) for _ in range(Npp)]
        x = NZ.fftnoise(np.array([complex(a, b) for a, b in F]), rng=FixedPhases(q))
        Fp = np.fft.fft(x)
        rot = ["(%d, %d)" % [(1, 0), (0, 1), (-1, 0), (0, -1)][v] for v in q]
        Fl = "[" + "; ".join("(%d, %d)" % ab for ab in F) + "]"
        Rl = "[(0,0); " + "; ".join(rot) + "]" if rot else "[(0,0)]"
        terms.append("Eval vm_compute in (map (fun k => hermZ %d (fun i => nth (Z.to_nat i) %s (0,0)) (fun i => nth (Z.to_nat i) %s (1,0)) (Z.of_nat k)) (seq 0 %d))." % (N, Fl, Rl, N))
        exp.append(("herm", Fp, dict(N=N, F=F, quarters=q, imag_max=float(np.max(np.abs(np.imag(x)))) if np.iscomplexobj(x) else 0.0)))
    body = ("From Coq Require Import ZArith List PrimFloat.\nFrom SK Require Import Arith NoiseSpec.\nImport ListNotations.\nOpen Scope Z_scope.\n"
            "Definition hermZ := herm (Z * Z) (fun z => (fst z, - snd z)) (fun z => (fst z, 0)) (fun a b => (fst a * fst b - snd a * snd b, fst a * snd b + snd a * fst b)).\n" + "\n".join(terms) + "\n")
    res = common.run_case_files({"nspec_%d" % __import__("os").getpid(): body})
    rc, out = list(res.values())[0]
    evs = common.parse_evals(out)
    bad = []
    if rc != 0 or len(evs) != len(exp):
        bad.append("coq evaluation failed: " + out[-400:])
    else:
        for ev, (kind, val, inp) in zip(evs, exp):
            t = common.tokens(ev)
            if kind == "coef":
                m = tuple(float(v) for v in t[:3])
                if m != val or inp["ns"] != inp["got_ns"]:
                    bad.append("section %d of alpha_noise(%r): implementation (a0,a1,b1)=%r sections=%d, model %r sections=%d" % (inp["k"], inp, val, inp["got_ns"], m, inp["ns"]))
            else:
                z = [int(v) for v in t]
                m = np.array([complex(z[i], z[i + 1]) for i in range(0, len(z), 2)])
                if len(m) != len(val) or np.max(np.abs(m - val)) > 1e-9 * (1 + np.max(np.abs(m))):
                    bad.append("fftnoise N=%d: spectrum of the synthesised series differs from the Hermitian construction model (%r vs %r)" % (inp["N"], list(np.round(val, 6)[:4]), list(m[:4])))
    ck.obligation("correspondence:alpha_noise section coefficients == NoiseSpec.sec_coeffs (bit-exact); fftnoise spectrum == NoiseSpec.herm (integer spectra, quarter-turn phases)", not bad, "; ".join(bad[:3]))
    ck.cov["correspondence_cases"] = len(exp)


def analytic_density(g, f):
    """Two-sided density of the shaping filter at frequency f (Hz): scaling^2 * prod |H_i|^2 * (white two-sided psd = 1)."""
    w = 2 * np.pi * f / g.fs
    z = np.exp(-1j * w)
    H = np.ones_like(z)
    for a, b in zip(g._a_coeffs, g._b_coeffs):
        H = H * (a[0] + a[1] * z) / (b[0] + b[1] * z)
    return (g._scaling ** 2) * np.abs(H) ** 2


def oracle(ck):
    import speckit.noise as NZ
    n = 25 if ck.tier == "quick" else 400
    worst = 0.0
    for _ in range(n):
        fs = ck.rng.choice([10.0, 100.0, 1000.0]); dec = ck.rng.choice([1, 2, 3, 5, 7, 8, 8.5, 9.5])
        fmax = fs * ck.rng.uniform(0.25, 0.5); fmin = fmax / 10 ** dec
        alpha = ck.rng.choice([0.01, 0.25, 0.5, 1.0, 1.5, 2.0, ck.rng.uniform(0.01, 2.0)])
        g = NZ.alpha_noise(fs, fmin, fmax, alpha, init_filter=False, seed=3)
        lo, hi = 1.5 * g.fmin, g.fmax / 1.5
        inp = dict(fs=fs, fmin=fmin, fmax=fmax, alpha=alpha)
        # the shaped band covers the requested one up to the quantisation of the stage spacing (observed factor <= 1.25)
        if not (g.fmax >= fmax / 1.5 and g.fmin <= 1.5 * fmin):
            ck.violation("alpha=%g: the shaped band [%g, %g] does not cover the requested band [%g, %g] (%d stages)" % (alpha, g.fmin, g.fmax, fmin, fmax, len(g._a_coeffs)), inp, tag="band-coverage")
        if hi > lo * 1.2:
            f = np.geomspace(lo, hi, 200)
            dB = 10 * np.log10(analytic_density(g, f) * f ** alpha)
            worst = max(worst, float(np.max(np.abs(dB))))
            if np.max(np.abs(dB)) > 2.0:
                j = int(np.argmax(np.abs(dB)))
                ck.violation("alpha=%g: analytic density deviates from f^-alpha by %.2f dB at f=%g (between the corners %g and %g)" % (alpha, float(dB[j]), float(f[j]), g.fmin, g.fmax), inp, tag="powerlaw")
        if abs(float(g._scaling) - 1.0 / g.fmax ** (alpha / 2)) > 1e-12 * float(g._scaling):
            ck.violation("output scaling is not fmax_eff^(-alpha/2)", inp, tag="scaling")
    # same band and exponent, different sampling rates, in one process (coefficients depend on fs)
    for alpha in (1.0, 2.0, 0.5):
        for fs in (250.0, 1000.0, 4000.0, 250.0):
            g = NZ.alpha_noise(fs, 1.0, 100.0, alpha, init_filter=False, seed=5)
            f = np.geomspace(3 * g.fmin, g.fmax / 3, 100)
            dB = 10 * np.log10(analytic_density(g, f) * f ** alpha)
            if np.max(np.abs(dB)) > 2.0:
                ck.violation("alpha_noise(fs=%g, 1, 100, alpha=%g) built after generators with other sampling rates: density off by %.1f dB" % (fs, alpha, float(np.max(np.abs(dB)))), dict(fs=fs, alpha=alpha, sequence=[250.0, 1000.0, 4000.0, 250.0]), tag="fs-sequence")
            a0, a1, b1 = g._calc_filter_coeffs(np.array([1.0]), np.array([2.0]))
            den = fs + np.pi * 1.0
            if abs(float(a0[0]) - (fs + 2 * np.pi) / den) > 1e-12 or abs(float(b1[0]) - (fs - np.pi) / den) > 1e-12:
                ck.violation("_calc_filter_coeffs ignores the generator's own sampling rate (fs=%g)" % fs, dict(fs=fs, alpha=alpha), tag="fs-coeffs")
    ck.cov["powerlaw_worst_dB"] = worst
    # white noise: rms = sqrt(psd * fs), sample variance consistent
    for _ in range(4):
        fs = ck.rng.choice([1.0, 50.0]); psd = ck.rng.choice([0.5, 2.0])
        w = NZ.white_noise(fs, psd=psd, seed=ck.rng.randint(1, 10 ** 6))
        if abs(float(w.rms) - math.sqrt(psd * fs)) > 1e-12 * math.sqrt(psd * fs):
            ck.violation("white_noise.rms=%r is not sqrt(psd*fs)=%r" % (float(w.rms), math.sqrt(psd * fs)), dict(fs=fs, psd=psd), tag="white-rms")
        x = w.get_series(200000)
        if abs(float(np.var(x)) / (psd * fs) - 1) > 0.03:
            ck.violation("white noise variance %r differs from psd*fs=%r" % (float(np.var(x)), psd * fs), dict(fs=fs, psd=psd), tag="white-var")
        w2 = NZ.white_noise(fs, psd=psd, seed=ck.rng.randint(1, 10 ** 6))
        xs_ = np.array([w2.get_sample() for _ in range(3 * 4096 + 100)])       # several refills of the sample buffer
        if abs(float(np.var(xs_)) / (psd * fs) - 1) > 0.08 or abs(float(np.var(xs_[4096:])) / (psd * fs) - 1) > 0.1:
            ck.violation("white noise drawn sample by sample has variance %r, not psd*fs=%r" % (float(np.var(xs_)), psd * fs), dict(fs=fs, psd=psd, path="get_sample"), tag="white-var")
    # FFT synthesiser: real series, DFT magnitudes exactly the prescribed ones; band-limited noise has no power outside its band
    for _ in range(12 if ck.tier == "quick" else 150):
        N = ck.rng.choice([2, 3, 8, 9, 64, 101, 256])
        mags = np.array([ck.rng.uniform(0, 3) for _ in range(N)])
        mags[1:] = 0.5 * (mags[1:] + mags[1:][::-1])      # symmetric prescribed magnitudes
        rng = np.random.default_rng(ck.rng.randint(0, 2 ** 31))
        x = NZ.fftnoise(mags.astype(complex), rng=rng)
        inp = dict(N=N, mags=[float(v) for v in mags])
        if np.iscomplexobj(x) or not np.all(np.isfinite(x)):
            ck.violation("fftnoise does not return a finite real series", inp, tag="fft-real"); continue
        if np.max(np.abs(np.abs(np.fft.fft(x)) - mags)) > 1e-10 * (1 + np.max(mags)):
            ck.violation("DFT magnitudes of the synthesised series differ from the prescribed ones by %g (N=%d)" % (float(np.max(np.abs(np.abs(np.fft.fft(x)) - mags))), N), inp, tag="fft-mags")
        ns = ck.rng.choice([16, 33, 256, 1001]); sr = ck.rng.choice([1.0, 100.0])
        a, b = sorted([ck.rng.uniform(0, sr / 2), ck.rng.uniform(0, sr / 2)])
        y = NZ.band_limited_noise(a, b, samples=ns, samplerate=sr, rng=np.random.default_rng(ck.rng.randint(0, 2 ** 31)))
        fr = np.abs(np.fft.fftfreq(ns, d=1.0 / sr)); Y = np.abs(np.fft.fft(y))
        inb = (fr >= a) & (fr <= b)
        if np.max(Y[~inb], initial=0.0) > 1e-9 or (inb.any() and np.max(np.abs(Y[inb] - 1)) > 1e-9):
            ck.violation("band_limited_noise(%g, %g): spectrum is not 1 inside / 0 outside the band" % (a, b), dict(min_freq=a, max_freq=b, samples=ns, samplerate=sr), tag="band")
    # bands narrower than the bin spacing: strictly between two bins (no in-band bin: nothing may be excited), and exactly one bin
    for ns, sr in ((1000, 1000.0), (33, 1.0), (256, 100.0)):
        k = ck.rng.randint(2, ns // 2 - 2); df_ = sr / ns
        for a, b in (((k + 0.2) * df_, (k + 0.7) * df_), (k * df_, k * df_), ((k - 0.4) * df_, (k + 0.4) * df_)):
            y = NZ.band_limited_noise(a, b, samples=ns, samplerate=sr, rng=np.random.default_rng(ck.rng.randint(0, 2 ** 31)))
            fr = np.abs(np.fft.fftfreq(ns, d=1.0 / sr)); Y = np.abs(np.fft.fft(y))
            inb = (fr >= a) & (fr <= b)
            if np.max(Y[~inb], initial=0.0) > 1e-9 or (inb.any() and np.max(np.abs(Y[inb] - 1)) > 1e-9):
                ck.violation("band_limited_noise(%r, %r) with bin spacing %g: power outside the band (max out-of-band magnitude %g)" % (a, b, df_, float(np.max(Y[~inb], initial=0.0))),
                             dict(min_freq=a, max_freq=b, samples=ns, samplerate=sr), tag="band")
    ck.cov["oracle_cases"] = n


def run(ck):
    ck.build_theorems("Properties/C18.v", deps=["NoiseSpec.vo", "Idft.vo"])
    correspondence(ck)
    oracle(ck)
    ck.cov["rule"] = "alpha in [0.01,2], 1..7 decades, fs in {10,100,1000}: analytic product of the closed-form section responses vs f^-alpha on [1.5 fmin_eff, fmax_eff/1.5] (2 dB allowance); spectra of odd and even length incl. N=2,3; random bands"
    ck.samples = [dict(alpha=1.0, decades=3), dict(N=9, test="Hermitian construction with quarter-turn phases")]
    ck.assumptions += ["PARTIAL: the 1 dB power-law fit is swept analytically with a 2 dB allowance on the interior of the band (probing shows -1.6 dB at the corners for alpha=2)", "np.fft.ifft/fft are exact inverses up to rounding"]


def replay(rec):
    print("replay input:", rec["violation"]["input"]); return 1
