import numpy as np
from .. import common, regen, translate_attrs

BACKENDS = ("numba", "numpy", "cuda")


_LAYOUT = [0]


def analyse(x, y, fs, kw, backend):
    """The pair is passed in one of the documented layouts in turn: 2 x N, N x 2 (one column per channel), list of channels."""
    from speckit.analysis import SpectrumAnalyzer
    _LAYOUT[0] += 1
    data = [np.vstack([x, y]), np.column_stack([x, y]), [x, y]][_LAYOUT[0] % 3]
    with np.errstate(all="ignore"):
        return SpectrumAnalyzer(data, fs, backend=backend, **kw).compute()


def sweep(ck):
    n = 2 if ck.tier == "quick" else 25
    runs = 0
    worst_phase = 0.0
    for it in range(4 * n):
        N = 1500 if it < 4 else ck.rng.choice([1500, 3000]); fs = ck.rng.choice([1.0, 10.0])      # N <= 1500: the CUDA simulator is included
        g = np.random.default_rng(ck.rng.randint(0, 2 ** 31))
        x = g.standard_normal(N)
        order = [-1, 0, 1, 2][it % 4]
        d = ck.rng.choice([1, 2, 3])
        kw = dict(Jdes=15, Kdes=8, order=order, scheduler=ck.rng.choice(["ltf", "vectorized_ltf", "lpsd", "new_ltf"]), win=ck.rng.choice(["hann", "kaiser"]), psll=120,
                  Lmin=(64 * d if ck.rng.random() < 0.8 else 1), olap=0.5)
        if kw["scheduler"] == "lpsd":
            kw["Lmin"] = 1
        gain = ck.rng.choice([-2.5, 0.3, 1.0, 7.0])
        trend = ck.rng.choice([0.0, 50.0])
        t = np.arange(N) / N
        xg = x + trend * (1 + t) if order >= 1 else x + (trend if order == 0 else 0.0)
        ref = {}
        for be in BACKENDS:
            if be == "cuda" and N > 1500:
                continue
            inp = dict(N=N, fs=fs, kw=kw, backend=be, gain=gain, trend=trend, delay=d)
            # (a) static gain
            r = analyse(xg, gain * xg, fs, kw, be); runs += 1
            m = r._data["XX"] > 1e-20 * np.max(r._data["XX"])
            if np.any(np.abs(r.Hxy[m] - gain) > 1e-6 * abs(gain)) or np.any(np.abs(r.coh[m] - 1) > 1e-6):
                j = int(np.nonzero(m)[0][np.argmax(np.abs(r.Hxy[m] - gain))])
                ck.violation("y = %g*x: Hxy=%r (coh=%r) at f=%r with backend %s, order %d" % (gain, complex(r.Hxy[j]), float(r.coh[j]), float(r.f[j]), be, order), inp, tag="gain:" + be)
            # (b) pure delay: phase = -2 pi f d / fs
            y = np.concatenate([np.zeros(d), x[:-d]])
            r = analyse(x, y, fs, kw, be); runs += 1
            th = 2 * np.pi * np.asarray(r.f) * d / fs
            L = np.asarray(r.L, float)
            sel = (th > 0.15) & (th < 2.9) & (L >= 32 * d) & (np.asarray(r.navg) >= 4)
            if np.any(sel):
                err = np.angle(r.Hxy[sel] * np.exp(1j * th[sel]))
                worst_phase = max(worst_phase, float(np.max(np.abs(err))))
                tol = 0.35
                if np.any(np.abs(err) > tol):
                    j = int(np.nonzero(sel)[0][np.argmax(np.abs(err))])
                    ck.violation("y = x delayed by %d samples: phase(Hxy)=%.3f rad at f=%r, expected %.3f (backend %s, order %d)" %
                                 (d, float(np.angle(r.Hxy[j])), float(r.f[j]), -float(th[j]), be, order), inp, tag="delay:" + be)
                if np.any(np.abs(np.abs(r.Hxy[sel]) - 1) > 0.3):
                    ck.violation("y = delayed x: |Hxy| far from 1 (backend %s)" % be, inp, tag="delaymag:" + be)
            ref[be] = r.Hxy.copy()
            # the estimate (and its phase views) is the same before and after the conjugate / residual / export views are read
            h0 = np.array(r.Hxy, copy=True); ph0 = np.array(r.cf_rad, copy=True)
            _ = r.Hyx; _ = r.GyySx; _ = r.Gyx
            try:
                dfx = r.to_dataframe()
            except Exception:
                dfx = None
            if not np.array_equal(np.asarray(r.Hxy), h0, equal_nan=True) or not np.array_equal(np.asarray(r.tf), h0, equal_nan=True) or not np.array_equal(np.asarray(r.cf_rad), ph0, equal_nan=True):
                ck.violation("y = x delayed by %d samples: Hxy / tf / cf_rad change after Hyx, GyySx and the DataFrame export have been read (phase %.3f -> %.3f at f=%r, backend %s)" %
                             (d, float(ph0[len(ph0) // 2]), float(np.asarray(r.cf_rad)[len(ph0) // 2]), float(r.f[len(ph0) // 2]), be), inp, tag="views:" + be)
            elif dfx is not None and "Hxy" in dfx.columns and not np.array_equal(np.asarray(dfx["Hxy"]), h0, equal_nan=True):
                ck.violation("y = delayed x: the exported Hxy column differs from the estimate (backend %s)" % be, inp, tag="views:" + be)
            # a bin averaged over a single segment (L = N) keeps the phase: Hxy = Y/X there
            from speckit.analysis import SpectrumAnalyzer
            fq = ck.rng.uniform(0.08, 0.4) * fs / d
            with np.errstate(all="ignore"):
                r1 = SpectrumAnalyzer(np.vstack([x, y]), fs, backend=be, **kw).compute_single_bin(fq, L=N); runs += 1
            th1 = 2 * np.pi * fq * d / fs
            if int(r1.navg[0]) == 1 and abs(float(np.angle(r1.Hxy[0] * np.exp(1j * th1)))) > 0.35:
                ck.violation("y = x delayed by %d samples, single segment (L = N): phase(Hxy)=%.3f rad at f=%r, expected %.3f (backend %s, order %d)" %
                             (d, float(np.angle(r1.Hxy[0])), fq, -th1, be, order), dict(inp, single_bin=fq), tag="delay1:" + be)
        # (c) backends agree identically (to rounding)
        for be in ref:
            if be != "numba" and "numba" in ref and np.any(np.abs(ref[be] - ref["numba"]) > 1e-8 * (1 + np.abs(ref["numba"]))):
                ck.violation("Hxy differs between numba and %s backends" % be, dict(N=N, fs=fs, kw=kw, delay=d), tag="backends:" + be)
    ck.cov["analyses"] = runs
    ck.cov["worst_phase_error_rad"] = worst_phase


def run(ck):
    r1 = regen.regen_kernels(); r2 = translate_attrs.regen()
    ck.obligation("translate:T1 kernels -> gen/KernelsGen.v", r1["ok"], r1["error"] or "")
    ck.obligation("translate:T2 attributes -> gen/AttrsGen.v", r2["ok"], r2["error"] or "")
    ck.build_theorems("Properties/C07.v", deps=["gen/KernelsGen.vo", "gen/AttrsGen.vo", "GenRef.vo", "KernelThms2.vo", "AttrThms3.vo", "KernelLin.vo", "Sinusoid.vo"])
    sweep(ck)
    ck.cov["rule"] = "random records; y = g*x (with DC/linear trend so the two channels' trends differ) and y = x delayed by d in {1,2,3}; 4 schedulers x orders x windows x 3 backends; Hxy = g, coh = 1; phase = -2 pi f d/fs within 0.35 rad on bins with L >= 32 d"
    ck.samples = [dict(test="gain -2.5 with trend, order 1, numba"), dict(test="delay 2 samples, numpy backend")]
    ck.assumptions += ["the d/L edge effect of a general record is an approximation statement: swept with a 0.35 rad allowance, exact theorem given per segment/sinusoid only", "CUDA via the simulator"]


def replay(rec):
    print("replay input:", rec["violation"]["input"]); return 1
