import numpy as np
from .. import common
from ..common import fhex

HEADER = "From Coq Require Import ZArith List PrimFloat.\nFrom SK Require Import Arith Noise.\nImport ListNotations.\nOpen Scope float_scope.\n"


def flist(v):
    return "[" + "; ".join(fhex(float(t)) for t in v) + "]"


def make_gen(kind, par, seed, init):
    import speckit.noise as NZ
    if kind == "white":
        return NZ.white_noise(par["fs"], psd=par["psd"], seed=seed)
    if kind == "red":
        return NZ.red_noise(par["fs"], par["fmin"], init_filter=init, seed=seed)
    if kind == "pink":
        return NZ.pink_noise(par["fs"], par["fmin"], par["fmax"], init_filter=init, seed=seed)
    return NZ.alpha_noise(par["fs"], par["fmin"], par["fmax"], par["alpha"], init_filter=init, seed=seed)


def gen_params(rng, kind):
    fs = rng.choice([10.0, 100.0, 1000.0])
    if kind == "white":
        return dict(fs=fs, psd=rng.choice([1.0, 0.25, 7.0]))
    fmin = fs * rng.choice([0.01, 0.05, 0.2])
    if kind == "red":
        return dict(fs=fs, fmin=fmin)
    fmax = fs * rng.choice([0.3, 0.45, 0.5])
    return dict(fs=fs, fmin=fmin, fmax=fmax, alpha=(1.0 if kind == "pink" else rng.choice([0.01, 0.5, 1.5, 2.0])))


def size_sequence(rng):
    fam = rng.choice(["zeros", "ones", "mixed", "big", "lead0", "one-then-more"])
    if fam == "zeros":
        return [0, rng.randint(1, 12), 0, rng.randint(1, 5), 0]
    if fam == "ones":
        return [1] * rng.randint(2, 6)
    if fam == "big":
        return [rng.randint(1, 30), 4100, rng.randint(0, 3)]
    if fam == "lead0":
        return [0, 0, rng.randint(1, 20)]
    if fam == "one-then-more":
        return [1, rng.randint(2, 9), 1, rng.randint(0, 4)]
    return [rng.randint(0, 9) for _ in range(rng.randint(2, 6))]


def model_inputs(g, kind):
    """(sections, initial state, scaling, stream offset) read from a freshly constructed generator (before any request)."""
    if kind == "white":
        return [], [], 1.0
    if kind == "red":
        return [(float(g._a[0]), 0.0, float(g._b[1]))], [float(g._zi[0])], float(g._scaling)
    return [(float(a[0]), float(a[1]), float(b[1])) for a, b in zip(g._a_coeffs, g._b_coeffs)], [float(z[0]) for z in g._zi_states], float(g._scaling)


def run(ck):
    import speckit.noise as NZ
    ck.build_theorems("Properties/C17.v", deps=["Noise.vo", "NoiseDF.vo"])
    n = 24 if ck.tier == "quick" else 300
    terms, expect = [], []
    dist = {}
    model_shape_errors = []
    for i in range(n):
        kind = ck.rng.choice(["white", "red", "alpha", "pink"])
        par = gen_params(ck.rng, kind)
        seed = ck.rng.choice([0, 1, 7, 42, 2 ** 32 + 5, ck.rng.randint(0, 10 ** 6)])
        sizes = size_sequence(ck.rng)
        dist["%s/%s" % (kind, "+".join(str(min(s, 2)) for s in sizes[:4]))] = dist.get("%s/..." % kind, 0) + 1
        inp = dict(kind=kind, params=par, seed=seed, sizes=sizes)
        # --- direct oracle on the implementation
        g1 = make_gen(kind, par, seed, False); g2 = make_gen(kind, par, seed, False); g3 = make_gen(kind, par, seed, False)
        try:
            secs, z0, scale = model_inputs(g3, kind)
        except Exception as e:      # the generator's internals no longer have the modelled shape: the model part is skipped for this case
            secs = None; model_shape_errors.append("%s: %s: %s" % (kind, type(e).__name__, str(e)[:80]))
        parts = [np.asarray(g1.get_series(s), float) for s in sizes]
        a = np.concatenate(parts) if parts else np.zeros(0)
        b = np.asarray(g2.get_series(int(sum(sizes))), float)
        if not np.array_equal(a, b):
            j = int(np.nonzero(a != b)[0][0]) if len(a) == len(b) else -1
            ck.violation("%s: block requests %s differ from one request of %d samples (first difference at sample %d)" % (kind, sizes, sum(sizes), j), inp, tag="chunk:" + kind)
        # continuation after the sequence must also agree (final state carried)
        if not np.array_equal(np.asarray(g1.get_series(5)), np.asarray(g2.get_series(5))):
            ck.violation("%s: the stream continues differently after chunked requests %s" % (kind, sizes), inp, tag="chunkstate:" + kind)
        # same seed -> same samples (two fresh instances), different seeds differ
        h1 = make_gen(kind, par, seed, False); h2 = make_gen(kind, par, seed, False)
        if not np.array_equal(np.asarray(h1.get_series(16)), np.asarray(h2.get_series(16))):
            ck.violation("%s: two instances built with seed %r produce different samples" % (kind, seed), inp, tag="seed:" + kind)
        # get_sample run = prefix of the stream
        k1 = make_gen(kind, par, seed, False); k2 = make_gen(kind, par, seed, False)
        nrun = ck.rng.choice([9, 9, 4100, 8200, 12300])      # runs longer than the generators' internal prefetch buffers too
        run_s = np.array([k1.get_sample() for _ in range(nrun)]); ref_s = np.asarray(k2.get_series(nrun))
        if not np.array_equal(run_s, ref_s):
            j = int(np.nonzero(run_s != ref_s)[0][0])
            ck.violation("%s: a run of %d get_sample() calls is not the prefix of the stream (first difference at sample %d)" % (kind, nrun, j), dict(inp, get_sample_run=nrun), tag="sample:" + kind)
        # (get_series after get_sample continues beyond the prefetched buffer by design: mixing the two call styles is not
        #  part of the property, which speaks of sequences of get_series calls and of get_sample runs)
        # --- model: white stream recorded from a twin RNG; cascade/generator evaluated in Coq at binary64
        if kind != "white" and sum(sizes) <= 600 and secs is not None:
            total = int(sum(sizes))
            rms = float(np.sqrt(1.0 * par["fs"]))
            rng = np.random.default_rng(seed)
            off = 1 if kind == "red" else 0      # red_noise draws one value for its initial state first
            stream = rng.normal(loc=0.0, scale=rms, size=off + total) if off == 0 else np.concatenate([[rng.normal(scale=rms)], rng.normal(loc=0.0, scale=rms, size=total)])
            cs = "[" + "; ".join("mkSec FloatA %s %s %s" % (fhex(p), fhex(q), fhex(r)) for p, q, r in secs) + "]"
            t = ("(let st := %s in let res := get_many FloatA (fun n => nth n st 0) %s %s (mkG FloatA %d %s) [%s]%%nat in (fst res, zstate FloatA (snd res)))"
                 % (flist(stream), cs, fhex(scale), off, flist(z0), "; ".join(str(s) for s in sizes)))
            zfin = [float(g1._zi[0])] if kind == "red" else None
            terms.append(t); expect.append((inp, a, kind, g1))
    # evaluate the models
    bad = []
    files = {}
    for s in range(0, len(terms), 8):
        files["noise_%d_%d" % (__import__("os").getpid(), s)] = HEADER + "".join("Eval vm_compute in %s.\n" % t for t in terms[s:s + 8])
    res = common.run_case_files(files)
    evs = []
    for k in sorted(files, key=lambda x: int(x.rsplit("_", 1)[1])):
        rc, out = res[k]
        e = common.parse_evals(out)
        if rc != 0:
            bad.append("coq evaluation failed: " + out[-300:])
        evs += e
    if len(evs) == len(expect):
        for ev, (inp, a, kind, g1) in zip(evs, expect):
            i = ev.index("]")
            outs = [float(t) for t in common.tokens(ev[:i + 1])]
            if len(outs) != len(a) or not np.array_equal(np.asarray(outs), a):
                bad.append("%s seed=%r sizes=%s: implementation samples differ from the cascade model (first impl %r, model %r)" % (kind, inp["seed"], inp["sizes"], list(a[:2]), outs[:2]))
    elif not bad:
        bad.append("expected %d model results, got %d" % (len(expect), len(evs)))
    ck.obligation("model-shape:generator internals (sections, initial state, scaling) readable as modelled", not model_shape_errors, "; ".join(model_shape_errors[:3]))
    ck.obligation("correspondence:alpha/pink/red generators == Noise.get_many at binary64 (bit-exact samples, recorded white stream)", not bad, "; ".join(bad[:3]))
    # oracle contract: Generator.normal is chunk-consistent and seed-deterministic
    ok = True
    for seed in (0, 3, 99):
        r1 = np.random.default_rng(seed); r2 = np.random.default_rng(seed)
        u = np.concatenate([r1.normal(0, 2.0, size=k) for k in (0, 1, 5, 0, 3)]); v = r2.normal(0, 2.0, size=9)
        ok &= bool(np.array_equal(u, v))
    ck.obligation("oracle-contract:numpy Generator.normal is chunk-consistent for a fixed seed", ok, "")
    ck.cov.update({"generator_cases": n, "model_cases": len(expect), "input_distribution": dist,
                   "rule": "4 generators x parameter sets x seeds (incl. 0 and > 2^32) x size sequences with zeros, ones, > 4096; chunked vs single request (bitwise), continuation, same-seed twins, get_sample runs; cascade model evaluated by vm_compute on the recorded white stream"})
    ck.samples = [e[0] for e in expect[:5]]
    ck.assumptions += ["numpy Generator.normal (seed determinism, sequential draws) — validated each run", "scipy.signal.lfilter = DF2T first-order section (red noise), lfilter_zi taken as data", "init_filter settling is exercised only through get_series itself"]


def replay(rec):
    print("replay input:", rec["violation"]["input"]); return 1
