import numpy as np
from .. import common, translate_dispatch, attrs, kernels as K

KERNELS = ["_stats_%s_%s%s" % (m, c, s) for m in ("win_only", "detrend0", "poly") for c in ("auto", "csd") for s in ("", "_np", "_cuda")]


class Recorder:
    """Rebinds the 18 kernel entry points in speckit.analysis to recording shims (no repo hook)."""
    def __init__(self):
        import speckit.analysis as A
        self.A = A; self.calls = []; self.saved = {}
    def __enter__(self):
        for nm in KERNELS:
            if hasattr(self.A, nm):
                f = getattr(self.A, nm); self.saved[nm] = f
                def shim(*args, _f=f, _nm=nm, **kw):
                    out = _f(*args, **kw)
                    self.calls.append((_nm, args, tuple(float(v) for v in out)))
                    return out
                setattr(self.A, nm, shim)
        return self
    def __exit__(self, *a):
        for nm, f in self.saved.items():
            setattr(self.A, nm, f)


def build_window(cfg, L, kw=None):
    if kw is not None:
        wu = attrs.user_window(kw, L)
        if wu is not None:
            return wu
    wf = cfg["win_func"]
    w = wf(L + 1, cfg["alpha"] * np.pi)[:-1] if cfg.get("alpha") is not None else wf(L)
    return np.asarray(w, float)


def expected_name(order, cross, backend):
    fam = {-1: "win_only", 0: "detrend0", 1: "poly", 2: "poly"}[order]
    return "_stats_%s_%s%s" % (fam, "csd" if cross else "auto", {"numba": "", "numpy": "_np", "cuda": "_cuda"}[backend])


def check_calls(ck, an, r, calls, info, what):
    """The recorded kernel calls vs the model: callee of the order/mode/backend, (x1[,x2], D[j], L[j], win(L[j]), 2*pi*f[j]/fs[, Q(L,order)]), slot j."""
    from speckit.core import _build_Q, _select_backend
    d = r._data
    nf = len(d["f"])
    bad = []
    if len(calls) != nf:
        return ["%s made %d kernel calls for %d bins" % (what, len(calls), nf)]
    order = an.config["order"]; cross = an.iscsd
    for j, (nm, args, out) in enumerate(calls):
        L = int(d["L"][j]); starts = np.asarray(d["D"][j]).ravel()
        be = _select_backend(len(starts), an.config["backend"])
        if nm != expected_name(order, cross, be):
            bad.append("bin %d: called %s, expected %s" % (j, nm, expected_name(order, cross, be))); break
        a = list(args)
        x1 = a.pop(0)
        if not np.array_equal(x1, an.x1):
            bad.append("bin %d: first channel argument is not the first channel" % j); break
        if cross:
            x2 = a.pop(0)
            if not np.array_equal(x2, an.x2):
                bad.append("bin %d: second channel argument is not the second channel" % j); break
        st, Lc, w, om = a[:4]
        if not np.array_equal(np.asarray(st), starts):
            bad.append("bin %d: starts passed to the kernel are not the plan's D[%d]" % (j, j)); break
        if int(Lc) != L:
            bad.append("bin %d: L=%d passed, plan has %d" % (j, int(Lc), L)); break
        wexp = build_window(an.config, L, info.get("kw") if isinstance(info, dict) else None)
        if not np.array_equal(np.asarray(w), wexp):
            bad.append("bin %d: window passed to the kernel is not the configured window of length %d" % (j, L)); break
        if float(om) != 2.0 * np.pi * float(d["f"][j]) / float(an.fs):
            bad.append("bin %d: omega=%r is not 2*pi*f/fs=%r" % (j, float(om), 2.0 * np.pi * float(d["f"][j]) / float(an.fs))); break
        if order in (1, 2):
            if len(a) != 5 or not np.array_equal(np.asarray(a[4]), _build_Q(L, order)):
                bad.append("bin %d: detrend basis is not Q(L=%d, order=%d)" % (j, L, order)); break
        S1, S2 = float(np.sum(wexp)), float(np.sum(wexp * wexp))
        got = (float(d["XX"][j]), float(d["YY"][j]), float(d["XY"][j].real), float(d["XY"][j].imag), float(d["M2"][j]))
        if not all((p == q) or (p != p and q == 0.0) or (abs(q) == float("inf") and p == 0.0) for p, q in zip(got, out)):
            bad.append("bin %d: stored statistics %r are not what the kernel returned %r" % (j, got, out)); break
        if float(d["S12"][j]) != S1 * S1 or float(d["S2"][j]) != S2:
            bad.append("bin %d: stored window sums are not (sum w)^2, sum w^2 of the length-%d window" % (j, L)); break
    return bad


def reference_bin(an, r, j, info=None):
    """Independent reference: windowed, detrended, segment-averaged estimate at f[j], L[j], D[j] (extended precision),
    on the record the CALLER passed (not the analyzer's stored copy), whatever layout it was passed in."""
    d = r._data
    L = int(d["L"][j])
    xs = np.asarray(info["x"], float) if info is not None else np.asarray(an.x1, float)
    ys = (np.asarray(info["y"], float) if info is not None else np.asarray(an.x2, float)) if an.iscsd else xs
    case = dict(N=an.nx, L=L, starts=[int(s) for s in np.asarray(d["D"][j]).ravel()], order=an.config["order"], w=build_window(an.config, L, info.get("kw") if info is not None else None),
                omega=2.0 * np.pi * float(d["f"][j]) / float(an.fs), x=xs, y=ys, kinds={})
    ref = K.definition(case, an.iscsd)
    got = (float(d["XX"][j]), float(d["YY"][j]), float(d["XY"][j].real), float(d["XY"][j].imag), float(d["M2"][j]))
    if not an.iscsd:
        ref = (ref[0], ref[0], ref[0], 0.0, ref[4])
    return K.close(got, ref, case, an.iscsd, mult=4.0), got, ref


def single_bin_correspondence(ck):
    """Segmentation of compute_single_bin vs SingleBin.sb_starts / segL_of_fres at binary64 (bit-exact)."""
    from speckit.analysis import SpectrumAnalyzer
    from ..common import fhex
    terms, exp = [], []
    n = 30 if ck.tier == "quick" else 300
    for _ in range(n):
        N = ck.rng.choice([64, 100, 257, 1000]); fs = ck.rng.choice([1.0, 2.0, 100.0])
        olap = ck.rng.choice([0.0, 0.5, 0.75, 0.9, ck.rng.random() * 0.95])
        an = SpectrumAnalyzer(np.zeros(N), fs, olap=olap, win="hann", order=-1)
        if ck.rng.random() < 0.5:
            L = ck.rng.choice([1, 2, N, N - 1, N // 2, ck.rng.randint(1, N)])
            r = an.compute_single_bin(fs / 8, L=L)
            terms.append("Eval vm_compute in (%d, sb_starts FloatA %d %d %s)." % (L, N, L, fhex(olap)))
        else:
            fres = fs / ck.rng.uniform(0.3, N)
            try:
                r = an.compute_single_bin(fs / 8, fres=fres)
            except ValueError:
                continue
            terms.append("Eval vm_compute in (let L := segL_of_fres FloatA %s %s in (L, sb_starts FloatA %d L %s))." % (fhex(fs), fhex(fres), N, fhex(olap)))
        exp.append((N, int(r._data["L"][0]), [int(v) for v in np.asarray(r._data["D"][0]).ravel()], int(r._data["K"][0]), olap))
    body = "From Coq Require Import ZArith List PrimFloat.\nFrom SK Require Import Arith SingleBin.\nImport ListNotations.\nOpen Scope Z_scope.\nOpen Scope float_scope.\n" + "\n".join(terms) + "\n"
    res = common.run_case_files({"sbin_%d" % __import__("os").getpid(): body})
    rc, out = list(res.values())[0]
    evs = common.parse_evals(out)
    bad = []
    if rc != 0 or len(evs) != len(exp):
        bad.append("coq evaluation failed: " + out[-300:])
    else:
        for ev, (N, L, D, K, olap) in zip(evs, exp):
            t = [int(v) for v in common.tokens(ev)]
            if t[0] != L or t[1:] != D or K != len(D):
                bad.append("N=%d olap=%r: implementation L=%d K=%d D=%s..., model L=%d D=%s..." % (N, olap, L, K, D[:4], t[0], t[1:5]))
    ck.obligation("correspondence:compute_single_bin segmentation == SingleBin.sb_starts / segL_of_fres at binary64 (bit-exact)", not bad, "; ".join(bad[:3]))
    ck.cov["single_bin_segmentations"] = len(exp)


def run(ck):
    from speckit.analysis import SpectrumAnalyzer
    r = translate_dispatch.regen()
    ck.obligation("translate:T3 dispatch of _lpsd_core / compute_single_bin -> gen/DispatchGen.v", r["ok"], r["error"] or "")
    ck.build_theorems("Properties/C05.v", deps=["Dispatch.vo", "Hist.vo", "SingleBin.vo", "gen/DispatchGen.vo"])
    single_bin_correspondence(ck)
    n = 14 if ck.tier == "quick" else 200
    corr_bad, nb, dist = [], 0, {}
    for i in range(n):
        backend = ck.rng.choice(["numba", "numba", "numpy", "cuda"])
        which = "full" if i % 7 == 2 else ck.rng.choice(["full", "full", "single"])
        with Recorder() as rec:
            res, an, info = attrs.make_result(ck.rng, which=which, backend=backend, kind=ck.rng.choice(["independent", "coupled", "walk"]),
                                              cross=(True if i % 5 == 1 else None), layout=("Nx2" if i % 5 == 1 else None),
                                              scheduler=("dup:ltf" if i % 7 == 2 else None))
        key = "%s/%s/order%d/%s" % (which, backend, info["order"], "cross" if info["cross"] else "auto")
        dist[key] = dist.get(key, 0) + 1
        if backend == "cuda" and len(res._data["f"]) > 40:
            pass
        bad = check_calls(ck, an, res, rec.calls, info, "compute()" if which == "full" else "compute_single_bin()")
        corr_bad += bad
        inp = dict(which=which, backend=backend, cross=info["cross"], kw=info["kw"], fs=info["fs"], N=info["N"], kind=info["kind"])
        for b_ in bad:
            if "stored window sums" in b_:      # a clause of the property itself: the analysis that shows it is the failing input
                ck.violation(b_, inp, tag="window-sums")
        # independent reference on a few bins
        nfb = len(res._data["f"])
        for j in sorted(set([0, nfb - 1, ck.rng.randrange(nfb)])):
            if int(res._data["L"][j]) * int(res._data["K"][j]) > 60000:
                continue
            nb += 1
            c, got, ref = reference_bin(an, res, j, info)
            if c is not None:
                ck.violation("bin %d (f=%r, L=%d, K=%d): statistic %d is %r but the reference estimator on the result's own plan gives %r" %
                             (j, float(res._data["f"][j]), int(res._data["L"][j]), int(res._data["K"][j]), c, got[c], ref[c]), inp, tag="reference")
        if which == "single":
            d = res._data
            L = int(d["L"][0]); st = np.asarray(d["D"][0]).ravel()
            if int(d["K"][0]) != len(st) or int(d["navg"][0]) != len(st) or st.min() < 0 or st.max() + L > an.nx:
                ck.violation("single-bin analysis reports K=%d navg=%d with %d starts (L=%d, N=%d)" % (int(d["K"][0]), int(d["navg"][0]), len(st), L, an.nx), inp, tag="single:segmentation")
        else:
            # band restriction = in-band bins of the unrestricted analysis, every field aligned
            f = np.asarray(res._data["f"])
            if len(f) >= 4:
                a, b = sorted(ck.rng.sample(range(len(f)), 2))
                for band in [(float(f[a]), float(f[b])), (float(f[a]) * 1.0000001, float(f[b]) * 0.9999999), (float(f[a]), float(f[a]))]:
                    data = np.vstack([info["x"], info["y"]]) if info["cross"] else info["x"]
                    m = (f >= band[0]) & (f <= band[1])
                    try:
                        rb = SpectrumAnalyzer(data, info["fs"], band=band, **attrs.resolve_kw(info["kw"])).compute()
                    except ValueError as e:
                        if m.any():
                            ck.violation("band %r contains %d bins of the unrestricted plan but the band analysis raised: %s" % (band, int(m.sum()), str(e)[:80]), dict(inp, band=band), tag="band:raise")
                        continue
                    okb = True
                    for k in ("f", "r", "b", "L", "K", "navg", "O", "XX", "YY", "XY", "S12", "S2", "M2"):
                        if not np.array_equal(np.asarray(rb._data[k]), np.asarray(res._data[k])[m], equal_nan=True):
                            okb = False
                            ck.violation("band %r: field %s of the band analysis is not the in-band part of the unrestricted analysis" % (band, k), dict(inp, band=band), tag="band:" + k); break
                    if okb:
                        Db = rb._data["D"]; Df = [res._data["D"][j] for j in np.nonzero(m)[0]]
                        if len(Db) != len(Df) or any(not np.array_equal(np.asarray(p).ravel(), np.asarray(q).ravel()) for p, q in zip(Db, Df)):
                            ck.violation("band %r: ragged D is misaligned with the in-band bins" % (band,), dict(inp, band=band), tag="band:D")
    ck.obligation("correspondence:recorded kernel calls of compute()/compute_single_bin() == model (callee, x1[,x2], D[j], L[j], window(L), 2*pi*f/fs, Q(L,order), slot j, window sums)", not corr_bad, "; ".join(corr_bad[:3]))
    ck.cov.update({"analyses": n, "reference_bins": nb, "input_distribution": dist,
                   "rule": "analyses over 4 schedulers x orders x {kaiser,hann} x auto/cross x backends {numba,numpy,cuda-simulator}, full and single-bin; recorded kernel calls vs model; independent extended-precision reference on sampled bins; three bands per full analysis"})
    ck.samples = [dict(path=k) for k in list(dist)[:6]]
    ck.assumptions += ["window functions (np.kaiser, np.hanning) and _build_Q are rebuilt with the same library calls", "T3 front end (fail-closed)"]


def replay(rec):
    print("replay input:", rec["violation"]["input"]); return 1
