import numpy as np
from .. import common, kernels as K, regen

BACKENDS = ("numba", "pyfunc", "numpy", "numpy_chunk", "cuda")


def oracle_case(ck, case, cross, Q, tagp="def"):
    """Every backend vs the directly evaluated definition (extended precision); caller's arrays untouched."""
    d = K.definition(case, cross, Q)
    bad = 0
    names = ["mean|X|^2", "mean|Y|^2", "Re mean XY*", "Im mean XY*", "M2"]
    res = {}
    for be in BACKENDS:
        try:
            r, touched = K.run_impl(be, case, cross, Q)
        except Exception as e:
            ck.violation("%s backend raised %s: %s" % (be, type(e).__name__, str(e)[:120]), describe(case, cross, be), tag="%s:exc" % be)
            bad += 1
            continue
        res[be] = r
        j = K.close(r, d, case, cross)
        if j is not None:
            bad += 1
            ck.violation("%s backend: %s = %r but the windowed-DFT definition gives %r" % (be, names[j], r[j], d[j]), describe(case, cross, be), tag="%s:%s" % (be, tagp))
        if touched:
            bad += 1
            ck.violation("%s backend modified the caller's record" % be, describe(case, cross, be), tag="%s:touched" % be)
    return bad, res


def describe(case, cross, be):
    return dict(backend=be, cross=cross, N=case["N"], L=case["L"], starts=case["starts"], order=case["order"], omega=case["omega"],
                kinds=case["kinds"], x=[float(v) for v in case["x"]], y=[float(v) for v in case["y"]], w=[float(v) for v in case["w"]])


def run(ck):
    r = regen.regen_kernels()
    ck.obligation("translate:T1 kernels (core.py, core_cuda.py) -> gen/KernelsGen.v", r["ok"], r["error"] or "")
    ck.build_theorems("Properties/C01.v", deps=["gen/KernelsGen.vo", "GenRef.vo", "KernelThms.vo"])
    # the trend of the definition is the least-squares polynomial: the basis the analyzer hands to the kernels must be an
    # orthonormal basis of the polynomials of degree <= order for EVERY segment length (short, odd, and >= 1024)
    from .C08 import basis_contract
    basis_contract(ck)
    n = 100 if ck.tier == "quick" else 1500
    terms, info = [], {}
    dist = {}
    nor = 0
    for i in range(n):
        case = K.gen_case(ck.rng)
        for cross in (False, True):
            Q = K.build_Q(case)
            for k, v in case["kinds"].items():
                dist["%s=%s" % (k, v)] = dist.get("%s=%s" % (k, v), 0) + 1
            dist["order=%d" % case["order"]] = dist.get("order=%d" % case["order"], 0) + 1
            bad, res = oracle_case(ck, case, cross, Q)
            nor += len(BACKENDS)
            if case["L"] * len(case["starts"]) <= 600:
                for which in ("numba", "cuda", "numpy"):
                    ph = None
                    if which == "numpy":
                        nn = np.arange(case["L"], dtype=np.float64)
                        e = np.exp(-1j * case["omega"] * nn) if cross else np.exp(1j * case["omega"] * nn)
                        ph = (e.real, e.imag)
                    key = (i, cross, which)
                    terms.append((key, K.coq_term(case, cross, which, Q, ph)))
                    info[key] = (case, cross, res.get(which))
    out = K.run_models(terms) if r["ok"] else {}
    mism = {"numba": [], "cuda": [], "numpy": []}
    for key, (case, cross, impl) in info.items():
        m = out.get(key)
        if m is None or m[0] == "error":
            mism[key[2]].append("model evaluation error: %s" % (m[1][-200:] if m else "not evaluated"))
            continue
        if impl is None:
            continue
        j = K.close(impl, m, case, cross, mult=2.0)
        if j is not None:
            mism[key[2]].append("%s L=%d order=%d cross=%s: component %d impl=%r model=%r" % (case["kinds"], case["L"], case["order"], cross, j, impl[j], m[j]))
    ck.obligation("correspondence:Numba kernels == generated Gallina at binary64 (within rounding budget)", not mism["numba"], "; ".join(mism["numba"][:3]))
    ck.obligation("correspondence:CUDA kernels (simulator) == generated Gallina at binary64 (within rounding budget)", not mism["cuda"], "; ".join(mism["cuda"][:3]))
    ck.obligation("correspondence:NumPy fallbacks == hand model np_auto/np_csd at binary64 (within rounding budget)", not mism["numpy"], "; ".join(mism["numpy"][:3]))
    broken = [o for o in ck.obl if not o[1]]
    if broken and not any(v["kind"] == "failing-input" for v in ck.violations):
        for _ in range(6 * n):
            case = K.gen_case(ck.rng)
            for cross in (False, True):
                oracle_case(ck, case, cross, K.build_Q(case))
                nor += len(BACKENDS)
            if any(v["kind"] == "failing-input" for v in ck.violations):
                break
    ck.cov.update({"oracle_evaluations": nor, "correspondence_cases": len(info), "correspondence_mismatches": sum(len(v) for v in mism.values()),
                   "input_distribution": dist, "translator_effects": r.get("effects") and {k: v["parallel_writes"] for k, v in r["effects"].items() if v["has_parallel"]},
                   "rule": "structured cases: L in {1..64}, K in {1,2,3,7} incl. repeated/unsorted/back-to-back starts, windows {rect,hann,kaiser,random}, omega {0,pi,integer,fractional,near 0}, orders -1..2, auto+cross, data {gauss,sinusoid,delayed,trend,zeros,exactly-cancelling}; 4 backends vs extended-precision definition; 3 models evaluated by vm_compute vs implementation"})
    ck.samples = [dict(L=c["L"], starts=c["starts"], order=c["order"], omega=c["omega"], kinds=c["kinds"]) for (c, _, _) in list(info.values())[:5]]
    ck.assumptions += ["binary64 rounding of the recurrence (budgeted 64u(L+4/sin^2 w) x scale, not proved)", "libm cos/sin", "LAPACK QR for the detrend basis (Q passed as data)",
                       "real GPU execution (CUDA kernels proved from source, run in Numba's simulator)", "T1 translator front end (fail-closed)"]


def replay(rec):
    common.pin_env()
    v = rec["violation"]
    if v["kind"] != "failing-input":
        print("replay: obligations that no longer check:", v["input"].get("obligations")); return 1
    inp = v["input"]
    case = dict(N=inp["N"], L=inp["L"], starts=inp["starts"], order=inp["order"], omega=inp["omega"], kinds=inp["kinds"],
                x=np.array(inp["x"]), y=np.array(inp["y"]), w=np.array(inp["w"]))
    Q = K.build_Q(case)
    d = K.definition(case, inp["cross"], Q)
    r, touched = K.run_impl(inp["backend"], case, inp["cross"], Q)
    j = K.close(r, d, case, inp["cross"])
    print("replay backend=%s: impl=%r definition=%r touched=%s -> %s" % (inp["backend"], r, d, touched, "FAILS" if (j is not None or touched) else "holds now"))
    return 1 if (j is not None or touched) else 0
