import ast, os, math
import numpy as np
from .. import common

EXPECT = {
    "MISO_analytic_optimal_spectral_analysis": [
        "Sum1 += result[f'H{i + 1}'] * result[f'S0{i + 1}']",
        "Sum2 += np.conj(result[f'H{i + 1}']) * result[f'S{i + 1}0']",
        "Sum3 += np.conj(result[f'H{j + 1}']) * result[f'H{i + 1}'] * result[f'T{j + 1}{i + 1}']",
        "result['optimal_asd'] = np.abs(np.sqrt(result['S00'] - Sum1 - Sum2 + Sum3))",
    ],
    "MISO_numeric_optimal_spectral_analysis": [
        "Sum1 = np.sum(Hvec * Svec.conj(), axis=0)",
        "Sum2 = np.sum(Hvec.conj() * Svec, axis=0)",
        "Sum3 += Hvec[j, :].conj() * Hvec[i, :] * Tmat[j, i, :]",
        "optimal_asd = np.abs(np.sqrt(S00 - Sum1 - Sum2 + Sum3))",
    ],
}


def source_pairing(ck):
    """The residual expression in the source has the index/conjugate pairing that Systems.v models."""
    mod = ast.parse(open(os.path.join(common.REPO, "speckit", "systems.py")).read())
    for fn in mod.body:
        if isinstance(fn, ast.FunctionDef) and fn.name in EXPECT:
            lines = {ast.unparse(s) for s in ast.walk(fn) if isinstance(s, (ast.Assign, ast.AugAssign))}
            missing = [e for e in EXPECT[fn.name] if e not in lines]
            ck.obligation("source:%s residual expression has the modelled pairing (Sum1 H*S0i, Sum2 conj(H)*Si0, Sum3 conj(Hj) Hi Tji)" % fn.name, not missing, "; ".join(missing))
    src = open(os.path.join(common.REPO, "speckit", "systems.py")).read()
    ck.obligation("source:SISO path returns sqrt(GyySx)", "return csd.f, np.sqrt(csd.GyySx)" in src.replace("(\n", "("), "")


def oracle(ck):
    import speckit.systems as SY
    from speckit.analysis import SpectrumAnalyzer
    n = 3 if ck.tier == "quick" else 30
    kw = dict(Jdes=25, Kdes=12, order=0, scheduler="ltf", win="hann", olap=0.5)
    runs = 0
    for _ in range(n):
        N = 3000; fs = 2.0
        g = np.random.default_rng(ck.rng.randint(0, 2 ** 31))
        q = ck.rng.choice([1, 2, 3, 4])
        X = [g.standard_normal(N) for _ in range(q)]
        delays = [ck.rng.choice([0, 1, 3]) for _ in range(q)]; gains = [ck.rng.uniform(-2, 2) for _ in range(q)]
        y = sum(gn * np.roll(x, d) for gn, x, d in zip(gains, X, delays)) + ck.rng.choice([0.05, 0.5]) * g.standard_normal(N)
        inp = dict(q=q, delays=delays, gains=gains, kw=kw)
        with np.errstate(all="ignore"):
            f, ra = SY.MISO_analytic_optimal_spectral_analysis(X, y, fs, **kw) if q <= 3 else (None, None)
            f2, rn = SY.MISO_numeric_optimal_spectral_analysis(X, y, fs, **kw)
            ref = SpectrumAnalyzer(y, fs, **kw).compute()
            runs += 2
        ok = np.asarray(ref.navg) > q
        out_asd = np.sqrt(ref.Gxx)
        if np.any(~np.isfinite(rn[ok])) or np.any(rn[ok] < 0) or np.any(rn[ok] > out_asd[ok] * (1 + 1e-6)):
            j = int(np.nonzero(ok)[0][np.argmax((rn[ok] - out_asd[ok]) / out_asd[ok])])
            ck.violation("q=%d: residual %r exceeds the output's own spectrum %r at f=%r (navg=%d)" % (q, float(rn[j]), float(out_asd[j]), float(f2[j]), int(ref.navg[j])), inp, tag="bounds")
        if ra is not None and np.any(np.abs(ra[ok] - rn[ok]) > 1e-6 * out_asd[ok]):
            ck.violation("q=%d: analytic and numeric solvers disagree (max rel %g)" % (q, float(np.max(np.abs(ra[ok] - rn[ok]) / out_asd[ok]))), inp, tag="analytic-vs-numeric")
        # physical units: an output record c times smaller gives a residual c times smaller (nanometre-scale data in metres), both solvers
        cu = ck.rng.choice([1e-9, 1e-12, 1e6])
        with np.errstate(all="ignore"):
            _, rn_s = SY.MISO_numeric_optimal_spectral_analysis(X, cu * y, fs, **kw); runs += 1
            ra_s = SY.MISO_analytic_optimal_spectral_analysis(X, cu * y, fs, **kw)[1] if q <= 3 else None
        if np.any(np.abs(rn_s[ok] - cu * rn[ok]) > 1e-6 * cu * out_asd[ok]):
            ck.violation("q=%d: numeric residual of %g*y is not %g times the residual of y (max rel %g)" % (q, cu, cu, float(np.max(np.abs(rn_s[ok] - cu * rn[ok]) / (cu * out_asd[ok])))), dict(inp, scale=cu), tag="units-out")
        if ra_s is not None and np.any(np.abs(ra_s[ok] - cu * rn[ok]) > 1e-5 * cu * out_asd[ok]):
            ck.violation("q=%d: analytic residual of %g*y is not %g times the residual of y (max rel %g)" % (q, cu, cu, float(np.max(np.abs(ra_s[ok] - cu * rn[ok]) / (cu * out_asd[ok])))), dict(inp, scale=cu), tag="units-out")
        # permutation of the inputs
        if q >= 2:
            perm = list(range(q)); ck.rng.shuffle(perm)
            _, rp = SY.MISO_numeric_optimal_spectral_analysis([X[i] for i in perm], y, fs, **kw); runs += 1
            if np.any(np.abs(rp[ok] - rn[ok]) > 1e-7 * out_asd[ok]):
                ck.violation("q=%d: residual changes when the inputs are reordered" % q, dict(inp, perm=perm), tag="permutation")
            M = np.array([[ck.rng.uniform(-1, 1) for _ in range(q)] for _ in range(q)]) + 2 * np.eye(q)
            Xm = [sum(M[i, j] * X[j] for j in range(q)) for i in range(q)]
            _, rm = SY.MISO_numeric_optimal_spectral_analysis(Xm, y, fs, **kw); runs += 1
            if np.any(np.abs(rm[ok] - rn[ok]) > 1e-5 * out_asd[ok]):
                ck.violation("q=%d: residual changes under an invertible re-mixing of the inputs" % q, dict(inp, M=M.tolist()), tag="remix")
        # exact static combination
        ys = sum(gn * x for gn, x in zip(gains, X))
        _, rz = SY.MISO_numeric_optimal_spectral_analysis(X, ys, fs, **kw); runs += 1
        refs = np.sqrt(SpectrumAnalyzer(ys, fs, **kw).compute().Gxx)
        if np.any(rz[ok] > 1e-5 * refs[ok]):
            ck.violation("q=%d: residual of an exact static combination is %g of the output spectrum" % (q, float(np.max(rz[ok] / refs[ok]))), inp, tag="static")
        # no per-segment detrending (order=-1), inputs with static offsets: exact combination -> zero residual, analytic = numeric
        kwm = dict(kw, order=-1)
        Xo = [xx_ + ck.rng.uniform(2, 6) * (1 if i_ % 2 == 0 else -1) for i_, xx_ in enumerate(X[:min(q, 3)])]
        yo = sum(gn * xx_ for gn, xx_ in zip(gains, Xo))
        with np.errstate(all="ignore"):
            _, rzo = SY.MISO_numeric_optimal_spectral_analysis(Xo, yo, fs, **kwm); runs += 1
            refo = np.sqrt(SpectrumAnalyzer(yo, fs, **kwm).compute().Gxx)
            rao = SY.MISO_analytic_optimal_spectral_analysis(Xo, yo, fs, **kwm)[1] if len(Xo) <= 2 else None
        if np.any(rzo[ok] > 1e-4 * refo[ok]):
            ck.violation("order=-1, inputs with offsets: residual of an exact static combination is %g of the output spectrum (numeric solver, q=%d)" % (float(np.max(rzo[ok] / refo[ok])), len(Xo)), dict(inp, order=-1), tag="static-raw")
        elif rao is not None and np.any(np.abs(rao[ok] - rzo[ok]) > 1e-4 * refo[ok]):
            ck.violation("order=-1, inputs with offsets: analytic and numeric solvers disagree by %g of the output spectrum" % float(np.max(np.abs(rao[ok] - rzo[ok]) / refo[ok])), dict(inp, order=-1), tag="analytic-vs-numeric-raw")
        # inputs correlated with each other through a delay, couplings with different phases: compare with the direct
        # least-squares residual  Gyy - S^H T^-1 S  built from the same spectra
        xa = g.standard_normal(N); xb = np.roll(xa, 3) + 0.3 * g.standard_normal(N)
        yc = np.roll(xa, 1) - xb + 0.2 * g.standard_normal(N)
        for solver in (SY.MISO_numeric_optimal_spectral_analysis, SY.MISO_analytic_optimal_spectral_analysis):
            _, rc = solver([xa, xb], yc, fs, **kw); runs += 1
            A11 = SpectrumAnalyzer(xa, fs, **kw).compute().Gxx; A22 = SpectrumAnalyzer(xb, fs, **kw).compute().Gxx
            c12 = SpectrumAnalyzer(np.vstack([xa, xb]), fs, **kw).compute().Gxy
            s1 = SpectrumAnalyzer(np.vstack([xa, yc]), fs, **kw).compute().Gxy; s2 = SpectrumAnalyzer(np.vstack([xb, yc]), fs, **kw).compute().Gxy
            yy = SpectrumAnalyzer(yc, fs, **kw).compute()
            okc = np.asarray(yy.navg) > 2
            direct = np.empty(len(A11))
            for k in range(len(A11)):
                if not okc[k]:
                    direct[k] = np.nan; continue
                T = np.array([[A11[k], c12[k]], [np.conj(c12[k]), A22[k]]]); S = np.array([s1[k], s2[k]])
                direct[k] = float(np.real(yy.Gxx[k] - np.conj(S) @ np.linalg.solve(T, S)))
            if np.any(rc[okc] ** 2 > yy.Gxx[okc] * (1 + 1e-6)) or np.any(np.abs(rc[okc] ** 2 - direct[okc]) > 1e-6 * yy.Gxx[okc]):
                ck.violation("two inputs correlated through a 3-sample delay: %s residual^2 differs from Gyy - S^H T^-1 S (max rel %g) or exceeds Gyy" % (solver.__name__, float(np.max(np.abs(rc[okc] ** 2 - direct[okc]) / yy.Gxx[okc]))), dict(case="correlated-delayed", kw=kw), tag="correlated")
        # inputs in very different units (amplitude ratio 5e6): exact combination, rescaling invariance, analytic = numeric
        xs1 = g.standard_normal(N); xs2 = 2e-7 * g.standard_normal(N); yu = 0.5 * xs1 + 4e6 * xs2
        _, ru = SY.MISO_numeric_optimal_spectral_analysis([xs1, xs2], yu, fs, **kw); _, ru2 = SY.MISO_numeric_optimal_spectral_analysis([xs1, xs2 * 5e6], yu, fs, **kw)
        _, rua = SY.MISO_analytic_optimal_spectral_analysis([xs1, xs2], yu, fs, **kw); runs += 3
        refu = np.sqrt(SpectrumAnalyzer(yu, fs, **kw).compute().Gxx)
        if np.any(ru[ok] > 1e-4 * refu[ok]) or np.any(np.abs(ru[ok] - ru2[ok]) > 1e-4 * refu[ok]) or np.any(np.abs(ru[ok] - rua[ok]) > 1e-4 * refu[ok]):
            ck.violation("inputs in very different units (1 vs 2e-7): exact-combination residual %g of the output, rescaling changes it by %g, analytic vs numeric %g" %
                         (float(np.max(ru[ok] / refu[ok])), float(np.max(np.abs(ru[ok] - ru2[ok]) / refu[ok])), float(np.max(np.abs(ru[ok] - rua[ok]) / refu[ok]))), dict(case="units", kw=kw), tag="units")
        # one input, coupling with delay/phase: sqrt(Gyy (1 - coh))
        d = ck.rng.choice([1, 2, 5])
        y1 = 0.7 * np.roll(X[0], d) + 0.3 * g.standard_normal(N)
        fS, rS = SY.SISO_optimal_spectral_analysis(X[0], y1, fs, **kw); runs += 1
        c = SpectrumAnalyzer(np.vstack([X[0], y1]), fs, **kw).compute()
        exp = np.sqrt(c.Gyy * (1 - c.coh))
        if np.any(np.abs(rS - exp) > 1e-7 * np.sqrt(c.Gyy)):
            ck.violation("SISO residual differs from sqrt(Gyy*(1-coherence)) for a coupling delayed by %d samples (max rel %g)" % (d, float(np.max(np.abs(rS - exp) / np.sqrt(c.Gyy)))), dict(delay=d, kw=kw), tag="siso")
        _, r1 = SY.MISO_numeric_optimal_spectral_analysis([X[0]], y1, fs, **kw); runs += 1
        ok1 = np.asarray(c.navg) > 1
        if np.any(np.abs(r1[ok1] - exp[ok1]) > 1e-6 * np.sqrt(c.Gyy[ok1])):
            ck.violation("numeric solver with one input differs from sqrt(Gyy*(1-coherence))", dict(delay=d, kw=kw), tag="miso1")
    ck.cov["solver_runs"] = runs


def correspondence(ck):
    """The executable residual expression (SystemsRun.resid_run, = SystemsGen.resid_expr at the reals) evaluated at binary64 on the
    spectra and coefficients the numeric solver actually used (recorded at np.linalg.solve), against the returned optimal_asd;
    and the contract the theorems assume: the recorded H solves T H = S."""
    import speckit.systems as SY
    from speckit.analysis import SpectrumAnalyzer
    from ..common import fhex
    kw = dict(Jdes=20, Kdes=8, order=0, scheduler="ltf", win="hann", olap=0.5)
    terms, exp = [], []
    cx = lambda z: "(%s, %s)" % (fhex(float(np.real(z))), fhex(float(np.imag(z))))
    nruns = 2 if ck.tier == "quick" else 10
    for _run in range(3 * nruns):
        if _run >= nruns and len(exp) >= 8:
            break
        N = 2500; fs = 2.0
        g = np.random.default_rng(ck.rng.randint(0, 2 ** 31))
        q = ck.rng.choice([1, 2, 3, 4])
        X = [g.standard_normal(N) for _ in range(q)]
        for a in range(1, q):
            X[a] = X[a] + ck.rng.choice([0.0, 0.5]) * np.roll(X[0], a)          # correlated inputs: T is not diagonal
        y = sum(ck.rng.uniform(-2, 2) * np.roll(x, ck.rng.choice([0, 1, 3])) for x in X) + 0.3 * g.standard_normal(N)
        calls = []          # one entry per bin, in order: (T, S, H) when np.linalg.solve produced H, None when the pseudo-inverse branch did
        orig = np.linalg.solve; orig_pinv = np.linalg.pinv
        def rec(a, b, _o=orig):
            try:
                out = _o(a, b)
            except Exception:
                calls.append("failed"); raise
            calls.append((np.array(a, complex), np.array(b, complex), np.array(out, complex))); return out
        def rec_pinv(a, *args, _o=orig_pinv, **kws):
            if calls and calls[-1] == "failed":
                calls[-1] = None
            else:
                calls.append(None)
            return _o(a, *args, **kws)
        np.linalg.solve = rec; np.linalg.pinv = rec_pinv
        try:
            with np.errstate(all="ignore"):
                f, asd = SY.MISO_numeric_optimal_spectral_analysis(X, y, fs, **kw)
        finally:
            np.linalg.solve = orig; np.linalg.pinv = orig_pinv
        with np.errstate(all="ignore"):
            S00 = np.asarray(SpectrumAnalyzer(y, fs, **kw).compute().Gxx, float)
        if len(calls) != len(f):
            continue            # the solver was not called once per bin (np.linalg.cond may call into it on some builds): skip this run
        for k in sorted(set(ck.rng.randrange(len(f)) for _ in range(8))):
            if calls[k] is None:
                continue        # pseudo-inverse branch (singular or ill-conditioned bin, e.g. fewer segments than inputs)
            Tk, Sk, Hk = calls[k]
            Hs = "[" + "; ".join(cx(v) for v in Hk) + "]"; Ss = "[" + "; ".join(cx(v) for v in Sk) + "]"
            Ts = "[" + "; ".join("[" + "; ".join(cx(v) for v in row) + "]" for row in Tk) + "]"
            terms.append("Eval vm_compute in (resid_run FloatA %s %s %s %s)." % (Hs, fhex(float(S00[k])), Ss, Ts)); exp.append(("resid", q, k, float(asd[k]), float(S00[k]), None))
            terms.append("Eval vm_compute in (system_defect FloatA %s %s %s)." % (Hs, Ss, Ts)); exp.append(("defect", q, k, None, None, float(np.linalg.norm(Tk) * np.linalg.norm(Hk) + np.linalg.norm(Sk))))
    body = "From Coq Require Import ZArith List PrimFloat.\nFrom SK Require Import Arith Cpx SystemsRun.\nImport ListNotations.\nOpen Scope float_scope.\n" + "\n".join(terms) + "\n"
    res = common.run_case_files({"sys_%d" % os.getpid(): body})
    rc, out = list(res.values())[0]
    evs = common.parse_evals(out)
    bad, badc = [], []
    if rc != 0 or len(evs) != len(exp) or not exp:
        bad.append("coq evaluation failed or nothing recorded: " + out[-300:])
    else:
        for ev, (kind, q, k, asd_k, s00, scale) in zip(evs, exp):
            v = [float(t) for t in common.tokens(ev)]
            if kind == "resid":
                re, im = v[0], v[1]
                if not (abs(math.hypot(re, im) - asd_k ** 2) <= 1e-9 * s00 + 1e-300 and abs(im) <= 1e-9 * s00 + 1e-300):
                    bad.append("q=%d bin %d: model expression (%r, %r) vs optimal_asd^2 = %r (S00 = %r)" % (q, k, re, im, asd_k ** 2, s00))
            else:
                d = max(math.hypot(v[i], v[i + 1]) for i in range(0, len(v), 2))
                if not d <= 1e-9 * scale:
                    badc.append("q=%d bin %d: |T H - S| = %g (scale %g)" % (q, k, d, scale))
    ck.obligation("correspondence:SystemsRun.resid_run at binary64 on the recorded (H, S, T, S00) == optimal_asd^2 of MISO_numeric (1e-9)", not bad, "; ".join(bad[:3]))
    ck.obligation("contract:the coefficients recorded at np.linalg.solve solve T H = S (hypothesis of the C15 at-solution theorems, 1e-9)", not badc, "; ".join(badc[:3]))
    ck.cov["correspondence_bins"] = len(exp) // 2


def run(ck):
    ck.build_theorems("Properties/C15.v", deps=["Systems.vo", "SystemsGen.vo", "SystemsRun.vo"])
    source_pairing(ck)
    correspondence(ck)
    oracle(ck)
    ck.cov["rule"] = "q in {1,2,3} inputs with gains/delays, noise floor 0.05/0.5; analytic vs numeric; permutation; random invertible re-mixing; exact static combination; SISO with delay vs sqrt(Gyy(1-coh)); bins with navg > q"
    ck.samples = [dict(q=2, delays=[1, 3])]
    ck.assumptions += ["theorems are at exact real arithmetic for any q; float rounding and ill-conditioning of the solvers are explored on the implementation", "sympy.solve / np.linalg.solve / pinv are oracles: that the recorded coefficients solve T H = S is checked on sampled bins (contract obligation); the analytic solver is compared with the numeric one"]


def replay(rec):
    print("replay input:", rec["violation"]["input"]); return 1
