"""Scheduler harness: configuration generators, implementation runner (with recording proxy),
direct property oracles (C02-C04), Coq model evaluation (FloatA, vm_compute) and comparison."""
import math, os, sys, json
import numpy as np
from . import common
from .common import fhex

PMOD = 2305843009213693951
SCHEDS = ("lpsd", "ltf", "vectorized_ltf", "new_ltf")


# ----------------------------------------------------------------------------- generators
def gen_config(rng, family=None):
    """Admissible configuration (N>=8, fs>0, 0<=olap<1, 1<=bmin<N/2, 1<=Lmin<=N, Jdes,Kdes>=1)."""
    fam = family or rng.choice(["small", "small", "mid", "mid", "xovL<1", "clampLmin", "bminactive", "nseg12", "big", "tie"])
    if fam == "small":
        N = rng.randint(8, 64)
    elif fam == "big":
        N = rng.choice([4096, 20000, 100000])
    elif fam == "tie":
        N = rng.randint(50, 3000)
    else:
        N = rng.choice([100, 257, 1000, 1814, rng.randint(65, 3000)])
    fs = rng.choice([1.0, 2.0, 0.37, 1000.0, 10 ** rng.uniform(-3, 4)])
    olap = rng.choice([0.0, 0.25, 0.5, 0.75, 0.9, 1 / 3, rng.random() * 0.95])
    bmin = rng.choice([1.0, 1.0, 1.5, 2.0, 3.0, 5.0, 1 + rng.random() * 8])
    Lmin = rng.choice([1, 1, 2, 8, max(1, N // 4), rng.randint(1, max(1, N // 3))])
    Jdes = rng.choice([1, 2, 5, 10, 20, 50, rng.randint(1, 60)])
    Kdes = rng.choice([1, 2, 5, 10, 100, rng.randint(1, 100)])
    if fam == "xovL<1":
        olap = rng.choice([0.99, 0.995, 0.97, 1 - 1 / rng.randint(20, 400)])
    elif fam == "clampLmin":
        Lmin = rng.choice([N, N - 1, max(1, N // 2), max(1, N // 2 + 1), rng.randint(max(1, N // 2), N)])
    elif fam == "bminactive":
        bmin = rng.choice([N / 2 - 0.01, N / 4, N / 3.0, rng.uniform(2, N / 2 - 0.5)])
    elif fam == "nseg12":
        Kdes = rng.choice([1, 2]); olap = rng.choice([0.0, 0.1, 0.5])
    elif fam == "big":
        Jdes = rng.choice([50, 200, 500]); Kdes = rng.choice([10, 100])
    elif fam == "tie":
        # pick olap so that (N-L)/((1-olap)L)+1 is within an ulp of k+1/2 for some L
        L = rng.randint(max(2, N // 8), max(3, N // 2)); k = rng.randint(1, 40)
        o = 1 - (N - L) / ((k - 0.5) * L)
        if 0 <= o < 1:
            olap = o; Lmin = rng.choice([L, Lmin]); Kdes = rng.choice([1, Kdes])
    bmin = min(float(bmin), N / 2 - 1e-3)
    bmin = max(1.0, bmin)
    Lmin = int(min(max(1, Lmin), N))
    return dict(N=int(N), fs=float(fs), olap=float(olap), bmin=float(bmin), Lmin=Lmin, Jdes=int(Jdes), Kdes=int(Kdes), family=fam)


def sched_kwargs(cfg):
    return {k: cfg[k] for k in ("N", "fs", "olap", "bmin", "Lmin", "Jdes", "Kdes")}


# ----------------------------------------------------------------------------- implementation
class _NpProxy:
    """Forwards to numpy, recording logspace/exp/log results (no repo hook needed)."""
    def __init__(self, rec):
        self.__dict__["_rec"] = rec
    def __getattr__(self, name):
        v = getattr(np, name)
        if name in ("logspace", "exp", "log"):
            rec = self._rec
            def wrapped(*a, **k):
                with np.errstate(all="ignore"):
                    out = v(*a, **k)
                rec.setdefault(name, []).append((a, out))
                return out
            return wrapped
        return v


def run_sched(name, cfg):
    """Run scheduler `name` on cfg. Returns dict(ok, plan | exc, rec)."""
    import speckit.schedulers as S
    fn = {"lpsd": S.lpsd_plan, "ltf": S.ltf_plan, "vectorized_ltf": S.vectorized_ltf_plan, "new_ltf": S.new_ltf_plan}[name]
    rec = {}
    old = S.np
    S.np = _NpProxy(rec)
    try:
        with np.errstate(all="ignore"):
            p = fn(**sched_kwargs(cfg))
        return dict(ok=True, plan=p, rec=rec)
    except SystemExit as e:
        return dict(ok=False, exc="SystemExit", msg=str(e), rec=rec)
    except Exception as e:
        return dict(ok=False, exc=type(e).__name__, msg=str(e)[:200], rec=rec)
    finally:
        S.np = old


def eff_cfg(name, cfg):
    c = dict(cfg)
    if name == "lpsd":
        c["bmin"] = 1.0; c["Lmin"] = 1
    return c


def dsum(d):
    d = [int(x) for x in d]
    h = 0
    for i, v in enumerate(d, 1):
        h = (h + i * v) % PMOD
    return [len(d), h, d[0] if d else -1, d[-1] if d else -1]


# ----------------------------------------------------------------------------- direct oracles
def oracle_c02(name, cfg, res):
    """Returns list of (tag, description) property failures of C02 on the implementation's output."""
    c = eff_cfg(name, cfg)
    N, Lmin = c["N"], c["Lmin"]
    if not res["ok"]:
        return [("exc:" + res["exc"], "scheduler raised %s: %s" % (res["exc"], res.get("msg", "")))]
    p = res["plan"]
    out = []
    nf = len(p["f"])
    if nf == 0:
        return [("nobins", "plan has no bins")]
    for j in range(nf):
        D = np.asarray(p["D"][j]).astype(np.int64); L = int(p["L"][j]); K = int(p["K"][j]); na = int(p["navg"][j])
        if len(D) < 1:
            out.append(("empty", "bin %d has no segment" % j)); break
        if K != len(D) or na != len(D):
            out.append(("count", "bin %d: K=%d navg=%d but %d starts" % (j, K, na, len(D)))); break
        if D.min() < 0 or D.max() + L > N:
            out.append(("range", "bin %d: start out of range L=%d K=%d max=%d N=%d" % (j, L, K, D.max(), N))); break
        if D[0] != 0 or (len(D) > 1 and (np.diff(D) <= 0).any()) or D[-1] + L != N:
            out.append(("cover", "bin %d: starts not strictly increasing from 0 to N-L (L=%d K=%d first=%d last=%d N=%d)" % (j, L, K, D[0], D[-1], N))); break
        if L < max(1, Lmin) or L > N:
            out.append(("Lbounds", "bin %d: L=%d outside [max(1,Lmin)=%d, N=%d]" % (j, L, max(1, Lmin), N))); break
        if len(D) == 1 and L != N:
            out.append(("single", "bin %d: single segment with L=%d != N=%d" % (j, L, N))); break
    return out


def oracle_c03(name, cfg, res, ulps=4):
    c = eff_cfg(name, cfg)
    N, fs, bmin = c["N"], c["fs"], c["bmin"]
    if not res["ok"]:
        return []   # failures to build are C02's business
    p = res["plan"]
    f = np.asarray(p["f"], float); r = np.asarray(p["r"], float); b = np.asarray(p["b"], float); L = np.asarray(p["L"]).astype(np.int64)
    m = np.asarray(p["m"], float) if "m" in p else b
    out = []
    eps = np.finfo(float).eps
    if len(f) == 0:
        return out
    bad = np.nonzero(r != fs / L)[0]
    if len(bad):
        j = int(bad[0]); out.append(("rL", "bin %d: r=%r != fs/L=%r (L=%d)" % (j, r[j], fs / L[j], L[j])))
    if len(f) > 1:
        bad = np.nonzero(f[1:] != f[:-1] + r[:-1])[0]
        if len(bad):
            j = int(bad[0]); out.append(("step", "f[%d]=%r != f[%d]+r[%d]=%r" % (j + 1, f[j + 1], j, j, f[j] + r[j])))
        if (np.diff(f) <= 0).any():
            out.append(("mono", "f not strictly increasing"))
    f0 = bmin * fs / N
    if abs(f[0] - f0) > ulps * eps * f0:
        out.append(("f0", "f[0]=%r != bmin*fs/N=%r" % (f[0], f0)))
    if not (f[-1] < fs / 2):
        out.append(("nyq", "f[-1]=%r not below Nyquist %r" % (f[-1], fs / 2)))
    bad = np.nonzero(np.abs(b - f / r) > ulps * eps * np.abs(f / r))[0]
    if len(bad):
        j = int(bad[0]); out.append(("b", "b[%d]=%r != f/r=%r" % (j, b[j], f[j] / r[j])))
    bad = np.nonzero(np.abs(m - b) > 0)[0]
    if len(bad):
        out.append(("m", "m != b at bin %d" % int(bad[0])))
    # b >= bmin up to rounding of L (half a sample => f/(2 fs)); vectorised: plus lookup-grid spacing
    slack = f / (2 * fs) + 1e-9 * bmin
    if name == "vectorized_ltf":
        g = res["rec"].get("logspace", [(None, None)])[0][1]
        if g is not None and len(g) > 1:
            ratio = float(g[1] / g[0])
            slack = slack + bmin * (1 - 1 / ratio) + 0.25
    bad = np.nonzero(b < bmin - slack)[0]
    if len(bad):
        j = int(bad[0]); out.append(("bmin", "b[%d]=%r below bmin=%r by more than rounding slack %r" % (j, b[j], bmin, float(np.atleast_1d(slack)[min(j, np.size(slack) - 1)]))))
    if name == "lpsd":
        # "The LPSD scheduler is the LTF scheduler with bmin=1 and Lmin=1", whatever bmin / Lmin the caller passes
        ref = run_sched("ltf", c)
        if not ref["ok"]:
            out.append(("lpsd=ltf", "lpsd_plan builds a plan but ltf_plan(bmin=1, Lmin=1) raises %s" % ref.get("exc")))
        else:
            q = ref["plan"]
            if len(q["f"]) != len(f):
                out.append(("lpsd=ltf", "lpsd_plan has %d bins, ltf_plan(bmin=1, Lmin=1) has %d (caller passed bmin=%r, Lmin=%r)" % (len(f), len(q["f"]), cfg["bmin"], cfg["Lmin"])))
            else:
                for k in ("f", "r", "b", "L", "K"):
                    a_ = np.asarray(p[k]); b_ = np.asarray(q[k])
                    if not np.array_equal(a_, b_):
                        j = int(np.nonzero(a_ != b_)[0][0])
                        out.append(("lpsd=ltf", "lpsd_plan %s[%d]=%r differs from ltf_plan(bmin=1, Lmin=1) %r (caller passed bmin=%r, Lmin=%r)" % (k, j, a_[j], b_[j], cfg["bmin"], cfg["Lmin"]))); break
                else:
                    for j, (d1, d2) in enumerate(zip(p["D"], q["D"])):
                        if not np.array_equal(np.asarray(d1), np.asarray(d2)):
                            out.append(("lpsd=ltf", "lpsd_plan starts of bin %d differ from ltf_plan(bmin=1, Lmin=1)" % j)); break
    return out


def oracle_c04(name, cfg, res):
    """Monotonicity, nearest-K (capped), even spreading, realised overlap; log-spacing & Kdes where unclamped."""
    c = eff_cfg(name, cfg)
    N, fs, olap, bmin, Lmin, Jdes, Kdes = (c[k] for k in ("N", "fs", "olap", "bmin", "Lmin", "Jdes", "Kdes"))
    if not res["ok"]:
        return []
    p = res["plan"]
    f = np.asarray(p["f"], float); r = np.asarray(p["r"], float); L = np.asarray(p["L"]).astype(np.int64); K = np.asarray(p["K"]).astype(np.int64)
    O = np.asarray(p["O"], float)
    out = []
    if len(f) == 0:
        return out
    if (np.diff(L) > 0).any():
        j = int(np.nonzero(np.diff(L) > 0)[0][0]); out.append(("Lmono", "L increases at bin %d: %d -> %d" % (j, L[j], L[j + 1])))
    if (np.diff(K) < 0).any():
        j = int(np.nonzero(np.diff(K) < 0)[0][0]); out.append(("Kmono", "K decreases at bin %d: %d -> %d" % (j, K[j], K[j + 1])))
    xov = 1 - olap
    ideal = 1 + (N - L) / (xov * L)
    cap = N - L + 1
    tol = 1e-9 * np.maximum(1, ideal)
    okK = (np.abs(K - ideal) <= 0.5 + tol) | ((K == cap) & (ideal >= cap - 0.5 - tol))
    if not okK.all():
        j = int(np.nonzero(~okK)[0][0]); out.append(("Knearest", "bin %d: K=%d is not the nearest integer to %r (cap %d)" % (j, K[j], ideal[j], cap[j])))
    for j in range(len(f)):
        D = np.asarray(p["D"][j]).astype(np.int64)
        if len(D) != K[j] or K[j] < 1:
            continue   # C02's business
        if K[j] > 1:
            ideal_pos = np.arange(K[j]) * (N - L[j]) / (K[j] - 1)
            dev = np.abs(D - ideal_pos).max()
            if dev > 0.5 + 1e-9 * N:
                out.append(("even", "bin %d: a start is %.6f samples from its ideal position (L=%d K=%d)" % (j, dev, L[j], K[j]))); break
            Oreal = float(np.mean((L[j] - np.diff(D)) / L[j]))
        else:
            Oreal = 0.0
        if abs(O[j] - Oreal) > 1e-9:
            out.append(("O", "bin %d: reported overlap %r != realised mean overlap %r" % (j, O[j], Oreal))); break
    if name in ("lpsd", "ltf", "vectorized_ltf"):
        logfact = (N / 2) ** (1 / Jdes) - 1
        fresmin = fs / N; freslim = fresmin * (1 + xov * (Kdes - 1))
        tgt = f * logfact
        free = (tgt >= freslim) & (fs / tgt <= N - 1) & (fs / tgt >= max(1, Lmin) + 1) & (f / tgt >= bmin * 1.0000001) & (K > 1)
        if name == "vectorized_ltf":
            free = np.zeros_like(free)   # evaluated on its lookup grid in the model; grid point >= f
        dev = np.abs(fs / r - fs / tgt)
        bad = np.nonzero(free & (dev > 0.5 + 1e-9 * fs / tgt))[0]
        if len(bad):
            j = int(bad[0]); out.append(("logspace", "bin %d: L=%d differs from fs/(f*logfact)=%r by more than rounding" % (j, L[j], fs / tgt[j])))
        # 'wherever the desired averaging is attainable': not at the N-L+1 position cap, and the record long enough that
        # rounding L by half a sample cannot cost an average:  N*xov >= (1+xov(Kdes-1)) (1+xov(Kdes-1.5))
        attainable = (K < N - L + 1) & (N * xov >= (1 + xov * (Kdes - 1)) * (1 + xov * (Kdes - 1.5)))
        bad = np.nonzero(free & attainable & (K < Kdes))[0]
        if len(bad):
            j = int(bad[0]); out.append(("Kdes", "bin %d: unclamped log-spaced bin has K=%d < Kdes=%d" % (j, K[j], Kdes)))
    return out


# ----------------------------------------------------------------------------- Coq model
def coq_case_ltf(name, cfg, res):
    """Coq term running the FloatA ltf model on cfg; powhalf table recomputed from the implementation's own f list."""
    c = eff_cfg(name, cfg)
    N, fs, olap, bmin, Lmin, Jdes, Kdes = (c[k] for k in ("N", "fs", "olap", "bmin", "Lmin", "Jdes", "Kdes"))
    logfact = (N / 2) ** (1 / Jdes) - 1
    xov = 1 - olap; fresmin = fs / N; freslim = fresmin * (1 + xov * (Kdes - 1))
    tbl = []
    fl = list(res["plan"]["f"]) if res["ok"] else []
    seen = set()
    for fi in fl:
        fres = float(fi) * logfact
        if fres < freslim:
            arg = freslim * fres
            if arg not in seen:
                seen.add(arg); tbl.append((arg, arg ** 0.5))
    fuel = len(fl) + 3
    t = "[" + "; ".join("(%s, %s)" % (fhex(a), fhex(b)) for a, b in tbl) + "]"
    return "(run_ltf %d %d %s %s %s %d %d %s %s)" % (fuel, N, fhex(fs), fhex(olap), fhex(bmin), Lmin, Kdes, fhex(logfact), t)


def coq_case_vec(cfg, res):
    """The lookup grid is the one recorded from the implementation's np.logspace call, thinned to the points
    adjacent to each walked frequency (so that searchsorted-left on the thinned grid picks the same point);
    the model does its own search."""
    N, fs, olap, bmin, Lmin, Jdes, Kdes = (cfg[k] for k in ("N", "fs", "olap", "bmin", "Lmin", "Jdes", "Kdes"))
    logfact = (N / 2) ** (1 / Jdes) - 1
    g = res["rec"].get("logspace")
    grid = np.asarray(g[0][1], float) if g else np.zeros(0)
    fl = np.asarray(res["plan"]["f"], float) if res["ok"] else np.zeros(0)
    if len(grid) > 64 and len(fl):
        idx = np.searchsorted(grid, fl, side="left")
        last = fl[-1] + float(res["plan"]["r"][-1])
        keep = set([0, len(grid) - 1]) | set(int(i) for i in idx if i < len(grid)) | set(int(i) - 1 for i in idx if i >= 1)
        j = int(np.searchsorted(grid, last, side="left"))
        keep |= {k for k in (j - 1, j) if 0 <= k < len(grid)}
        grid = grid[sorted(keep)]
    fuel = len(fl) + 3
    return "(run_vec %d %d %s %s %s %d %d %s [%s])" % (fuel, N, fhex(fs), fhex(olap), fhex(bmin), Lmin, Kdes, fhex(logfact), "; ".join(fhex(x) for x in grid))


def coq_case_new(cfg, res):
    """FloatA model of new_ltf_plan; x**0.5 recomputed per emitted frequency, np.exp / np.log taken from the recording proxy."""
    N, fs, olap, bmin, Lmin, Jdes, Kdes = (cfg[k] for k in ("N", "fs", "olap", "bmin", "Lmin", "Jdes", "Kdes"))
    logfact = (N / 2) ** (1 / Jdes) - 1
    xov = 1 - olap; fresmin = fs / N; freslim = fresmin * (1 + xov * (Kdes - 1))
    fl = list(res["plan"]["f"]) if res["ok"] else []
    tp, seen = [], set()
    for fi in fl:
        arg = freslim * (float(fi) * logfact)
        if arg not in seen and arg >= 0:
            seen.add(arg); tp.append((arg, arg ** 0.5))
    def tbl(name):
        out, sn = [], set()
        for a, o in res["rec"].get(name, []):
            k = float(a[0])
            if k not in sn and k == k:
                sn.add(k); out.append((k, float(o)))
        return out
    fmt = lambda t: "[" + "; ".join("(%s, %s)" % (fhex(a), fhex(b)) for a, b in t) + "]"
    return "(run_new %d %d %s %s %s %d %d %s %d %s %s %s)" % (len(fl) + 3, N, fhex(fs), fhex(olap), fhex(bmin), Lmin, Kdes, fhex(logfact), Jdes, fmt(tp), fmt(tbl("exp")), fmt(tbl("log")))


HEADER = "From Coq Require Import ZArith List PrimFloat.\nFrom SK Require Import Arith Sched SchedRun.\nImport ListNotations.\nOpen Scope Z_scope.\nOpen Scope float_scope.\n"


def impl_summary(res):
    """(code, floats, ints) in the same layout as SchedRun.pack."""
    if not res["ok"]:
        return (-1, [], [])
    p = res["plan"]
    fl, il = [], []
    for j in range(len(p["f"])):
        fl += [float(p["f"][j]), float(p["r"][j]), float(p["b"][j]), float(p["O"][j])]
        il += [int(p["L"][j]), int(p["K"][j])] + dsum(p["D"][j])
    return (0, fl, il)


def parse_model(s):
    """Parse '(code, [floats], [ints])' printed by Coq."""
    i = s.index("[")
    j = s.index("]", i)
    k = s.index("[", j)
    code = int(common.tokens(s[:i])[0])
    fl = [float(t) for t in common.tokens(s[i:j + 1])]
    il = [int(t) for t in common.tokens(s[k:])]
    return code, fl, il


def compare(impl, model, O_tol=1e-12):
    """None if equal, else description of first difference. O (every 4th float) within tolerance."""
    ci, fi, ii = impl
    cm, fm, im = model
    if ci != cm:
        return "status differs: impl=%d model=%d" % (ci, cm)
    if len(fi) != len(fm):
        return "number of bins differs: impl=%d model=%d" % (len(fi) // 4, len(fm) // 4)
    names = "frbO"
    for k, (a, b) in enumerate(zip(fi, fm)):
        if k % 4 == 3:
            if not (abs(a - b) <= O_tol):
                return "O differs at bin %d: impl=%r model=%r" % (k // 4, a, b)
        elif not (a == b or (a != a and b != b)):
            return "%s differs at bin %d: impl=%r model=%r" % (names[k % 4], k // 4, a, b)
    if ii != im:
        for k, (a, b) in enumerate(zip(ii, im)):
            if a != b:
                return "%s differs at bin %d: impl=%d model=%d" % (["L", "K", "len(D)", "hash(D)", "D[0]", "D[-1]"][k % 6], k // 6, a, b)
        return "integer outputs differ in length"
    return None


def run_models(named_terms, shard=40):
    """named_terms: list of (key, coq_term). Returns {key: parsed model output or ('error', text)}."""
    files = {}
    keys = [k for k, _ in named_terms]
    for s in range(0, len(named_terms), shard):
        body = HEADER + "".join("Eval vm_compute in %s.\n" % t for _, t in named_terms[s:s + shard])
        files["sched_%d_%d" % (os.getpid(), s)] = (body, keys[s:s + shard])
    res = common.run_case_files({n: b for n, (b, _) in files.items()})
    out = {}
    for n, (body, ks) in files.items():
        rc, txt = res[n]
        evs = common.parse_evals(txt)
        if rc != 0 or len(evs) != len(ks):
            for k in ks:
                out[k] = ("error", txt[-800:])
            continue
        for k, e in zip(ks, evs):
            try:
                out[k] = parse_model(e)
            except Exception as ex:
                out[k] = ("error", "parse: %s: %s" % (ex, e[:200]))
    return out
