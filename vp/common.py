"""Shared driver pieces: environment pinning, Coq build/evaluation, evidence, verdict."""
import os, sys, json, time, re, subprocess, hashlib, fcntl, random, math, traceback

VERIF = os.path.dirname(os.path.dirname(os.path.abspath(__file__)))
REPO = os.environ.get("VERIF_REPO", "/repo")
COQ = os.path.join(VERIF, "coq")
NPROC = 16
GUARD = "MDOVALE_SPECKIT_VERIF"

ALLOWED_AXIOMS = {
    # Coq standard library axioms (Reals, classical logic, funext) — named in the trusted base
    "ClassicalDedekindReals.sig_forall_dec", "ClassicalDedekindReals.sig_not_dec",
    "FunctionalExtensionality.functional_extensionality_dep",
    "Classical_Prop.classic", "Eqdep.Eq_rect_eq.eq_rect_eq", "ProofIrrelevance.proof_irrelevance",
    "JMeq.JMeq_eq",
}


# native machine types/operations (Coq primitives; listed by Print Assumptions, not axioms of ours)
PRIMITIVES = {"float", "int", "classify", "frshiftexp", "normfr_mantissa", "of_uint63", "ldshiftexp", "next_up", "next_down", "sqrt", "abs", "compare"}


def pin_env():
    """Force the implementation under test to be /repo's working tree; fix hash seed; CUDA simulator."""
    os.environ["PYTHONPATH"] = REPO
    os.environ.setdefault("PYTHONHASHSEED", "0")
    os.environ.setdefault("NUMBA_ENABLE_CUDASIM", "1")
    os.environ[GUARD] = "1"
    if REPO not in sys.path:
        sys.path.insert(0, REPO)
    for m in list(sys.modules):
        if m == "speckit" or m.startswith("speckit."):
            f = getattr(sys.modules[m], "__file__", "") or ""
            if not f.startswith(REPO):
                del sys.modules[m]
    import logging
    logging.disable(logging.CRITICAL)
    import warnings
    warnings.filterwarnings("ignore")


def seed_from_env():
    try:
        return int(os.environ.get("VERIF_SEED", "0"))
    except ValueError:
        return 0


# ----------------------------------------------------------------------------- Coq
class CoqLock:
    def __enter__(self):
        self.f = open(os.path.join(COQ, ".lock"), "w")
        fcntl.flock(self.f, fcntl.LOCK_EX)
        return self
    def __exit__(self, *a):
        fcntl.flock(self.f, fcntl.LOCK_UN)
        self.f.close()


def write_if_changed(path, text):
    try:
        if open(path).read() == text:
            return False
    except FileNotFoundError:
        pass
    os.makedirs(os.path.dirname(path), exist_ok=True)
    with open(path, "w") as f:
        f.write(text)
    return True


def coq_make(targets, timeout=1500):
    """Build .vo targets (relative to coq/) with make -k; returns {target: (ok, errtext)}."""
    with CoqLock():
        if not os.path.exists(os.path.join(COQ, "Makefile")) or \
           os.path.getmtime(os.path.join(COQ, "Makefile")) < os.path.getmtime(os.path.join(COQ, "_CoqProject")):
            subprocess.run(["coq_makefile", "-f", "_CoqProject", "-o", "Makefile"], cwd=COQ,
                           stdout=subprocess.DEVNULL, stderr=subprocess.DEVNULL)
        p = subprocess.run(["timeout", str(timeout), "make", "-k", "-j%d" % NPROC] + list(targets),
                           cwd=COQ, stdout=subprocess.PIPE, stderr=subprocess.STDOUT, text=True)
    out = p.stdout
    res = {}
    for t in targets:
        ok = os.path.exists(os.path.join(COQ, t)) and _fresh(t)
        res[t] = (ok, "" if ok else _err_for(out, t))
    return res, out


def _fresh(vo):
    v = os.path.join(COQ, vo[:-1])  # .vo -> .v
    try:
        return os.path.getmtime(os.path.join(COQ, vo)) >= os.path.getmtime(v)
    except OSError:
        return False


def _err_for(out, t):
    v = t[:-1]
    m = re.search(r'File "\./%s", line (\d+)[^\n]*\n((?:.*\n){0,12})' % re.escape(v), out)
    return (m.group(0)[:1500] if m else out[-1500:])


def coqc_file(path, timeout=600, extra=()):
    """Compile one file with coqc (from coq/ with -Q . SK); returns (rc, stdout+stderr)."""
    p = subprocess.run(["timeout", str(timeout), "coqc", "-Q", ".", "SK"] + list(extra) + [path], cwd=COQ,
                       stdout=subprocess.PIPE, stderr=subprocess.STDOUT, text=True)
    return p.returncode, p.stdout


def theorem_names(vfile):
    txt = open(os.path.join(COQ, vfile)).read()
    return re.findall(r'^\s*(?:Theorem|Lemma|Corollary|Example)\s+([A-Za-z0-9_\']+)', txt, re.M)


def theorem_lines(vfile):
    out = []
    for i, l in enumerate(open(os.path.join(COQ, vfile)), 1):
        m = re.match(r'\s*(?:Theorem|Lemma|Corollary|Example)\s+([A-Za-z0-9_\']+)', l)
        if m:
            out.append((i, m.group(1)))
    return out


def parse_assumptions(out):
    """Collect axiom names printed by Print Assumptions."""
    ax = set()
    for blk in re.findall(r'Axioms:\n((?:.+\n?)+?)(?:\n|\Z)', out):
        for m in re.finditer(r'^([A-Za-z_][\w\.\']*)\s*$|^([A-Za-z_][\w\.\']*)\s+:', blk, re.M):
            nm = m.group(1) or m.group(2)
            if nm != "Axioms":
                ax.add(nm)
    closed = len(re.findall(r'Closed under the global context', out))
    return sorted(ax), closed


SRC_FORBIDDEN = re.compile(r'\b(Admitted|admit|Axiom|Axioms|Parameter|Parameters|Conjecture|Hypothesis|Variable)\b|Unset\s+Guard|bypass_check|type-in-type|impredicative-set|Admit Obligations')


def scan_sources():
    """Grep the development for forbidden declarations. Variable/Hypothesis are allowed inside a Section only."""
    bad = []
    for root, _, files in os.walk(COQ):
        if root.endswith("/cases"):
            continue
        for fn in files:
            if not fn.endswith(".v"):
                continue
            depth = 0
            txt = open(os.path.join(root, fn)).read()
            txt = re.sub(r'\(\*.*?\*\)', lambda m: re.sub(r'[^\n]', ' ', m.group(0)), txt, flags=re.S)
            for i, l in enumerate(txt.split("\n"), 1):
                if re.match(r'\s*Section\b', l):
                    depth += 1
                elif re.match(r'\s*End\b', l) and depth > 0:
                    depth -= 1
                for m in SRC_FORBIDDEN.finditer(l):
                    w = m.group(0)
                    if w in ("Variable", "Hypothesis") or w.startswith("Variable") or w.startswith("Hypothesis"):
                        if depth > 0:
                            continue
                    if w in ("Variables", "Hypotheses") and depth > 0:
                        continue
                    bad.append("%s:%d:%s" % (os.path.relpath(os.path.join(root, fn), COQ), i, w))
    return bad


# float <-> Coq literal
def fhex(x):
    x = float(x)
    if x != x:
        return "nan"
    if x == math.inf:
        return "infinity"
    if x == -math.inf:
        return "neg_infinity"
    h = x.hex()
    if h.startswith("-"):
        return "(-%s)" % h[1:]
    return h


_tok = re.compile(r'nan|neg_infinity|infinity|-?\d+\.?\d*(?:e[-+]?\d+)?')


def parse_evals(out):
    """Split coqc output into one token list per `Eval` (each result starts with '     = ')."""
    res = []
    cur = None
    for line in out.split("\n"):
        if line.startswith("     = "):
            if cur is not None:
                res.append(cur)
            cur = line[7:] + "\n"
        elif cur is not None:
            if line.startswith("     : "):
                res.append(cur)
                cur = None
            else:
                cur += line + "\n"
    if cur is not None:
        res.append(cur)
    return res


def tokens(s):
    out = []
    for t in _tok.findall(s):
        if t == "nan":
            out.append(math.nan)
        elif t == "infinity":
            out.append(math.inf)
        elif t == "neg_infinity":
            out.append(-math.inf)
        else:
            out.append(t)
    return out


def run_case_files(named_texts, timeout=900):
    """Write cases/<name>.v for each (name, text), compile them in parallel, return {name: (rc, out)}."""
    cdir = os.path.join(COQ, "cases")
    os.makedirs(cdir, exist_ok=True)
    procs = {}
    names = list(named_texts)
    res = {}
    i = 0
    running = []
    def launch(n):
        path = os.path.join(cdir, n + ".v")
        with open(path, "w") as f:
            f.write(named_texts[n])
        return subprocess.Popen(["timeout", str(timeout), "coqc", "-Q", ".", "SK", "-w", "-all", "cases/%s.v" % n], cwd=COQ,
                                stdout=subprocess.PIPE, stderr=subprocess.STDOUT, text=True)
    pending = list(names)
    while pending or running:
        while pending and len(running) < NPROC:
            n = pending.pop(0)
            running.append((n, launch(n)))
        n, p = running.pop(0)
        out, _ = p.communicate()
        res[n] = (p.returncode, out)
        for ext in (".v", ".vo", ".vok", ".vos", ".glob"):
            try:
                os.remove(os.path.join(cdir, n + ext))
            except OSError:
                pass
        try:
            os.remove(os.path.join(cdir, "." + n + ".aux"))
        except OSError:
            pass
    return res


# ----------------------------------------------------------------------------- known findings
def load_known():
    try:
        return json.load(open(os.path.join(VERIF, "known_findings.json")))
    except FileNotFoundError:
        return {"findings": [], "fixed": []}


# ----------------------------------------------------------------------------- Check object
class Check:
    def __init__(self, pid, tier, seed):
        self.pid, self.tier, self.seed = pid, tier, seed
        self.t0 = time.time()
        self.obl = []          # (name, ok, detail)
        self.samples = []
        self.violations = []   # dict(what=..., input=..., kind='failing-input'|'no-failing-input')
        self.known_hits = []
        self.cov = {}
        self.assumptions = []
        self.trusted = []
        self.checker_cmds = []
        self.rng = random.Random(seed * 7919 + int(hashlib.sha1(pid.encode()).hexdigest()[:6], 16))
        self.known = [k for k in load_known().get("findings", []) if k.get("property") == pid]

    # obligations -------------------------------------------------------------
    def obligation(self, name, ok, detail=""):
        self.obl.append((name, bool(ok), detail))
        return bool(ok)

    def build_theorems(self, pfile, deps=()):
        """Build dependency .vo files, then compile Properties/<pid>.v capturing Print Assumptions.
        Each Theorem in the property file is one obligation."""
        targets = [d if d.endswith(".vo") else d + ".vo" for d in deps]
        if targets:
            res, log = coq_make(targets)
            self.checker_cmds.append("make -C coq -k -j16 " + " ".join(targets))
            for t, (ok, err) in res.items():
                self.obligation("build:" + t, ok, err)
        rc, out = coqc_file(pfile)
        self.checker_cmds.append("coqc -Q . SK " + pfile)
        names = theorem_lines(pfile)
        failline = None
        if rc != 0:
            m = re.search(r'line (\d+)', out)
            failline = int(m.group(1)) if m else 0
        for k, (ln, nm) in enumerate(names):
            nxt = names[k + 1][0] if k + 1 < len(names) else 10 ** 9
            ok = rc == 0 or (failline is not None and failline >= nxt)
            self.obligation("theorem:" + nm, ok, "" if ok else out[-1200:])
        ax, closed = parse_assumptions(out)
        for a in ax:
            short = a
            if not any(a.endswith(x.split(".")[-1]) for x in ALLOWED_AXIOMS) and not re.match(r'(PrimFloat|Uint63|PrimInt63|FloatAxioms|PrimString)\.', a) \
               and a not in PRIMITIVES:
                self.obligation("axiom-allowed:" + a, False, "unexpected axiom in Print Assumptions")
        self.trusted.append("Print Assumptions (%s): %s; closed=%d" % (pfile, ", ".join(ax) if ax else "none", closed))
        bad = scan_sources()
        self.obligation("source-scan:no Admitted/Axiom/Parameter/guard-off", not bad, "; ".join(bad[:10]))
        return rc == 0

    # violations ---------------------------------------------------------------
    def is_known(self, tag, inp):
        for k in self.known:
            if k.get("tag") == tag or (k.get("tag_prefix") and str(tag).startswith(k["tag_prefix"])):
                pred = k.get("when")
                try:
                    if pred is None or eval(pred, {"math": math}, dict(inp if isinstance(inp, dict) else {"x": inp})):
                        return k
                except Exception:
                    continue
        return None

    def violation(self, what, inp, tag=None):
        k = self.is_known(tag, inp) if tag else None
        if k is not None:
            if k["id"] not in [h["id"] for h in self.known_hits]:
                self.known_hits.append({"id": k["id"], "what": k["what"], "example": inp})
            return False
        self.violations.append({"what": what, "input": inp, "tag": tag, "kind": "failing-input"})
        return True

    def unproved(self, what, names):
        self.violations.append({"what": what, "input": {"obligations": names}, "tag": None, "kind": "no-failing-input"})

    def finish(self):
        wall = time.time() - self.t0
        nobl = len(self.obl)
        ndis = sum(1 for o in self.obl if o[1])
        broken = [o for o in self.obl if not o[1]]
        fail_inputs = [v for v in self.violations if v["kind"] == "failing-input"]
        if broken and not fail_inputs and not any(v["kind"] == "no-failing-input" for v in self.violations):
            self.unproved("obligations no longer check and the search found no failing input", [b[0] for b in broken])
        for h in self.known_hits:
            print("KNOWN-FINDING: property=%s %s" % (self.pid, h["what"]))
        rc = 0
        os.makedirs(os.path.join(VERIF, "replays"), exist_ok=True)
        lines = []
        if self.violations:
            rc = 1
            v = fail_inputs[0] if fail_inputs else self.violations[0]
            rp = os.path.join(VERIF, "replays", "%s-%s-%d.json" % (self.pid, self.tier, self.seed))
            json.dump({"property": self.pid, "tier": self.tier, "seed": self.seed, "violation": v,
                       "all_violations": self.violations[:20],
                       "broken_obligations": [{"name": b[0], "detail": b[2][:2000]} for b in broken]},
                      open(rp, "w"), indent=1, default=str)
            tail = "" if fail_inputs else " no-failing-input-found"
            lines.append("VIOLATION property=%s replay=%s%s" % (self.pid, rp, tail))
        cov = dict(self.cov)
        cov.update({
            "obligations": nobl, "discharged": ndis,
            "checker_cmd": "; ".join(dict.fromkeys(self.checker_cmds)) or "coqc",
            "trusted_base": self.trusted,
            "samples": self.samples[:12] if self.samples else [o[0] for o in self.obl[:12]],
            "obligation_names": [o[0] for o in self.obl],
            "broken_obligations": [b[0] for b in broken],
            "known_findings_hit": [h["id"] for h in self.known_hits],
        })
        ev = {"property_id": self.pid, "tier": self.tier, "seed": self.seed, "level": "proof",
              "coverage": cov, "assumptions": self.assumptions, "wall_s": round(wall, 2),
              "violations": len(self.violations)}
        os.makedirs(os.path.join(VERIF, "evidence"), exist_ok=True)
        json.dump(ev, open(os.path.join(VERIF, "evidence", self.pid + ".json"), "w"), indent=1, default=str)
        for l in lines:
            print(l)
        print("%s tier=%s obligations=%d discharged=%d violations=%d known=%d wall=%.1fs" %
              (self.pid, self.tier, nobl, ndis, len(self.violations), len(self.known_hits), wall))
        return rc
