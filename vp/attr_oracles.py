"""Direct property oracles on real SpectrumResults (used for the failing-input search of C06, C09, C10, C11, C20)."""
import copy, pickle, math
import numpy as np
from .attrs import resolve_kw

CROSS_ONLY = ["csd", "Gyx", "Hxy", "Hyx", "coh", "ccoh", "cs", "tf", "cf", "cf_db", "cf_rad", "cf_deg", "cf_rad_unwrapped",
              "cf_deg_unwrapped", "GyyCx", "GyyRx", "GyySx", "Gxy_dev", "Hxy_dev", "coh_dev", "Gxy_error", "Hxy_mag_error",
              "Hxy_rad_error", "Hxy_deg_error", "coh_error", "Gxy_emp_dev"]
AUTO_ONLY = ["psd", "asd", "ps", "G", "Gxx_emp_dev"]
ALL_DYNAMIC = ["Gxx", "Gyy", "Gxy", "ENBW", "Gxx_dev", "Gyy_dev", "Gxx_error", "Gyy_error", "XX_mean", "YY_mean", "XY_M2", "XY_emp_var", "XY_emp_dev"] + CROSS_ONLY + AUTO_ONLY


def close(a, b, rtol=1e-10, atol=0.0):
    a = np.asarray(a); b = np.asarray(b)
    with np.errstate(all="ignore"):
        ok = np.abs(a - b) <= atol + rtol * np.maximum(np.abs(a), np.abs(b))
        ok |= (np.isnan(a) & np.isnan(b)) | ((a == b))
    return bool(np.all(ok))


def first_bad(a, b, rtol=1e-10, atol=0.0):
    a = np.asarray(a); b = np.asarray(b)
    with np.errstate(all="ignore"):
        ok = (np.abs(a - b) <= atol + rtol * np.maximum(np.abs(a), np.abs(b))) | (np.isnan(a) & np.isnan(b)) | (a == b)
    j = int(np.nonzero(~ok)[0][0])
    return j, a[j], b[j]


# ----------------------------------------------------------------------------- C20
def oracle_c20(r, an, info, rng):
    out = []
    def rel(tag, a, b, **kw):
        if not close(a, b, **kw):
            j, x, y = first_bad(a, b, **kw)
            out.append((tag, "%s: bin %d: %r vs %r" % (tag, j, x, y)))
    with np.errstate(all="ignore"):
        # None table on a fresh result, before anything else is touched
        for nm in (CROSS_ONLY if not r.iscsd else AUTO_ONLY):
            if getattr(r, nm) is not None:
                out.append(("none:" + nm, "%s is not None on a%s result" % (nm, " cross" if r.iscsd else "n auto")))
        if not r.iscsd:
            rel("asd2=psd", r.asd ** 2, r.psd, rtol=1e-12)
            rel("ps=psd*ENBW", r.ps, r.psd * r.ENBW, rtol=1e-13)
            rel("psd=Gxx", r.psd, r.Gxx, rtol=0); rel("G=Gxx", r.G, r.Gxx, rtol=0)
        else:
            rel("cs=csd*ENBW", r.cs, r.csd * r.ENBW, rtol=1e-13)
            rel("cf=|Hxy|", r.cf, np.abs(r.Hxy), rtol=1e-13)
            m = r.cf > 0
            rel("cf_db=20log10(cf)", r.cf_db[m], 20 * np.log10(r.cf[m]), rtol=1e-12, atol=1e-12)
            if np.any(~m) and not np.all(np.isneginf(np.asarray(r.cf_db)[~m])):
                out.append(("cf_db=20log10(cf)", "cf_db is %r where cf = 0 (20*log10(0) = -inf)" % float(np.asarray(r.cf_db)[~m][0])))
            rel("cf_deg=cf_rad*180/pi", r.cf_deg, r.cf_rad * 180 / np.pi, rtol=1e-12, atol=1e-12)
            rel("cf_deg_unwrapped=cf_rad_unwrapped*180/pi", r.cf_deg_unwrapped, r.cf_rad_unwrapped * 180 / np.pi, rtol=1e-12, atol=1e-12)
            rel("Hxy_deg_error=rad*180/pi", r.Hxy_deg_error, r.Hxy_rad_error * 180 / np.pi, rtol=1e-12)
            rel("Gyx=conj(Gxy)", r.Gyx, np.conj(r.Gxy), rtol=0); rel("Hyx=conj(Hxy)", r.Hyx, np.conj(r.Hxy), rtol=0)
            rel("tf=Hxy", r.tf, r.Hxy, rtol=0); rel("csd=Gxy", r.csd, r.Gxy, rtol=0)
            rel("cf_rad=angle(Hxy)", r.cf_rad, np.angle(r.Hxy), rtol=1e-13, atol=1e-15)
        # interpolation
        f = np.asarray(r.f, float)
        names = (["Gxx", "L", "K", "navg", "ENBW"] + (["Gxy", "Hxy", "coh", "cf_rad", "cf_deg", "cf", "cf_rad_unwrapped"] if r.iscsd else ["asd", "psd"]))
        for nm in names:
            tab = np.asarray(getattr(r, nm))
            if len(f) >= 2 and np.all(np.diff(f) > 0):
                j = rng.randrange(len(f) - 1); t = rng.choice([0.25, 0.5, 0.9])
                if nm in ("cf_rad", "cf_deg") and np.all(np.isfinite(tab)):
                    # tabulated wrapped phases are interpolated as tabulated (linearly), also across an interval where the phase wraps
                    wraps = np.nonzero(np.abs(np.diff(tab)) > (np.pi if nm == "cf_rad" else 180.0))[0]
                    if len(wraps):
                        j = int(wraps[rng.randrange(len(wraps))])
                q = [f[j], f[j] + t * (f[j + 1] - f[j]), f[0] - 1.0, f[-1] + 1.0]
                exp = [tab[j], tab[j] + (tab[j + 1] - tab[j]) * ((q[1] - f[j]) / (f[j + 1] - f[j])), tab[0], tab[-1]]
                got = [r.get_measurement(float(x), nm) for x in q]
                arr = r.get_measurement(np.array(q), nm)
                for k, lab in enumerate(["at grid frequency", "between grid frequencies", "below range", "above range"]):
                    # phases of (anti)parallel channels are rounding noise around 0 or +-180: compare those on the scale of the tabulated values
                    at = 1e-300 if nm not in ("cf_rad", "cf_deg", "cf_rad_unwrapped") else 1e-11 * (1.0 + float(np.max(np.abs(tab[np.isfinite(tab)]), initial=0.0)))
                    if not close(got[k], exp[k], rtol=1e-9, atol=at) or not close(arr[k], exp[k], rtol=1e-9, atol=at):
                        out.append(("interp:" + nm, "get_measurement(%r, %r) %s: got %r / %r, expected %r" % (q[k], nm, lab, got[k], arr[k], exp[k])))
                        break
            elif len(f) == 1:      # (a user plan listing bins out of order is outside np.interp's contract: not interpolated here)
                got = r.get_measurement(float(f[0]), nm)
                if not close(got, tab[0], rtol=1e-12):
                    out.append(("interp:" + nm, "single-bin get_measurement: %r vs %r" % (got, tab[0])))
        # DataFrame export: exactly the per-bin arrays, indexed by frequency
        try:
            df = r.to_dataframe()
            n = len(f)
            exp_cols = set()
            for nm in set(dir(r)) - {"iscsd", "fs"}:
                if nm.startswith("_"):
                    continue
                try:
                    v = getattr(r, nm)
                except AttributeError:
                    continue
                if callable(v):
                    continue
                if isinstance(v, np.ndarray) and v.shape[:1] == (n,) and nm != "f":
                    exp_cols.add(nm)
            # per-bin arrays that MUST be there
            must = {"XX", "S2", "Gxx", "ENBW", "L", "K", "navg", "D"} | ({"Gxy", "coh", "Hxy"} if r.iscsd else {"psd", "asd"})
            # every stored per-bin array (first dimension = number of bins), whatever its dtype or inner shape
            must |= {k for k, v in r._data.items() if isinstance(v, np.ndarray) and v.ndim >= 1 and v.shape[0] == n and k != "f"}
            if not must <= set(df.columns):
                out.append(("df:missing", "to_dataframe lacks columns %s" % sorted(must - set(df.columns))))
            inappl = set(AUTO_ONLY if r.iscsd else CROSS_ONLY)
            if set(df.columns) & inappl:
                out.append(("df:extra", "to_dataframe has inapplicable columns %s" % sorted(set(df.columns) & inappl)))
            if not np.array_equal(np.asarray(df.index, float), f):
                out.append(("df:index", "to_dataframe index is not the frequency vector"))
            for c in ("Gxx", "XX", "L"):
                if c in df.columns and not np.array_equal(np.asarray(df[c]), np.asarray(getattr(r, c))):
                    out.append(("df:values", "to_dataframe column %s differs from the attribute" % c))
            if "D" in df.columns and any(not np.array_equal(np.asarray(a), np.asarray(b)) for a, b in zip(df["D"], r.D)):
                out.append(("df:values", "to_dataframe column D differs from the per-bin segment starts"))
        except Exception as e:
            out.append(("df:exc", "to_dataframe raised %s: %s" % (type(e).__name__, str(e)[:100])))
        # None table again after everything has been accessed (access-order independence)
        for nm in (CROSS_ONLY if not r.iscsd else AUTO_ONLY):
            if getattr(r, nm) is not None:
                out.append(("none-late:" + nm, "%s is not None after other attributes were accessed" % nm))
        # copy / deepcopy / pickle
        for lab, fn in (("copy", copy.copy), ("deepcopy", copy.deepcopy), ("pickle", lambda o: pickle.loads(pickle.dumps(o)))):
            try:
                r2 = fn(r)
            except Exception as e:
                out.append((lab + ":exc", "%s raised %s: %s" % (lab, type(e).__name__, str(e)[:80]))); continue
            # the clone is a complete result: size, text form and scalar fields as the original
            try:
                if len(r2) != len(r) or int(r2.nf) != int(r.nf) or repr(r2) != repr(r) or r2.iscsd != r.iscsd or float(r2.fs) != float(r.fs):
                    out.append((lab + ":scalars", "%s: len/nf/repr/iscsd/fs of the clone differ from the original" % lab)); continue
            except Exception as e:
                out.append((lab + ":scalars", "%s: len()/nf/repr() of the clone raise %s: %s" % (lab, type(e).__name__, str(e)[:80]))); continue
            for nm in ["f", "XX", "XY", "Gxx", "ENBW", "L", "navg"] + (["coh", "Hxy", "psd"] if r.iscsd else ["asd", "psd", "coh"]):
                a, b = getattr(r, nm), getattr(r2, nm)
                if (a is None) != (b is None) or (a is not None and not np.array_equal(np.asarray(a), np.asarray(b), equal_nan=True)):
                    out.append((lab + ":" + nm, "%s: attribute %s differs after %s" % (lab, nm, lab))); break
    return out


# ----------------------------------------------------------------------------- C09
def oracle_c09(r, an, info, rng):
    out = []
    if not r.iscsd:
        return out
    from speckit.analysis import SpectrumAnalyzer
    with np.errstate(all="ignore"):
        coh = r.coh
        if np.any(coh < 0) or np.any(coh > 1 + 1e-12):
            j = int(np.nonzero((coh < 0) | (coh > 1 + 1e-12))[0][0]); out.append(("coh-range", "coherence %r outside [0,1] at bin %d" % (coh[j], j)))
        if np.any(np.abs(r.Gxy) ** 2 > r.Gxx * r.Gyy * (1 + 1e-12) + 1e-300):
            out.append(("CS", "|Gxy|^2 > Gxx*Gyy"))
        one = (np.asarray(r.navg) == 1) & (r._data["XX"] > 0) & (r._data["YY"] > 0)
        if np.any(np.abs(coh[one] - 1) > 1e-9):
            out.append(("coh1:single", "coherence != 1 on a single-segment bin: %r" % coh[one][np.argmax(np.abs(coh[one] - 1))]))
        if info["kind"] in ("identical", "scaled"):
            # bins whose detrended segments are pure rounding residue (e.g. order 2 on L = 3: XX ~ eps^2 * power) carry no signal:
            # the two channels' residues are independent rounding noise there, so the statement is restricted to bins above that floor
            xs = np.asarray(info["x"], float)
            m = (r._data["XX"] > np.maximum(1e-280, 1e-18 * float(np.mean(xs * xs)) * np.asarray(r.L, float)))
            if np.any(np.abs(coh[m] - 1) > 1e-8):
                out.append(("coh1:dependent", "coherence != 1 for linearly dependent channels: %r" % coh[m][np.argmax(np.abs(coh[m] - 1))]))
        if info["which"] != "single":
            rf = an.compute()        # a fresh result object
            base = ["Gxy", "csd", "Gxx", "Gyy", "coh", "Hxy"]
            before = {nm: np.array(getattr(rf, nm), copy=True) for nm in base}
            for nm in ("cs", "Gyx", "Hyx", "GyySx", "GyyCx", "GyyRx", "ccoh"):
                getattr(rf, nm)
            try:
                rf.to_dataframe()
            except Exception:
                pass
            for nm, v0 in before.items():
                v1 = np.asarray(getattr(rf, nm))
                if not np.array_equal(v0, v1, equal_nan=True):
                    j1 = int(np.nonzero(~((v0 == v1) | (np.isnan(v0) & np.isnan(v1))))[0][0])
                    out.append(("stable:" + nm, "%s changes after cs / Gyx / the residual views / the export have been read from the same result: %r -> %r at bin %d" % (nm, v0[j1], v1[j1], j1)))
                    break
        if not close(r.GyyCx + r.GyyRx, r.Gyy, rtol=1e-12, atol=1e-300):
            out.append(("Cx+Rx", "GyyCx + GyyRx != Gyy"))
        scale = np.maximum(r.Gyy, 1e-300)
        if np.any(np.abs(r.GyySx - r.Gyy * (1 - coh)) > 1e-9 * scale):
            j = int(np.argmax(np.abs(r.GyySx - r.Gyy * (1 - coh)) / scale)); out.append(("Sx", "GyySx=%r != Gyy*(1-coh)=%r at bin %d" % (r.GyySx[j], (r.Gyy * (1 - coh))[j], j)))
        # swap channels and analyse x alone (same configuration)
        if info["which"] != "single":
            kw = resolve_kw(info["kw"])
            rs = SpectrumAnalyzer(np.vstack([info["y"], info["x"]]), info["fs"], **kw).compute()
            ra = SpectrumAnalyzer(info["x"], info["fs"], **kw).compute()
            if not close(rs.coh, coh, rtol=1e-9, atol=1e-12):
                out.append(("swap:coh", "coherence changes when channels are swapped"))
            if not close(rs.Gxy, r.Gyx, rtol=1e-10, atol=1e-300 + 1e-12 * float(np.max(np.abs(r.Gxy)))):
                out.append(("swap:Gxy", "Gxy of swapped channels is not conj(Gxy)"))
            if not (close(rs.Gxx, r.Gyy, rtol=1e-10) and close(rs.Gyy, r.Gxx, rtol=1e-10)):
                out.append(("swap:Gxx", "Gxx/Gyy do not exchange when channels are swapped"))
            if not close(ra.Gxx, r.Gxx, rtol=1e-10):
                out.append(("auto-in-pair", "Gxx of x alone differs from Gxx of the pair"))
    return out


# ----------------------------------------------------------------------------- C10
def oracle_c10(r, an, info, rng):
    out = []
    with np.errstate(all="ignore"):
        n = np.asarray(r.navg, float)
        def rel(tag, a, b, m=None, rtol=1e-10):
            a = np.asarray(a); b = np.asarray(b)
            if m is not None:
                a, b = a[m], b[m]
            if not close(a, b, rtol=rtol, atol=1e-300):
                j, x, y = first_bad(a, b, rtol=rtol, atol=1e-300); out.append((tag, "%s: %r vs textbook %r" % (tag, x, y)))
        rel("Gxx_dev", r.Gxx_dev, r.Gxx / np.sqrt(n)); rel("Gxx_error", r.Gxx_error, 1 / np.sqrt(n))
        rel("Gyy_dev", r.Gyy_dev, r.Gyy / np.sqrt(n)); rel("Gyy_error", r.Gyy_error, 1 / np.sqrt(n))
        if r.iscsd:
            g = r.coh
            m = (g > 1e-6) & (g <= 1)
            rel("Gxy_dev", r.Gxy_dev, np.abs(r.Gxy) / np.sqrt(g * n), m)
            rel("Gxy_error", r.Gxy_error, 1 / np.sqrt(g * n), m)
            rel("Hxy_dev", r.Hxy_dev, np.abs(r.Hxy) * np.sqrt(1 - g) / np.sqrt(2 * g * n), m, rtol=1e-8)
            rel("Hxy_mag_error", r.Hxy_mag_error, np.sqrt(1 - g) / np.sqrt(2 * g * n), m, rtol=1e-8)
            rel("Hxy_rad_error", r.Hxy_rad_error, np.arcsin(np.sqrt(1 - g)) / np.sqrt(2 * g * n), m, rtol=1e-8)
            rel("Hxy_deg_error", r.Hxy_deg_error, r.Hxy_rad_error * 180 / np.pi, m)
            rel("coh_dev", r.coh_dev, np.sqrt(2 * g) * (1 - g) / np.sqrt(n), m, rtol=1e-8)
            rel("coh_error", r.coh_error, np.sqrt(2) * (1 - g) / (np.sqrt(g) * np.sqrt(n)), m, rtol=1e-8)
            rel("Gxy_dev=|Gxy|*err", r.Gxy_dev, np.abs(r.Gxy) * r.Gxy_error, m)
            rel("Hxy_dev=|H|*err", r.Hxy_dev, np.abs(r.Hxy) * r.Hxy_mag_error, m, rtol=1e-9)
            rel("coh_dev=coh*err", r.coh_dev, g * r.coh_error, m, rtol=1e-8)
            me, re_ = r.Hxy_mag_error[m], r.Hxy_rad_error[m]
            if np.any(re_ < me * (1 - 1e-9)) or np.any(re_ > np.pi / 2 * me * (1 + 1e-9)):
                out.append(("phase-bounds", "phase error outside [mag_error, pi/2*mag_error]"))
        rel("Gxx_dev=Gxx*err", r.Gxx_dev, r.Gxx * r.Gxx_error)
        # navg comes from the plan: equals the number of segment starts
        D = r._data["D"]
        for j in range(len(n)):
            if int(n[j]) != len(np.asarray(D[j]).ravel()):
                out.append(("navg", "navg[%d]=%d but the bin has %d segment starts" % (j, int(n[j]), len(np.asarray(D[j]).ravel())))); break
    return out


# ----------------------------------------------------------------------------- C11
def per_segment_xy(an, r, j):
    """Per-segment cross products of bin j, each from a K=1 kernel call."""
    import speckit.core as C
    from speckit.core import _build_Q
    d = r._data
    L = int(d["L"][j]); f = float(d["f"][j]); starts = np.asarray(d["D"][j]).ravel().astype(np.int64)
    cfg = an.config
    wf = cfg["win_func"]
    w = wf(L + 1, cfg["alpha"] * np.pi)[:-1] if cfg.get("alpha") is not None else wf(L)
    w = np.asarray(w, float)
    om = 2 * np.pi * f / an.fs
    order = cfg["order"]
    name = {-1: "win_only", 0: "detrend0", 1: "poly", 2: "poly"}[order]
    fn = getattr(C, "_stats_%s_%s" % (name, "csd" if an.iscsd else "auto"))
    vals = []
    for s in starts:
        args = ([an.x1, an.x2] if an.iscsd else [an.x1]) + [np.array([s], dtype=np.int64), L, w, om]
        if order in (1, 2):
            args.append(_build_Q(L, order))
        o = fn(*args)
        vals.append(complex(o[2], o[3]))
    return np.array(vals)


def oracle_c11(r, an, info, rng):
    out = []
    # the count the empirical variance is divided by is the number of segments actually averaged (the starts the result reports)
    try:
        nd = np.array([len(np.asarray(dj).ravel()) for dj in r.D])
        if not (np.array_equal(nd, np.asarray(r.navg).astype(int)) and np.array_equal(nd, np.asarray(r.K).astype(int))):
            j = int(np.nonzero((nd != np.asarray(r.navg).astype(int)) | (nd != np.asarray(r.K).astype(int)))[0][0])
            out.append(("navg=len(D)", "bin %d: navg=%d, K=%d but %d segment starts are reported" % (j, int(r.navg[j]), int(r.K[j]), int(nd[j]))))
    except Exception as e:
        out.append(("navg=len(D)", "cannot compare navg with the reported starts: %s" % e))
    with np.errstate(all="ignore"):
        d = r._data
        n = np.asarray(d["navg"], float); M2 = np.asarray(d["M2"], float); S2 = np.asarray(d["S2"], float)
        if np.any(M2 < 0):
            out.append(("M2<0", "negative scatter statistic"))
        if np.any(M2[n == 1] != 0):
            out.append(("M2:single", "M2 != 0 on a single-segment bin"))
        ev = np.where(n > 0, M2 / n, 0.0)
        if not close(r.XY_emp_var, ev, rtol=1e-13):
            out.append(("emp_var", "XY_emp_var != M2/navg"))
        if not close(r.XY_emp_dev, np.sqrt(ev), rtol=1e-13):
            out.append(("emp_dev", "XY_emp_dev != sqrt(M2/navg)"))
        sc = 2 / (r.fs * S2) * np.sqrt(ev)
        a, b = (r.Gxy_emp_dev, r.Gxx_emp_dev) if r.iscsd else (r.Gxx_emp_dev, r.Gxy_emp_dev)
        if a is None or not close(a, sc, rtol=1e-12):
            out.append(("spectral-units", "%s != 2/(fs*S2)*sqrt(M2/navg)" % ("Gxy_emp_dev" if r.iscsd else "Gxx_emp_dev")))
        if b is not None:
            out.append(("other-mode", "empirical deviation of the other mode is not None"))
        if not close(r.XY_M2, M2, rtol=0):
            out.append(("XY_M2", "XY_M2 is not the stored scatter statistic"))
        # population variance of the per-segment cross products (a few bins)
        for j in sorted(set([0, len(n) - 1, rng.randrange(len(n))])):
            if n[j] > 400:
                continue
            xy = per_segment_xy(an, r, j)
            mu = xy.mean()
            var = float(np.mean(np.abs(xy - mu) ** 2)) if len(xy) >= 2 else 0.0
            sc2 = float(np.mean(np.abs(xy)) ** 2) + 1e-300
            if abs(var - M2[j]) > 1e-8 * sc2:
                out.append(("M2=popvar", "bin %d: M2=%r but the population variance of the %d per-segment cross products is %r" % (j, M2[j], len(xy), var))); break
            if abs(mu - d["XY"][j]) > 1e-9 * math.sqrt(sc2):
                out.append(("XY=mean", "bin %d: XY is not the mean of the per-segment cross products" % j)); break
    return out


# ----------------------------------------------------------------------------- C06
def oracle_c06(r, an, info, rng):
    out = []
    from speckit.analysis import SpectrumAnalyzer
    with np.errstate(all="ignore"):
        d = r._data
        cfg = an.config
        for j in sorted(set([0, len(d["f"]) - 1])):
            L = int(d["L"][j])
            wf = cfg["win_func"]
            w = np.asarray(wf(L + 1, cfg["alpha"] * np.pi)[:-1] if cfg.get("alpha") is not None else wf(L), float)
            S1, S2 = float(np.sum(w)), float(np.sum(w * w))
            if not (close(d["S2"][j], S2, rtol=1e-12) and close(d["S12"][j], S1 * S1, rtol=1e-12)):
                out.append(("window-sums", "bin %d: stored window sums differ from sum(w^2), (sum w)^2 of the length-%d window" % (j, L)))
            if S1 != 0 and not close(r.ENBW[j], r.fs * S2 / (S1 * S1), rtol=1e-12):
                out.append(("ENBW", "bin %d: ENBW=%r != fs*S2/S1^2=%r" % (j, r.ENBW[j], r.fs * S2 / (S1 * S1))))
        if info["which"] != "single":
            kw = resolve_kw(info["kw"])
            c = rng.choice([-3.0, 0.5, 7.0]); dd = rng.choice([2.0, -0.25])
            # absolute floor: rounding noise relative to the channel's total power (a detrended constant is pure noise)
            with np.errstate(all="ignore"):
                sx = 2 * float(np.mean(info["x"] ** 2)) * d["S12"] / (r.fs * d["S2"]) + 1e-300
                sy = 2 * float(np.mean(info["y"] ** 2)) * d["S12"] / (r.fs * d["S2"]) + 1e-300
            def ok(a, b, sc):
                return bool(np.all(np.abs(np.asarray(a) - np.asarray(b)) <= 1e-9 * np.maximum(np.abs(a), np.abs(b)) + 1e-10 * sc))
            if r.iscsd:
                r2 = SpectrumAnalyzer(np.vstack([c * info["x"], dd * info["y"]]), info["fs"], **kw).compute()
                if not ok(r2.Gxx, c * c * r.Gxx, c * c * sx) or not ok(r2.Gyy, dd * dd * r.Gyy, dd * dd * sy):
                    out.append(("scale:density", "scaling a channel by c does not scale its density by c^2"))
                if not ok(r2.Gxy, c * dd * r.Gxy, abs(c * dd) * np.sqrt(sx * sy)):
                    out.append(("scale:cross", "scaling channels by c,d does not scale the cross density by c*d"))
                m = (r.coh > 1e-6) & (r.Gxx > 1e-6 * sx) & (r.Gyy > 1e-6 * sy)
                if not close(r2.coh[m], r.coh[m], rtol=1e-7):
                    out.append(("scale:coh", "coherence changes under channel scaling"))
                if not close(r2.Hxy[m], (dd / c) * r.Hxy[m], rtol=1e-7):
                    out.append(("scale:tf", "transfer function does not scale by the ratio d/c"))
            else:
                r2 = SpectrumAnalyzer(c * info["x"], info["fs"], **kw).compute()
                if not ok(r2.Gxx, c * c * r.Gxx, c * c * sx):
                    out.append(("scale:density", "scaling the record by c does not scale the density by c^2"))
            a = rng.choice([0.5, 4.0])   # power of two: the plan is bit-identical up to the relabelling
            data = np.vstack([info["x"], info["y"]]) if r.iscsd else info["x"]
            r3 = SpectrumAnalyzer(data, a * info["fs"], **kw).compute()
            if len(r3.f) != len(r.f) or not close(r3.f, a * r.f, rtol=1e-12):
                out.append(("relabel:f", "relabelling fs by a does not multiply the frequencies by a"))
            elif not (close(r3.ENBW, a * r.ENBW, rtol=1e-12) and ok(r3.Gxx, r.Gxx / a, sx / a)):
                out.append(("relabel:density", "relabelling fs by a does not scale ENBW by a / densities by 1/a"))
    # the calibrated quantities are the same before and after the error bars (and the export) have been read from the same result
    with np.errstate(all="ignore"):
        if info["which"] != "single":
            r = an.compute()          # a fresh result object: nothing has been read from it yet
        base = ["Gxx", "Gyy", "ENBW"] + (["Gxy", "cs", "Hxy", "coh"] if r.iscsd else ["psd", "asd", "ps", "G"])
        before = {nm: np.array(getattr(r, nm), copy=True) for nm in base if getattr(r, nm) is not None}
        for nm in ["Gxx_dev", "Gyy_dev", "Gxx_error", "Gyy_error"] + (["cs", "Gxy_dev", "Gxy_error", "Hxy_dev", "coh_dev", "coh_error"] if r.iscsd else ["ps", "asd", "psd", "G"]):
            try:
                getattr(r, nm)
            except AttributeError:
                pass
        try:
            r.to_dataframe()
        except Exception:
            pass
        for nm, v0 in before.items():
            v1 = np.asarray(getattr(r, nm))
            if not np.array_equal(v0, v1, equal_nan=True):
                j1 = int(np.nonzero(~((v0 == v1) | (np.isnan(v0) & np.isnan(v1))))[0][0])
                out.append(("stable:" + nm, "%s changes after the error bars have been read from the same result: %r -> %r at bin %d" % (nm, v0[j1], v1[j1], j1)))
                break
    return out


def sinusoid_calibration(rng, n=16):
    """ps at the sinusoid's own frequency = A^2/2 (single-bin analyses, Kaiser psll in [60,200])."""
    from speckit.analysis import SpectrumAnalyzer
    out = []
    worst = 0.0
    for _ in range(n):
        N = rng.choice([4000, 10000]); fs = rng.choice([1.0, 50.0]); L = rng.choice([64, 100, 1000])
        psll = rng.choice([60, 100, 150, 200]); A = rng.choice([0.1, 1.0, 30.0]); ph = rng.uniform(0, 2 * np.pi)
        from speckit.utils import kaiser_alpha
        lobe = math.sqrt(1 + kaiser_alpha(psll) ** 2) + 1
        b = rng.uniform(lobe, L / 2 - lobe)
        if b <= lobe:
            continue
        f0 = b * fs / L
        t = np.arange(N) / fs
        x = A * np.cos(2 * np.pi * f0 * t + ph)
        an = SpectrumAnalyzer(x, fs, win="kaiser", psll=psll, order=rng.choice([-1, 0]))
        if rng.random() < 0.5:
            r = an.compute_single_bin(f0, L=L)
        else:
            # request by resolution with non-integer fs/fres (L is rounded to the same value)
            r = an.compute_single_bin(f0, fres=fs / (L + rng.choice([0.3, -0.4, 0.45])))
        err = abs(float(r.ps[0]) / (A * A / 2) - 1)
        worst = max(worst, err)
        if err > 3 * 10 ** (-psll / 20) + 1e-9:
            out.append(("sinusoid", "ps/(A^2/2)-1 = %.3e for A=%g L=%d psll=%g bin=%.3f phase=%.3f" % (err, A, L, psll, b, ph),
                        dict(N=N, fs=fs, L=L, psll=psll, A=A, phase=ph, bin=b)))
    return out, worst
