"""T3 — extract the backend/order/mode dispatch of SpectrumAnalyzer._lpsd_core and compute_single_bin
(speckit/analysis.py) into a finite table: for every path (order, is-cross, backend) the callee and its argument
names, plus the expressions of omega and of the window construction. Fail-closed."""
import ast, os, json

class TranslateError(Exception):
    pass

ORDERS = [-1, 0, 1, 2]
BACKENDS = ["cuda", "numba", "numpy"]


def find_method(repo, name):
    mod = ast.parse(open(os.path.join(repo, "speckit", "analysis.py")).read())
    cls = [n for n in mod.body if isinstance(n, ast.ClassDef) and n.name == "SpectrumAnalyzer"][0]
    return [n for n in cls.body if isinstance(n, ast.FunctionDef) and n.name == name][0]


def decide(test, env):
    """Evaluate a test over env {order, cross, backend, detrend_mode}; None if it does not depend on them only."""
    u = ast.unparse(test)
    if u in ("self.iscsd", "is_cross"):
        return env["cross"]
    if isinstance(test, ast.Compare) and len(test.ops) == 1 and isinstance(test.left, ast.Name):
        v = test.left.id
        c = test.comparators[0]
        key = {"order": "order", "backend_selected": "backend", "detrend_mode": "detrend_mode"}.get(v)
        if key is None or key not in env:
            return None
        if isinstance(test.ops[0], ast.Eq):
            cv = ast.literal_eval(c)
            return env[key] == cv
        if isinstance(test.ops[0], ast.In):
            return env[key] in ast.literal_eval(c)
    return None


def walk(stmts, env, found):
    """Follow decided branches; collect kernel calls `a,b,c,d,e = _stats_*(...)` and assignments of interest."""
    for s in stmts:
        if isinstance(s, ast.If):
            d = decide(s.test, env)
            if d is None:
                # undecidable tests (bounds checks, cache lookups): descend into both, they must not contain kernel calls
                for sub in (s.body, s.orelse):
                    f2 = {"calls": [], "assign": {}}
                    walk(sub, env, f2)
                    if f2["calls"]:
                        raise TranslateError("kernel call under a condition that is not on order/mode/backend: " + ast.unparse(s.test)[:60])
                    for k, v in f2["assign"].items():
                        found["assign"].setdefault(k, []).append(v)
                continue
            walk(s.body if d else s.orelse, env, found)
        elif isinstance(s, ast.Assign):
            t = ast.unparse(s.targets[0])
            if isinstance(s.value, ast.Call) and ast.unparse(s.value.func).startswith("_stats_"):
                if t.replace("(", "").replace(")", "") != "MXX, MYY, mu_r, mu_i, M2":
                    raise TranslateError("kernel result bound to " + t)
                if s.value.keywords:
                    raise TranslateError("kernel called with keywords")
                found["calls"].append((ast.unparse(s.value.func), [ast.unparse(a) for a in s.value.args]))
            elif t == "detrend_mode" and isinstance(s.value, ast.Constant):
                env["detrend_mode"] = s.value.value
            elif t in ("omega", "Q", "key", "XY", "m"):
                found["assign"].setdefault(t, []).append(ast.unparse(s.value))
        elif isinstance(s, ast.For):
            walk(s.body, env, found)
        elif isinstance(s, (ast.Raise, ast.Expr, ast.Return, ast.FunctionDef, ast.AnnAssign, ast.Import, ast.ImportFrom, ast.AugAssign, ast.Assert)):
            continue
        else:
            raise TranslateError("unsupported statement in dispatch: " + type(s).__name__)


def extract(repo):
    table = []
    exprs = {}
    for meth, lname in (("_lpsd_core", "L"), ("compute_single_bin", "segL")):
        fn = find_method(repo, meth)
        for order in ORDERS:
            for cross in (False, True):
                for be in BACKENDS:
                    env = {"order": order, "cross": cross, "backend": be}
                    found = {"calls": [], "assign": {}}
                    walk(fn.body, env, found)
                    if len(found["calls"]) != 1:
                        raise TranslateError("%s: order=%d cross=%s backend=%s reaches %d kernel calls" % (meth, order, cross, be, len(found["calls"])))
                    callee, args = found["calls"][0]
                    args = ["L" if a == lname else a for a in args]
                    table.append(dict(method=meth, order=order, cross=cross, backend=be, callee=callee, args=args))
                    for k, v in found["assign"].items():
                        exprs.setdefault((meth, k), set()).update(x if isinstance(x, str) else str(x) for x in (v if isinstance(v, list) else [v]))
        # window construction and stored tuple
        src = ast.unparse(fn)
        exprs[(meth, "window_kaiser")] = {"win_func(%s + 1, alpha * np.pi)[:-1]" % ("L" if meth == "_lpsd_core" else "Lint") in src.replace("alpha_val * _np.pi", "alpha * np.pi")}
    return table, {"%s.%s" % k: sorted(str(x) for x in v) for k, v in exprs.items()}


def coq_text(table, exprs):
    rows = []
    for r in table:
        rows.append('  mkRow "%s" (%d) %s "%s" "%s" [%s]' % (r["method"], r["order"], "true" if r["cross"] else "false", r["backend"], r["callee"],
                                                          "; ".join('"%s"' % a for a in r["args"])))
    t = "(* GENERATED by vp/translate_dispatch.py from SpectrumAnalyzer._lpsd_core / compute_single_bin — do not edit. *)\n"
    t += "From Coq Require Import ZArith List Bool String.\nFrom SK Require Import Dispatch.\nImport ListNotations.\nOpen Scope string_scope.\nOpen Scope Z_scope.\n\n"
    t += "Definition dispatch_table : list row := [\n" + ";\n".join(rows) + "\n].\n\n"
    om = exprs.get("_lpsd_core.omega", []) ; om1 = exprs.get("compute_single_bin.omega", [])
    t += 'Definition omega_exprs : list string := [%s].\n' % "; ".join('"%s"' % x.replace('"', "'") for x in (om + om1))
    t += 'Definition Q_exprs : list string := [%s].\n' % "; ".join('"%s"' % x.replace('"', "'") for x in (exprs.get("_lpsd_core.Q", []) + exprs.get("compute_single_bin.Q", [])))
    t += 'Definition window_kaiser_ok : bool := %s.\n' % ("true" if exprs.get("_lpsd_core.window_kaiser") == ["True"] and exprs.get("compute_single_bin.window_kaiser") == ["True"] else "false")
    return t


def regen():
    from . import common
    p = os.path.join(common.COQ, "gen", "DispatchGen.v")
    try:
        table, exprs = extract(common.REPO)
        text = coq_text(table, exprs)
    except Exception as e:
        common.write_if_changed(p, "(* translation failed: %s *)\nDefinition translation_failed : False := I.\n" % str(e).replace("*)", "* )"))
        return dict(ok=False, error="%s: %s" % (type(e).__name__, e))
    common.write_if_changed(p, text)
    return dict(ok=True, error=None, table=table, exprs=exprs)


if __name__ == "__main__":
    import sys
    table, exprs = extract(sys.argv[1] if len(sys.argv) > 1 else "/repo")
    print(coq_text(table, exprs)[:3000]); print(json.dumps(exprs, indent=1))
