import sys, os, argparse, importlib, traceback, json
sys.path.insert(0, os.path.dirname(os.path.dirname(os.path.abspath(__file__))))
from vp import common


def main():
    ap = argparse.ArgumentParser()
    ap.add_argument("pid")
    ap.add_argument("--tier", default=os.environ.get("VERIF_TIER", "quick"))
    ap.add_argument("--replay", default=None)
    a = ap.parse_args()
    common.pin_env()
    seed = common.seed_from_env()
    mod = importlib.import_module("vp.props." + a.pid)
    if a.replay:
        sys.exit(mod.replay(json.load(open(a.replay))))
    ck = common.Check(a.pid, a.tier, seed)
    try:
        mod.run(ck)
    except Exception:
        ck.obligation("driver:no-exception", False, traceback.format_exc()[-3000:])
    sys.exit(ck.finish())


main()
