"""Attribute-table harness: real SpectrumResults (auto/cross, full/single-bin/equal-K), and the cross-check of the
translator's IR (python rendering of gen/AttrsGen.v's definitions) against the implementation's attribute values."""
import importlib.util, os, math
import numpy as np
from . import common, regen


def load_ir():
    p = os.path.join(common.COQ, "gen", "attrs_ir.py")
    spec = importlib.util.spec_from_file_location("attrs_ir", p)
    m = importlib.util.module_from_spec(spec)
    spec.loader.exec_module(m)
    return m


def make_data(rng, kind, N):
    g = np.random.default_rng(rng.randint(0, 2 ** 31))
    x = g.standard_normal(N)
    if kind == "independent":
        y = g.standard_normal(N)
    elif kind == "coupled":
        y = 0.7 * np.roll(x, rng.randint(0, 3)) + rng.choice([0.05, 0.5, 2.0]) * g.standard_normal(N)
    elif kind == "identical":
        y = x.copy()
    elif kind == "scaled":
        y = -2.5 * x
    elif kind == "zero":
        y = np.zeros(N)
    elif kind == "constant":
        x = np.full(N, 3.0); y = np.full(N, -1.0)
    elif kind == "bothzero":
        x = np.zeros(N); y = np.zeros(N)
    else:
        y = np.cumsum(x) * 0.1
    # overall amplitude: unit scale mostly, sometimes very small / large records (metres, strain, counts)
    amp = rng.choice([1.0, 1.0, 1.0, 1e-6, 1e-9, 1e5])
    ampy = amp * rng.choice([1.0, 1.0, 1.0, 20.0, 1e-18])     # second channel sometimes in tiny units (transfer magnitude far below 1)
    return x * amp, y * ampy


class PermutedScheduler:
    """A user-supplied scheduler callable (picklable): a built-in plan with its bins listed in another order
    ('rev:ltf' = high to low frequency, 'rot:ltf' = rotated by a third). SpectrumAnalyzer accepts any callable returning a plan dict."""
    def __init__(self, name):
        self.name = name; self.__name__ = name.replace(":", "_")

    def __call__(self, **args):
        from speckit import schedulers as S
        mode, base = self.name.split(":")
        fn = {"lpsd": S.lpsd_plan, "ltf": S.ltf_plan, "vectorized_ltf": S.vectorized_ltf_plan, "new_ltf": S.new_ltf_plan}[base]
        p = dict(fn(**args))
        n = len(p["f"])
        if mode == "dup":
            # same bins, ascending, but every third bin lists one of its starts twice (K and navg count it): plan() accepts such plans
            D = [np.asarray(d_) for d_ in p["D"]]
            K = np.asarray(p["K"]).copy(); nav = np.asarray(p["navg"]).copy()
            for i in range(0, n, 3):
                D[i] = np.concatenate([D[i], D[i][-1:]]); K[i] += 1; nav[i] += 1
            p["D"] = D; p["K"] = K; p["navg"] = nav
            return p
        idx = list(range(n))[::-1] if mode == "rev" else (list(range(n // 3, n)) + list(range(n // 3)))
        for k in ("f", "r", "b", "L", "K", "navg", "O"):
            p[k] = np.asarray(p[k])[idx].copy()
        D = list(p["D"]); p["D"] = [D[i] for i in idx]
        return p


def _permuted_scheduler(name):
    return PermutedScheduler(name)


def user_window(kw, L):
    """The window a user-supplied (non-Kaiser) callable defines for length L — evaluated by calling it the way a user would, w = win(L)."""
    w = kw.get("win")
    if isinstance(w, str) and w in ("cal:sp_hann", "cal:sp_blackman", "cal:np_hanning"):
        from scipy.signal import windows as _spw
        fn = {"cal:sp_hann": _spw.hann, "cal:sp_blackman": _spw.blackman, "cal:np_hanning": np.hanning}[w]
        return np.asarray(fn(L), float)
    return None


def resolve_kw(kw):
    """Analyzer keyword arguments with a 'rev:<name>' / 'rot:<name>' scheduler replaced by the callable (kw itself stays JSON-able)."""
    if isinstance(kw.get("scheduler"), str) and ":" in kw["scheduler"]:
        kw = dict(kw); kw["scheduler"] = _permuted_scheduler(kw["scheduler"])
    if isinstance(kw.get("win"), str) and kw["win"].startswith("cal:"):
        kw = dict(kw)
        if kw["win"] == "cal:np_kaiser":
            kw["win"] = np.kaiser
        elif kw["win"] == "cal:sp_kaiser":
            from scipy.signal.windows import kaiser as _spk
            kw["win"] = _spk
        elif kw["win"] == "cal:np_hanning":
            kw["win"] = np.hanning
        elif kw["win"] in ("cal:sp_hann", "cal:sp_blackman"):
            from scipy.signal import windows as _spw
            kw["win"] = {"cal:sp_hann": _spw.hann, "cal:sp_blackman": _spw.blackman}[kw["win"]]
    return kw


def plan_order_check(r, info):
    """Per-bin statistics do not depend on where the bin is listed in the plan: compare with the built-in (ascending) plan."""
    from speckit.analysis import SpectrumAnalyzer
    sch = info["kw"].get("scheduler")
    if not (isinstance(sch, str) and ":" in sch) or info["which"] != "full" or sch.startswith("dup:"):
        return []
    kw0 = dict(info["kw"]); kw0["scheduler"] = sch.split(":")[1]
    data = np.vstack([info["x"], info["y"]]) if info["cross"] else info["x"]
    with np.errstate(all="ignore"):
        r0 = SpectrumAnalyzer(data, info["fs"], **resolve_kw(kw0)).compute()
    out = []
    o0 = np.argsort(np.asarray(r0.f), kind="stable"); o1 = np.argsort(np.asarray(r.f), kind="stable")
    if len(o0) != len(o1) or not np.array_equal(np.asarray(r0.f)[o0], np.asarray(r.f)[o1]):
        return [("planorder", "permuted plan does not contain the same frequencies")]
    for k in ("XX", "YY", "XY", "XY_M2"):
        if k in r._data and k in r0._data:
            a = np.asarray(r0._data[k])[o0]; b = np.asarray(r._data[k])[o1]
            if not np.array_equal(a, b, equal_nan=True):
                j = int(np.nonzero(~((a == b) | (np.isnan(a) & np.isnan(b))))[0][0])
                out.append(("planorder:" + k, "%s of the bin at f=%r depends on its position in the plan: %r (ascending plan) vs %r (%s)" % (k, float(np.asarray(r0.f)[o0][j]), a[j], b[j], sch)))
    return out


def make_result(rng, cross=None, which=None, kind=None, backend="numba", layout=None, scheduler=None):
    """Returns (result, analyzer, info). which in {'full','single','equalK'}."""
    from speckit.analysis import SpectrumAnalyzer
    cross = rng.random() < 0.6 if cross is None else cross
    which = which or rng.choice(["full", "full", "single", "equalK"])
    kind = kind or rng.choice(["independent", "coupled", "coupled", "identical", "scaled", "zero", "constant", "bothzero", "walk"])
    N = rng.choice([600, 1000, 2048])
    x, y = make_data(rng, kind, N)
    fs = rng.choice([1.0, 2.0, 100.0])
    order = rng.choice([-1, 0, 1, 2])
    sched = rng.choice(["lpsd", "ltf", "vectorized_ltf", "new_ltf"])
    win = rng.choice(["kaiser", "hann"])
    kw = dict(Jdes=rng.choice([10, 30]), Kdes=rng.choice([2, 10]), order=order, scheduler=sched, win=win, psll=rng.choice([60, 120, 200]), backend=backend,
              olap=rng.choice(["default", 0.5, 0.0]), bmin=rng.choice([1.0, 2.0]), Lmin=rng.choice([1, 16]))
    if rng.random() < 0.2:
        # the window passed as the library function itself instead of by name (a documented way of selecting it)
        kw["win"] = {"kaiser": rng.choice(["cal:np_kaiser", "cal:sp_kaiser"]), "hann": rng.choice(["cal:np_hanning", "cal:sp_hann", "cal:sp_blackman"])}[win]
    if which == "equalK":
        # every bin has one segment: Lmin = N
        kw.update(Lmin=N, scheduler=rng.choice(["ltf", "vectorized_ltf"]))
    elif which == "full" and rng.random() < 0.25:
        # a user-supplied scheduler callable listing the same bins in another order (single-segment bins no longer first)
        kw["scheduler"] = rng.choice(["rev:", "rot:", "dup:"]) + rng.choice(["lpsd", "ltf", "vectorized_ltf"])
        if kw["scheduler"].endswith(":lpsd"):
            kw["Lmin"] = 1      # lpsd ignores Lmin; the analyzer validates a user callable's L against it
    if scheduler is not None and which == "full":
        kw["scheduler"] = scheduler
        if scheduler.endswith(":lpsd"):
            kw["Lmin"] = 1
    data = np.vstack([x, y]) if cross else x
    if cross and (layout == "Nx2" or (layout is None and rng.random() < 0.25)):
        data = np.column_stack([x, y]); layout = "Nx2"          # the documented one-column-per-channel layout
    else:
        layout = "2xN"
    if which == "single" and rng.random() < 0.12:
        kw["olap"] = 0.99                                        # nominal shift below one sample for short segments
    an = SpectrumAnalyzer(data, fs, **resolve_kw(kw))
    with np.errstate(all="ignore"):
        if which == "single":
            L = rng.choice([64, 100, N, N // 3])
            f0 = rng.uniform(2, L / 2 - 2) * fs / L
            edge = rng.random()
            if edge < 0.08:
                f0 = 0.0              # the DC bin
            elif edge < 0.16:
                f0 = fs / 2           # the Nyquist bin
            if rng.random() < 0.5:
                r = an.compute_single_bin(f0, L=L)
            else:
                # request by resolution; fs/fres is generally not an integer, so L is rounded
                fres = fs / (L + rng.choice([0.0, 0.3, -0.4, 0.49]))
                r = an.compute_single_bin(f0, fres=fres)
        else:
            r = an.compute()
    return r, an, dict(cross=cross, which=which, kind=kind, N=N, fs=fs, order=order, scheduler=kw["scheduler"], win=win, x=x, y=y, kw=kw, layout=layout)


def envs(r):
    d = r._data
    n = len(d["f"])
    out = []
    for j in range(n):
        out.append(dict(XX=float(d["XX"][j]), YY=float(d["YY"][j]), S2=float(d["S2"][j]), S12=float(d["S12"][j]), M2=float(d["M2"][j]),
                        navg=float(d["navg"][j]), fs=float(r.fs), XY=complex(d["XY"][j])))
    return out


def check_ir(r, ir, tol=1e-12):
    """Compare every attribute of result r with the translator's IR. Returns list of (name, description)."""
    bad = []
    tbl = ir.CSD if r.iscsd else ir.AUTO
    none = {n for n, c in ir.NONE if c == r.iscsd}
    es = envs(r)
    with np.errstate(all="ignore"):
        for nm in ir.NAMES:
            try:
                v = getattr(r, nm)
            except AttributeError:
                if nm in tbl or nm in none:
                    bad.append((nm, "implementation raises AttributeError, table defines it"))
                continue
            if v is None:
                if nm not in none:
                    bad.append((nm, "implementation returns None, table has a value"))
                continue
            if nm in none:
                bad.append((nm, "table says None, implementation returns a value")); continue
            if nm not in tbl:
                continue
            if "unwrapped" in nm:
                continue
            v = np.asarray(v)
            # conditioned spectra are differences of quantities of size Gyy: rounding is relative to Gyy, not to the result
            floor = None
            if nm in ("GyySx", "GyyRx", "GyyCx"):
                with np.errstate(all="ignore"):
                    floor = 1e-9 * np.nan_to_num(np.maximum(np.abs(np.asarray(r.Gyy)), np.abs(np.asarray(r.Gxx))))
            noisy = None
            if r.iscsd and (nm.endswith("_dev") or nm.endswith("_error")) and nm not in ("Gxx_dev", "Gyy_dev", "Gxx_error", "Gyy_error"):
                with np.errstate(all="ignore"):
                    noisy = np.asarray(r.coh) > 1 - 1e-9      # 1 - coh is rounding noise there
            for j, e in enumerate(es):
                if noisy is not None and noisy[j]:
                    continue
                try:
                    m = tbl[nm](e)
                except ZeroDivisionError:
                    m = float("nan")
                a = complex(v[j]); b = complex(m)
                if (a != a) and (b != b):
                    continue
                if not (abs(a - b) <= 1e-9 * max(abs(a), abs(b)) + 1e-300 + (float(floor[j]) if floor is not None else 0.0) or (math.isinf(a.real) and a == b)):
                    bad.append((nm, "bin %d: implementation %r, generated table %r" % (j, v[j], m))); break
    return bad


# ----------------------------------------------------------------------------- generated Coq text evaluated at binary64
TRANSCENDENTAL = ("arcsin", "np.angle", "log10", "rad2deg", "_UNWRAP")


def coq_attr_samples(r, ir, rng, nbins=3):
    """(name, mode, env literal, implementation value) for the attributes whose definition uses only + - * / sqrt."""
    from .common import fhex
    tbl = ir.CSD if r.iscsd else ir.AUTO
    mode = "csd" if r.iscsd else "auto"
    es = envs(r)
    out = []
    idx = sorted(set([0, len(es) - 1] + [rng.randrange(len(es)) for _ in range(nbins)]))[:nbins + 1]
    import inspect
    with np.errstate(all="ignore"):
        for nm in tbl:
            src = inspect.getsource(tbl[nm]) if False else None
        for nm in ir.NAMES:
            if nm not in tbl or "unwrapped" in nm:
                continue
            v = getattr(r, nm)
            if v is None:
                continue
            errattr = r.iscsd and (nm.endswith("_dev") or nm.endswith("_error")) and nm not in ("Gxx_dev", "Gyy_dev", "Gxx_error", "Gyy_error")
            for j in idx:
                e = es[j]
                if errattr and float(np.asarray(r.coh)[j]) > 1 - 1e-6:
                    continue      # 1 - coh is rounding noise there (|XY| by hypot vs sqrt differ in the last bit)
                if not all(np.isfinite([e["XX"], e["YY"], e["S2"], e["S12"], e["M2"], e["fs"], e["XY"].real, e["XY"].imag])):
                    continue
                env = "(mkEnv FloatA %s %s %s %s %s %s %s (%s, %s))" % (fhex(e["XX"]), fhex(e["YY"]), fhex(e["S2"]), fhex(e["S12"]), fhex(e["M2"]), fhex(e["navg"]), fhex(e["fs"]), fhex(e["XY"].real), fhex(e["XY"].imag))
                floor = 0.0
                if nm in ("GyySx", "GyyRx", "GyyCx"):
                    floor = 1e-9 * float(np.nan_to_num(max(abs(np.asarray(r.Gyy)[j]), abs(np.asarray(r.Gxx)[j]))))
                out.append((nm, mode, env, complex(np.asarray(v)[j]), floor if not errattr else -1.0))
    return out


def coq_eval_attrs(samples, transc_names):
    """Evaluate g_<name>_<mode> FloatA F env by vm_compute; returns list of mismatch descriptions."""
    import os
    from . import common
    use = [s for s in samples if s[0] not in transc_names]
    if not use:
        return [], 0
    head = ("From Coq Require Import ZArith List PrimFloat.\nFrom SK Require Import Arith Cpx.\nFrom SK.gen Require Import AttrsGen.\nOpen Scope float_scope.\n"
            "Definition FF : fns FloatA := mkFns FloatA PrimFloat.sqrt (fun x => x) (fun x => x) (fun x => x) (fun z => fst z) (fun x => x).\n")
    files = {}
    for s0 in range(0, len(use), 400):
        body = head + "".join("Eval vm_compute in (g_%s_%s FloatA FF %s).\n" % (nm, mode, env) for nm, mode, env, _, _ in use[s0:s0 + 400])
        files["attrs_%d_%d" % (os.getpid(), s0)] = body
    res = common.run_case_files(files)
    evs = []
    for k in sorted(files, key=lambda x: int(x.rsplit("_", 1)[1])):
        rc, out = res[k]
        if rc != 0:
            return ["coq evaluation failed: " + out[-300:]], 0
        evs += common.parse_evals(out)
    if len(evs) != len(use):
        return ["expected %d evaluations, got %d" % (len(use), len(evs))], 0
    bad = []
    for ev, (nm, mode, env, val, floor) in zip(evs, use):
        t = [float(x) for x in common.tokens(ev)]
        m = complex(t[0], t[1]) if len(t) >= 2 else complex(t[0], 0.0)
        if (m != m and val != val) or m == val:
            continue
        rel = 1e-13 if floor >= 0 else 1e-7     # error bars contain 1 - coh: cancellation amplifies the last-bit difference of |XY|
        if not abs(m - val) <= rel * max(abs(m), abs(val)) + 1e-300 + max(floor, 0.0):
            bad.append("%s/%s: implementation %r, generated Coq definition %r" % (nm, mode, val, m))
    return bad, len(use)


def transcendental_names(ir):
    """Names whose definition (transitively) uses asin/angle/log10/rad2deg/unwrap — not evaluated in Coq."""
    import os, re
    src = open(os.path.join(common.COQ, "gen", "AttrsGen.v")).read()
    bad = set()
    defs = dict(re.findall(r"Definition g_(\w+?)_(?:auto|csd) .*? := (.*)\.", src))
    defs_full = re.findall(r"Definition g_(\w+)_(auto|csd) [^\n]*? := ([^\n]*)\.\n", src)
    changed = True
    tr = set()
    for nm, mode, body in defs_full:
        if any(k in body for k in ("asinT", "angleT", "mag2dbT", "rad2degT", "unwrapT")):
            tr.add(nm)
    while changed:
        changed = False
        for nm, mode, body in defs_full:
            if nm not in tr and any(("g_%s_" % t) in body for t in tr):
                tr.add(nm); changed = True
    return tr
