"""Attribute-table harness: real SpectrumResults (auto/cross, full/single-bin/equal-K), and the cross-check of the
translator's IR (python rendering of gen/AttrsGen.v's definitions) against the implementation's attribute values."""
import importlib.util, os, math
import numpy as np
from . import common, regen


def load_ir():
    p = os.path.join(common.COQ, "gen", "attrs_ir.py")
    spec = importlib.util.spec_from_file_location("attrs_ir", p)
    m = importlib.util.module_from_spec(spec)
    spec.loader.exec_module(m)
    return m


def make_data(rng, kind, N):
    g = np.random.default_rng(rng.randint(0, 2 ** 31))
    x = g.standard_normal(N)
    if kind == "independent":
        y = g.standard_normal(N)
    elif kind == "coupled":
        y = 0.7 * np.roll(x, rng.randint(0, 3)) + rng.choice([0.05, 0.5, 2.0]) * g.standard_normal(N)
    elif kind == "identical":
        y = x.copy()
    elif kind == "scaled":
        y = -2.5 * x
    elif kind == "zero":
        y = np.zeros(N)
    elif kind == "constant":
        x = np.full(N, 3.0); y = np.full(N, -1.0)
    elif kind == "bothzero":
        x = np.zeros(N); y = np.zeros(N)
    else:
        y = np.cumsum(x) * 0.1
    # overall amplitude: unit scale mostly, sometimes very small / large records (metres, strain, counts)
    amp = rng.choice([1.0, 1.0, 1.0, 1e-6, 1e-9, 1e5])
    ampy = amp * rng.choice([1.0, 1.0, 20.0])
    return x * amp, y * ampy


def make_result(rng, cross=None, which=None, kind=None, backend="numba"):
    """Returns (result, analyzer, info). which in {'full','single','equalK'}."""
    from speckit.analysis import SpectrumAnalyzer
    cross = rng.random() < 0.6 if cross is None else cross
    which = which or rng.choice(["full", "full", "single", "equalK"])
    kind = kind or rng.choice(["independent", "coupled", "coupled", "identical", "scaled", "zero", "constant", "bothzero", "walk"])
    N = rng.choice([600, 1000, 2048])
    x, y = make_data(rng, kind, N)
    fs = rng.choice([1.0, 2.0, 100.0])
    order = rng.choice([-1, 0, 1, 2])
    sched = rng.choice(["lpsd", "ltf", "vectorized_ltf", "new_ltf"])
    win = rng.choice(["kaiser", "hann"])
    kw = dict(Jdes=rng.choice([10, 30]), Kdes=rng.choice([2, 10]), order=order, scheduler=sched, win=win, psll=rng.choice([60, 120, 200]), backend=backend,
              olap=rng.choice(["default", 0.5, 0.0]), bmin=rng.choice([1.0, 2.0]), Lmin=rng.choice([1, 16]))
    if which == "equalK":
        # every bin has one segment: Lmin = N
        kw.update(Lmin=N, scheduler=rng.choice(["ltf", "vectorized_ltf"]))
    data = np.vstack([x, y]) if cross else x
    an = SpectrumAnalyzer(data, fs, **kw)
    with np.errstate(all="ignore"):
        if which == "single":
            L = rng.choice([64, 100, N, N // 3])
            f0 = rng.uniform(2, L / 2 - 2) * fs / L
            if rng.random() < 0.5:
                r = an.compute_single_bin(f0, L=L)
            else:
                # request by resolution; fs/fres is generally not an integer, so L is rounded
                fres = fs / (L + rng.choice([0.0, 0.3, -0.4, 0.49]))
                r = an.compute_single_bin(f0, fres=fres)
        else:
            r = an.compute()
    return r, an, dict(cross=cross, which=which, kind=kind, N=N, fs=fs, order=order, scheduler=kw["scheduler"], win=win, x=x, y=y, kw=kw)


def envs(r):
    d = r._data
    n = len(d["f"])
    out = []
    for j in range(n):
        out.append(dict(XX=float(d["XX"][j]), YY=float(d["YY"][j]), S2=float(d["S2"][j]), S12=float(d["S12"][j]), M2=float(d["M2"][j]),
                        navg=float(d["navg"][j]), fs=float(r.fs), XY=complex(d["XY"][j])))
    return out


def check_ir(r, ir, tol=1e-12):
    """Compare every attribute of result r with the translator's IR. Returns list of (name, description)."""
    bad = []
    tbl = ir.CSD if r.iscsd else ir.AUTO
    none = {n for n, c in ir.NONE if c == r.iscsd}
    es = envs(r)
    with np.errstate(all="ignore"):
        for nm in ir.NAMES:
            try:
                v = getattr(r, nm)
            except AttributeError:
                if nm in tbl or nm in none:
                    bad.append((nm, "implementation raises AttributeError, table defines it"))
                continue
            if v is None:
                if nm not in none:
                    bad.append((nm, "implementation returns None, table has a value"))
                continue
            if nm in none:
                bad.append((nm, "table says None, implementation returns a value")); continue
            if nm not in tbl:
                continue
            if "unwrapped" in nm:
                continue
            v = np.asarray(v)
            # conditioned spectra are differences of quantities of size Gyy: rounding is relative to Gyy, not to the result
            floor = None
            if nm in ("GyySx", "GyyRx", "GyyCx"):
                with np.errstate(all="ignore"):
                    floor = 1e-9 * np.nan_to_num(np.maximum(np.abs(np.asarray(r.Gyy)), np.abs(np.asarray(r.Gxx))))
            noisy = None
            if r.iscsd and (nm.endswith("_dev") or nm.endswith("_error")) and nm not in ("Gxx_dev", "Gyy_dev", "Gxx_error", "Gyy_error"):
                with np.errstate(all="ignore"):
                    noisy = np.asarray(r.coh) > 1 - 1e-9      # 1 - coh is rounding noise there
            for j, e in enumerate(es):
                if noisy is not None and noisy[j]:
                    continue
                try:
                    m = tbl[nm](e)
                except ZeroDivisionError:
                    m = float("nan")
                a = complex(v[j]); b = complex(m)
                if (a != a) and (b != b):
                    continue
                if not (abs(a - b) <= 1e-9 * max(abs(a), abs(b)) + 1e-300 + (float(floor[j]) if floor is not None else 0.0) or (math.isinf(a.real) and a == b)):
                    bad.append((nm, "bin %d: implementation %r, generated table %r" % (j, v[j], m))); break
    return bad
