"""T1 — translate the Numba kernels of speckit/core.py and the CUDA kernels + host wrappers of
speckit/core_cuda.py from Python AST into Gallina definitions polymorphic in the arithmetic carrier.
Fail-closed: any syntax outside the supported fragment raises TranslateError (reported as a broken obligation).

Supported fragment: scalar float/int assignments (and +=), + - * / on floats, + - on ints, float(i), int(a[j]),
np/math cos & sin, a[e], Q[e1,e2], a.shape[i], calls to other translated helpers, np.mean and elementwise
array arithmetic (reducer), `for n in range(E)` with loop-carried state (-> fold_left over seq),
local arrays (np.zeros / cuda.local.array) with element stores (-> functional update),
parallel loops (`for j in _prange(K)` or `j = cuda.grid(1); if j < K:`) whose body stores only out[j] into
arrays allocated for output (-> map over seq 0 K), if/else assigning scalars, early `if K == 0: return ...`.
"""
import ast, os, sys, json

class TranslateError(Exception):
    pass

FLOAT, INT, FARR, IARR, FARR2 = "float", "int", "farr", "iarr", "farr2"
PARAM_TYPES = {"x": FARR, "x1": FARR, "x2": FARR, "y": FARR, "w": FARR, "starts": IARR, "L": INT, "omega": FLOAT, "Q": FARR2,
               "xx": FARR, "yy": FARR, "xyr": FARR, "xyi": FARR, "s": INT, "n": INT, "alpha": FARR, "cosw": FLOAT, "sinw": FLOAT,
               "coeff": FLOAT, "xn": FLOAT, "m": FLOAT}
COQ_TY = {FLOAT: "T A", INT: "Z", FARR: "list (T A)", IARR: "list Z", FARR2: "list (list (T A))"}
RESERVED = {"at", "as", "in", "fun", "let", "if", "then", "else", "end", "match", "with", "by", "of"}


def cname(n):
    return n + "_" if n in RESERVED else n


class Fn:
    def __init__(self, tr, node, parallel_outputs=None):
        self.tr, self.node = tr, node
        self.name = node.name
        self.env = {}          # name -> type
        self.effects = {"parallel_writes": [], "parallel_reads_of_written": [], "carried_scalars": [], "has_parallel": False}
        self.params = [a.arg for a in node.args.args]
        for p in self.params:
            if p not in PARAM_TYPES:
                raise TranslateError("%s: unknown parameter %s" % (self.name, p))
            self.env[p] = PARAM_TYPES[p]

    # ---------------------------------------------------------------- expressions
    def ty(self, e):
        if isinstance(e, ast.Constant):
            if isinstance(e.value, bool):
                raise TranslateError("bool constant")
            return FLOAT if isinstance(e.value, float) else INT
        if isinstance(e, ast.Name):
            if e.id not in self.env:
                raise TranslateError("%s: undefined name %s (line %d)" % (self.name, e.id, e.lineno))
            return self.env[e.id]
        if isinstance(e, ast.BinOp):
            a, b = self.ty(e.left), self.ty(e.right)
            if FARR in (a, b):
                return FARR
            if isinstance(e.op, ast.Div):
                return FLOAT
            return FLOAT if FLOAT in (a, b) else INT
        if isinstance(e, ast.UnaryOp) and isinstance(e.op, ast.USub):
            return self.ty(e.operand)
        if isinstance(e, ast.Subscript):
            b = self.ty(e.value) if not isinstance(e.value, ast.Attribute) else None
            if isinstance(e.value, ast.Attribute) and e.value.attr == "shape":
                return INT
            if b == FARR:
                return FLOAT
            if b == IARR:
                return INT
            if b == FARR2:
                return FLOAT
            raise TranslateError("%s: subscript of %s" % (self.name, ast.dump(e.value)))
        if isinstance(e, ast.Call):
            f = self.callee(e)
            if f in ("int",):
                return INT
            if f in ("float", "np.cos", "np.sin", "math.cos", "math.sin", "np.mean"):
                return FLOAT
            if f in self.tr.helpers:
                return self.tr.helpers[f].ret
            raise TranslateError("%s: unknown call %s (line %d)" % (self.name, f, e.lineno))
        if isinstance(e, ast.Tuple):
            return "tuple"
        raise TranslateError("%s: unsupported expression %s" % (self.name, ast.dump(e)[:80]))

    def callee(self, e):
        f = e.func
        if isinstance(f, ast.Name):
            return f.id
        if isinstance(f, ast.Attribute):
            try:
                return ast.unparse(f)
            except Exception:
                pass
        raise TranslateError("%s: unsupported callee %s" % (self.name, ast.dump(f)[:80]))

    def ex(self, e, want=None):
        """Gallina text for expression e."""
        t = self.ty(e)
        if isinstance(e, ast.Constant):
            v = e.value
            if isinstance(v, float):
                if v != int(v):
                    raise TranslateError("%s: non-integral float literal %r" % (self.name, v))
                return "(ofZ A %d)" % int(v)
            return "(ofZ A %d)" % v if want == FLOAT else "%d" % v
        if isinstance(e, ast.Name):
            s = cname(e.id)
            return "(ofZ A %s)" % s if (want == FLOAT and t == INT) else s
        if isinstance(e, ast.UnaryOp):
            return "(opp A %s)" % self.ex(e.operand, FLOAT) if t == FLOAT else "(- %s)" % self.ex(e.operand)
        if isinstance(e, ast.BinOp):
            a, b = self.ty(e.left), self.ty(e.right)
            opn = {ast.Add: "add", ast.Sub: "sub", ast.Mult: "mul", ast.Div: "div"}.get(type(e.op))
            if opn is None:
                raise TranslateError("%s: operator %s" % (self.name, type(e.op).__name__))
            if t == FARR:
                if a == FARR and b == FARR:
                    return "(zipT (%s A) %s %s)" % (opn, self.ex(e.left), self.ex(e.right))
                if a == FARR:
                    return "(map (fun z_ => %s A z_ %s) %s)" % (opn, self.ex(e.right, FLOAT), self.ex(e.left))
                return "(map (fun z_ => %s A %s z_) %s)" % (opn, self.ex(e.left, FLOAT), self.ex(e.right))
            if t == FLOAT:
                return "(%s A %s %s)" % (opn, self.ex(e.left, FLOAT), self.ex(e.right, FLOAT))
            zop = {"add": "+", "sub": "-", "mul": "*"}.get(opn)
            if zop is None:
                raise TranslateError("%s: integer division" % self.name)
            r = "(%s %s %s)" % (self.ex(e.left), zop, self.ex(e.right))
            return "(ofZ A %s)" % r if want == FLOAT else r
        if isinstance(e, ast.Subscript):
            if isinstance(e.value, ast.Attribute) and e.value.attr == "shape":
                arr = e.value.value.id
                ix = e.slice.value if isinstance(e.slice, ast.Constant) else None
                at = self.env.get(arr)
                if ix == 0 and at in (FARR, IARR, FARR2):
                    return "(Z.of_nat (length %s))" % cname(arr)
                if ix == 1 and at == FARR2:
                    return "(Z.of_nat (length (hd [] %s)))" % cname(arr)
                raise TranslateError("%s: shape access %s" % (self.name, ast.dump(e)[:60]))
            b = self.ty(e.value)
            if b == FARR2:
                if not (isinstance(e.slice, ast.Tuple) and len(e.slice.elts) == 2):
                    raise TranslateError("%s: 2-D index" % self.name)
                return "(nth2T A %s %s %s)" % (self.ex(e.value), self.ex(e.slice.elts[0]), self.ex(e.slice.elts[1]))
            if b == FARR:
                return "(nthT A %s %s)" % (self.ex(e.value), self.ex(e.slice))
            if b == IARR:
                return "(nthZ %s %s)" % (self.ex(e.value), self.ex(e.slice))
        if isinstance(e, ast.Call):
            f = self.callee(e)
            if f == "int":
                if self.ty(e.args[0]) != INT:
                    raise TranslateError("%s: int() of non-integer" % self.name)
                return self.ex(e.args[0])
            if f == "float":
                return self.ex(e.args[0], FLOAT)
            if f in ("np.cos", "math.cos"):
                return "(cosT %s)" % self.ex(e.args[0], FLOAT)
            if f in ("np.sin", "math.sin"):
                return "(sinT %s)" % self.ex(e.args[0], FLOAT)
            if f == "np.mean":
                return "(meanT A %s)" % self.ex(e.args[0])
            if f in self.tr.helpers:
                h = self.tr.helpers[f]
                if len(e.args) != len(h.params) or e.keywords:
                    raise TranslateError("%s: call arity %s" % (self.name, f))
                args = [self.ex(a, h.env[p] if h.env[p] == FLOAT else None) for a, p in zip(e.args, h.params)]
                for a, p in zip(e.args, h.params):
                    if self.ty(a) != h.env[p] and not (self.ty(a) == INT and h.env[p] == FLOAT):
                        raise TranslateError("%s: argument type mismatch calling %s (%s)" % (self.name, f, p))
                return "(%s A cosT sinT %s)" % (h.gname, " ".join(args))
        if isinstance(e, ast.Tuple):
            return "(" + ", ".join(self.ex(x, FLOAT) for x in e.elts) + ")"
        raise TranslateError("%s: cannot translate %s" % (self.name, ast.dump(e)[:80]))

    def cond(self, c):
        if isinstance(c, ast.Compare) and len(c.ops) == 1 and self.ty(c.left) == INT and self.ty(c.comparators[0]) == INT:
            op = {ast.Eq: "=?", ast.Lt: "<?", ast.GtE: ">=?", ast.LtE: "<=?", ast.Gt: ">?"}.get(type(c.ops[0]))
            if op:
                return "(%s %s %s)" % (self.ex(c.left), op, self.ex(c.comparators[0]))
        raise TranslateError("%s: unsupported condition %s" % (self.name, ast.dump(c)[:80]))

    # ---------------------------------------------------------------- statements
    def assigned(self, stmts):
        out = []
        for s in stmts:
            if isinstance(s, (ast.Assign, ast.AugAssign)):
                t = s.targets[0] if isinstance(s, ast.Assign) else s.target
                n = t.id if isinstance(t, ast.Name) else (t.value.id if isinstance(t, ast.Subscript) and isinstance(t.value, ast.Name) else None)
                if n is None:
                    raise TranslateError("%s: assignment target" % self.name)
                if n not in out:
                    out.append(n)
            elif isinstance(s, ast.For):
                for n in self.assigned(s.body):
                    if n not in out:
                        out.append(n)
            elif isinstance(s, ast.If):
                for n in self.assigned(s.body) + self.assigned(s.orelse):
                    if n not in out:
                        out.append(n)
        return out

    def tup(self, names):
        return cname(names[0]) if len(names) == 1 else "(" + ", ".join(cname(n) for n in names) + ")"

    def pat(self, names):
        return cname(names[0]) if len(names) == 1 else "'(" + ", ".join(cname(n) for n in names) + ")"

    def alloc(self, e):
        """Recognise array allocations; returns (kind, size_expr) or None."""
        if isinstance(e, ast.Call):
            f = self.callee(e)
            if f in ("np.empty", "np.zeros"):
                return ("out" if f == "np.empty" else "local", self.ex(e.args[0]))
            if f == "cuda.local.array":
                return ("local", self.ex(e.args[0]))
        return None

    def block(self, stmts, result, parallel_ctx=None):
        """Translate a statement list followed by `result` (a Gallina term or a callable producing it)."""
        if not stmts:
            return result() if callable(result) else result
        s, rest = stmts[0], stmts[1:]
        if isinstance(s, ast.Expr) and isinstance(s.value, ast.Constant) and isinstance(s.value.value, str):
            return self.block(rest, result, parallel_ctx)
        if isinstance(s, ast.AugAssign):
            if not isinstance(s.op, ast.Add) or not isinstance(s.target, ast.Name):
                raise TranslateError("%s: augmented assignment" % self.name)
            s = ast.copy_location(ast.Assign(targets=[s.target], value=ast.BinOp(left=ast.Name(id=s.target.id, ctx=ast.Load()), op=ast.Add(), right=s.value)), s)
        if isinstance(s, ast.Assign):
            if len(s.targets) != 1:
                raise TranslateError("%s: multiple targets" % self.name)
            t = s.targets[0]
            if isinstance(t, ast.Name):
                # cuda thread index: j = cuda.grid(1); if j < K: BODY
                if isinstance(s.value, ast.Call) and self.callee(s.value) == "cuda.grid":
                    if not (rest and isinstance(rest[0], ast.If) and not rest[0].orelse and len(rest) == 1):
                        raise TranslateError("%s: cuda.grid not followed by a single guarded block" % self.name)
                    g = rest[0]
                    self.env[t.id] = INT
                    c = g.test
                    if not (isinstance(c, ast.Compare) and isinstance(c.ops[0], ast.Lt) and isinstance(c.left, ast.Name) and c.left.id == t.id):
                        raise TranslateError("%s: thread guard must be j < K" % self.name)
                    bound = self.ex(c.comparators[0])
                    return self.parallel(t.id, bound, g.body, [], result)
                a = self.alloc(s.value)
                if a is not None:
                    kind, size = a
                    self.env[t.id] = FARR
                    if kind == "out":
                        self.outputs = getattr(self, "outputs", []) + [t.id]
                        return "let %s := repeatT A %s in\n%s" % (cname(t.id), size, self.block(rest, result, parallel_ctx))
                    return "let %s := repeatT A %s in\n%s" % (cname(t.id), size, self.block(rest, result, parallel_ctx))
                ty = self.ty(s.value)
                if t.id in self.env and self.env[t.id] != ty and not (self.env[t.id] == FLOAT and ty == INT):
                    raise TranslateError("%s: %s changes type" % (self.name, t.id))
                v = self.ex(s.value, FLOAT if self.env.get(t.id) == FLOAT else None)
                self.env.setdefault(t.id, ty)
                return "let %s := %s in\n%s" % (cname(t.id), v, self.block(rest, result, parallel_ctx))
            if isinstance(t, ast.Subscript) and isinstance(t.value, ast.Name):
                arr = t.value.id
                if self.env.get(arr) != FARR:
                    raise TranslateError("%s: store into non-array %s" % (self.name, arr))
                if parallel_ctx is not None and arr in parallel_ctx["outs"]:
                    # out[j] = e inside a parallel loop
                    if not (isinstance(t.slice, ast.Name) and t.slice.id == parallel_ctx["var"]):
                        raise TranslateError("%s: parallel store %s[...] not at the loop index" % (self.name, arr))
                    if arr in parallel_ctx["stored"]:
                        raise TranslateError("%s: %s stored twice in the parallel body" % (self.name, arr))
                    parallel_ctx["stored"][arr] = self.ex(s.value, FLOAT)
                    self.effects["parallel_writes"].append([arr, ast.unparse(t.slice)])
                    return self.block(rest, result, parallel_ctx)
                return "let %s := updT %s %s %s in\n%s" % (cname(arr), cname(arr), self.ex(t.slice), self.ex(s.value, FLOAT), self.block(rest, result, parallel_ctx))
            raise TranslateError("%s: assignment target %s" % (self.name, ast.dump(t)[:60]))
        if isinstance(s, ast.For):
            if not (isinstance(s.target, ast.Name) and isinstance(s.iter, ast.Call) and len(s.iter.args) == 1 and not s.orelse):
                raise TranslateError("%s: unsupported for loop" % self.name)
            f = self.callee(s.iter)
            var = s.target.id
            if f in ("_prange", "prange", "numba.prange"):
                self.env[var] = INT
                return self.parallel(var, self.ex(s.iter.args[0]), s.body, rest, result)
            if f != "range":
                raise TranslateError("%s: loop over %s" % (self.name, f))
            bound = self.ex(s.iter.args[0])
            if self.ty(s.iter.args[0]) != INT:
                raise TranslateError("%s: non-integer loop bound" % self.name)
            self.env[var] = INT
            before = set(self.env)
            asg = self.assigned(s.body)
            carried = [n for n in asg if n in before and n != var]
            if parallel_ctx is not None:
                for n in carried:
                    if n in parallel_ctx["outs"]:
                        raise TranslateError("%s: output array %s written in an inner loop" % (self.name, n))
            saved = dict(self.env)
            body = self.block(s.body, self.tup(carried) if carried else "tt", parallel_ctx)
            # names first defined inside the loop body do not escape
            self.env = saved
            st = self.tup(carried) if carried else "tt"
            pt = self.pat(carried) if carried else "_"
            loop = "fold_left (fun st_ %s_ => let %s := st_ in let %s := Z.of_nat %s_ in\n%s) (seq 0 (Z.to_nat %s)) %s" % (
                cname(var), pt, cname(var), cname(var), body, bound, st)
            return "let %s := %s in\n%s" % (pt, loop, self.block(rest, result, parallel_ctx))
        if isinstance(s, ast.If):
            # early return
            if len(s.body) == 1 and isinstance(s.body[0], ast.Return) and not s.orelse:
                r = self.ret(s.body[0])
                return "if %s then %s else\n%s" % (self.cond(s.test), r, self.block(rest, result, parallel_ctx))
            asg = [n for n in self.assigned(s.body + s.orelse)]
            b1 = self.assigned(s.body); b2 = self.assigned(s.orelse)
            live = [n for n in asg if (n in b1 and n in b2) or n in self.env]
            for n in asg:
                if n not in live:
                    pass  # branch-local temporary
            saved = dict(self.env)
            t1 = self.block(s.body, lambda: self.tup(live))
            self.env = dict(saved)
            t2 = self.block(s.orelse, lambda: self.tup(live))
            for n in live:
                saved.setdefault(n, self.env.get(n, FLOAT))
            self.env = saved
            return "let %s := if %s then\n%s else\n%s in\n%s" % (self.pat(live), self.cond(s.test), t1, t2, self.block(rest, result, parallel_ctx))
        if isinstance(s, ast.Return):
            if rest:
                raise TranslateError("%s: code after return" % self.name)
            return self.ret(s)
        raise TranslateError("%s: unsupported statement %s (line %d)" % (self.name, type(s).__name__, s.lineno))

    def ret(self, s):
        return self.ex(s.value, FLOAT)

    def parallel(self, var, bound, body, rest, result):
        """for var in prange(bound): body  — body may only store out[var] (once each) into output arrays."""
        outs = [n for n in getattr(self, "outputs", [])] or [p for p in self.params if p in ("xx", "yy", "xyr", "xyi")]
        if not outs:
            raise TranslateError("%s: parallel loop without output arrays" % self.name)
        self.effects["has_parallel"] = True
        before = set(self.env)
        asg = [n for n in self.assigned(body) if n not in outs]
        carried = [n for n in asg if n in before and n != var]
        if carried:
            self.effects["carried_scalars"] += carried
            raise TranslateError("%s: scalars %s carried across parallel iterations" % (self.name, carried))
        # reads of output arrays inside the parallel body
        mod = ast.Module(body=body, type_ignores=[])
        store_bases = {id(n.value) for n in ast.walk(mod) if isinstance(n, ast.Subscript) and isinstance(n.ctx, ast.Store)}
        for node in ast.walk(mod):
            if isinstance(node, ast.Name) and isinstance(node.ctx, ast.Load) and node.id in outs and id(node) not in store_bases:
                self.effects["parallel_reads_of_written"].append(node.id)
                raise TranslateError("%s: parallel body reads output array %s" % (self.name, node.id))
        ctx = {"var": var, "outs": outs, "stored": {}}
        saved = dict(self.env)
        def fin():
            missing = [o for o in outs if o not in ctx["stored"]]
            if missing:
                raise TranslateError("%s: outputs %s not stored in the parallel body" % (self.name, missing))
            return "(" + ", ".join(ctx["stored"][o] for o in outs) + ")"
        inner = self.block(body, fin, ctx)
        self.env = saved
        rows = "map (fun %s_ => let %s := Z.of_nat %s_ in\n%s) (seq 0 (Z.to_nat %s))" % (cname(var), cname(var), cname(var), inner, bound)
        binds = "let rows_ := %s in\n" % rows
        n = len(outs)
        for i, o in enumerate(outs):
            binds += "let %s := map (fun r_ => proj%d_%d r_) rows_ in\n" % (cname(o), n, i + 1)
        self.par_outs = outs
        if not rest and result is None:
            return binds + self.tup(outs)
        return binds + self.block(rest, result)


class Helper:
    pass


class Translator:
    def __init__(self):
        self.helpers = {}
        self.defs = []
        self.effects = {}

    def add(self, node, gname=None, kernel=False):
        fn = Fn(self, node)
        if kernel:
            body = fn.block(node.body, None)
            outs = getattr(fn, "par_outs", None)
            if outs != ["xx", "yy", "xyr", "xyi"]:
                raise TranslateError("%s: kernel outputs %s" % (fn.name, outs))
            ret = "tuple4"
            params = [p for p in fn.params if p not in outs]
        else:
            rnode = [n for n in ast.walk(node) if isinstance(n, ast.Return)]
            body = fn.block(node.body, None)
            ret = None
            params = fn.params
        h = Helper()
        h.params = params; h.env = {p: fn.env[p] for p in params}; h.gname = gname or ("gen" + node.name)
        if kernel:
            h.ret = "tuple4"
        else:
            # return type from the last return statement
            last = [n for n in ast.walk(node) if isinstance(n, ast.Return)][-1]
            fn2 = fn
            try:
                rt = fn.ty(last.value)
            except TranslateError:
                rt = FLOAT
            h.ret = rt
        self.helpers[node.name] = h
        sig = " ".join("(%s : %s)" % (cname(p), COQ_TY[h.env[p]]) for p in params)
        self.defs.append("Definition %s (A : Arith) (cosT sinT : T A -> T A) %s :=\n%s." % (h.gname, sig, body))
        self.effects[node.name] = fn.effects
        return h


def translate_host(tr, node, kernel_name):
    """CUDA host wrapper: pattern-checked, then expressed as  if K = 0 then zeros else reduce (kernel args)."""
    name = node.name
    params = [a.arg for a in node.args.args]
    src = ast.unparse(node)
    dev = {}
    launched = None
    ret = None
    K_ok = False; guard_ok = False; blocks_ok = False
    for s in node.body:
        if isinstance(s, ast.Expr) and isinstance(s.value, ast.Constant):
            continue
        u = ast.unparse(s)
        if u == "K = starts.shape[0]":
            K_ok = True; continue
        if u.replace("\n", " ").startswith("if K == 0:") and "return (0.0, 0.0, 0.0, 0.0, 0.0)" in u:
            guard_ok = True; continue
        if isinstance(s, ast.Assign) and isinstance(s.value, ast.Call):
            t = s.targets[0].id
            v = ast.unparse(s.value)
            m = None
            for p in params:
                dt = "np.int64" if p == "starts" else "np.float64"
                if v == "cuda.to_device(np.ascontiguousarray(%s, dtype=%s))" % (p, dt):
                    m = p
            if m:
                dev[t] = m; continue
            if v == "cuda.device_array(K, dtype=np.float64)":
                dev[t] = "@out:" + t; continue
            if v.endswith(".copy_to_host()"):
                src_d = v[: -len(".copy_to_host()")]
                if dev.get(src_d, "").startswith("@out:") and t + "_d" == src_d:
                    continue
            raise TranslateError("%s: unsupported host statement %s" % (name, u))
        if u == "blocks = (K + THREADS_PER_BLOCK - 1) // THREADS_PER_BLOCK":
            blocks_ok = True; continue
        if isinstance(s, ast.Expr) and isinstance(s.value, ast.Call) and isinstance(s.value.func, ast.Subscript):
            f = s.value.func
            if ast.unparse(f) != "%s[blocks, THREADS_PER_BLOCK]" % kernel_name:
                raise TranslateError("%s: launch configuration %s" % (name, ast.unparse(f)))
            args = []
            for a in s.value.args:
                an = ast.unparse(a)
                if an in dev:
                    args.append(dev[an])
                elif an in params:
                    args.append(an)
                else:
                    raise TranslateError("%s: launch argument %s" % (name, an))
            launched = args; continue
        if isinstance(s, ast.Return):
            if ast.unparse(s) != "return _reduce_stats_nb(xx, yy, xyr, xyi)":
                raise TranslateError("%s: host return %s" % (name, ast.unparse(s)))
            ret = True; continue
        raise TranslateError("%s: unsupported host statement %s" % (name, u))
    if not (K_ok and guard_ok and blocks_ok and launched and ret):
        raise TranslateError("%s: host wrapper structure not recognised" % name)
    k = tr.helpers[kernel_name]
    want = k.params + ["@out:xx_d", "@out:yy_d", "@out:xyr_d", "@out:xyi_d"]
    if launched != want:
        raise TranslateError("%s: kernel launched with %s, expected %s" % (name, launched, want))
    sig = " ".join("(%s : %s)" % (cname(p), COQ_TY[PARAM_TYPES[p]]) for p in params)
    body = ("if (Z.of_nat (length starts) =? 0) then (ofZ A 0, ofZ A 0, ofZ A 0, ofZ A 0, ofZ A 0) else\n"
            "let '(xx, yy, xyr, xyi) := %s A cosT sinT %s in\n%s A cosT sinT xx yy xyr xyi" % (k.gname, " ".join(cname(p) for p in k.params), tr.helpers["_reduce_stats_nb"].gname))
    h = Helper(); h.params = params; h.env = {p: PARAM_TYPES[p] for p in params}; h.gname = "gen" + name; h.ret = "tuple5"
    tr.helpers[name] = h
    tr.defs.append("Definition %s (A : Arith) (cosT sinT : T A -> T A) %s :=\n%s." % (h.gname, sig, body))


CORE_HELPERS = ["_goertzel_real_imag", "_reduce_stats_nb", "_apply_detrend0_inplace_nb_mean", "_apply_detrend0_inplace_nb_val",
                "_apply_poly_detrend_inplace_nb_alpha", "_apply_poly_detrend_inplace_nb_rowdot"]
CORE_KERNELS = ["_stats_win_only_auto", "_stats_win_only_csd", "_stats_detrend0_auto", "_stats_detrend0_csd", "_stats_poly_auto", "_stats_poly_csd"]

PRELUDE = '''(* GENERATED by vp/translate_kernels.py from speckit/core.py and speckit/core_cuda.py — do not edit. *)
From Coq Require Import ZArith List Bool.
From SK Require Import Arith KernelPrims.
Import ListNotations.
Open Scope Z_scope.
'''


def translate(repo):
    tr = Translator()
    core = ast.parse(open(os.path.join(repo, "speckit", "core.py")).read())
    fns = {n.name: n for n in core.body if isinstance(n, ast.FunctionDef)}
    for name in CORE_HELPERS[1:]:
        if name not in fns:
            raise TranslateError("core.py: missing helper " + name)
        check_decorator(fns[name], parallel=False)
        tr.add(fns[name])
    for name in CORE_KERNELS:
        if name not in fns:
            raise TranslateError("core.py: missing kernel " + name)
        check_decorator(fns[name], parallel=True)
        tr.add(fns[name])
    cu = ast.parse(open(os.path.join(repo, "speckit", "core_cuda.py")).read())
    cfns = {n.name: n for n in cu.body if isinstance(n, ast.FunctionDef)}
    tpb = [n for n in cu.body if isinstance(n, ast.Assign) and ast.unparse(n.targets[0]) == "THREADS_PER_BLOCK"]
    if not tpb or not (isinstance(tpb[0].value, ast.Constant) and isinstance(tpb[0].value.value, int) and tpb[0].value.value >= 1):
        raise TranslateError("core_cuda.py: THREADS_PER_BLOCK must be a positive integer constant")
    for name in CORE_KERNELS:
        kn = name + "_cuda_kernel"
        if kn not in cfns or name + "_cuda" not in cfns:
            raise TranslateError("core_cuda.py: missing " + kn)
        tr.add(cfns[kn], kernel=True)
        translate_host(tr, cfns[name + "_cuda"], kn)
    text = PRELUDE + "\n\n".join(tr.defs) + "\n"
    return text, tr.effects


def check_decorator(node, parallel):
    d = [ast.unparse(x) for x in node.decorator_list]
    if len(d) != 1 or not d[0].startswith("_njit("):
        raise TranslateError("%s: unexpected decorators %s" % (node.name, d))


if __name__ == "__main__":
    repo = sys.argv[1] if len(sys.argv) > 1 else "/repo"
    text, eff = translate(repo)
    sys.stdout.write(text)
    sys.stderr.write(json.dumps(eff, indent=1)[:2000] + "\n")
