"""Kernel harness: structured case generator, implementation runners (Numba JIT, py_func, NumPy fallback, CUDA simulator),
direct definition oracle, QA (exact rational) evaluation of the generated/hand Coq models."""
import math, os
from fractions import Fraction
import numpy as np
from . import common

MODES = {-1: "win_only", 0: "detrend0", 1: "poly", 2: "poly"}


def gen_case(rng, small=True):
    L = rng.choice([1, 2, 3, 5, 8, 16, 33, 64] if small else [5, 16, 64, 100, 257])
    N = rng.choice([L, L + 1, L + 7, 2 * L, 4 * L + 3, 400])
    N = max(N, L)
    K = rng.choice([1, 2, 3, 7])
    kind = rng.choice(["random", "sorted", "repeat", "backtoback", "ends"])
    if kind == "backtoback":
        K = max(1, min(K, N // L)); starts = [i * L for i in range(K)]
    elif kind == "ends":
        starts = [0, N - L][:K] if K <= 2 else [0, N - L] + [rng.randint(0, N - L) for _ in range(K - 2)]
    else:
        starts = [rng.randint(0, N - L) for _ in range(K)]
        if kind == "sorted":
            starts.sort()
        if kind == "repeat" and K > 1:
            starts[1] = starts[0]
    order = rng.choice([-1, 0, 1, 2])
    wkind = rng.choice(["rect", "hann", "kaiser", "random"])
    if wkind == "rect":
        w = np.ones(L)
    elif wkind == "hann":
        w = np.hanning(L + 2)[1:-1] if L > 1 else np.ones(1)
    elif wkind == "kaiser":
        w = np.kaiser(L + 1, 3.0 * np.pi)[:-1]
    else:
        w = np.array([rng.uniform(-1, 1) for _ in range(L)])
    okind = rng.choice(["zero", "pi", "intbin", "fracbin", "near0", "random"])
    omega = {"zero": 0.0, "pi": math.pi, "intbin": 2 * math.pi * rng.randint(0, max(1, L // 2)) / L,
             "fracbin": 2 * math.pi * rng.uniform(0, L / 2) / L, "near0": rng.uniform(1e-4, 1e-2), "random": rng.uniform(0, math.pi)}[okind]
    dkind = rng.choice(["gauss", "sin", "delayed", "trend", "zeros", "cancel"])
    n = np.arange(N)
    g = np.random.default_rng(rng.randint(0, 2 ** 31))
    if dkind == "gauss":
        x = g.standard_normal(N); y = g.standard_normal(N)
    elif dkind == "sin":
        ph = rng.uniform(0, 6.28); x = np.cos(omega * n + ph) + 0.1 * g.standard_normal(N); y = 0.5 * np.cos(omega * n + ph - 0.7)
    elif dkind == "delayed":
        x = g.standard_normal(N); y = np.roll(x, rng.randint(1, 3))
    elif dkind == "trend":
        x = g.standard_normal(N) + 3 + 0.1 * n - 1e-3 * n ** 2; y = g.standard_normal(N) - 5 + 0.2 * n
    elif dkind == "zeros":
        x = np.zeros(N); y = g.standard_normal(N)
    else:
        # per-segment Im{X conj Y} cancels exactly in the mean: x repeats, y flips sign (back-to-back segments)
        K = 2 * max(1, min(2, N // (2 * L))); 
        if N < K * L:
            N = K * L; n = np.arange(N)
        a = g.standard_normal(L); b = g.standard_normal(L)
        x = np.zeros(N); y = np.zeros(N); starts = []
        for i in range(K):
            x[i * L:(i + 1) * L] = a; y[i * L:(i + 1) * L] = b if i % 2 == 0 else -b; starts.append(i * L)
    return dict(N=int(N), L=int(L), starts=[int(s) for s in starts], order=order, w=np.asarray(w, float), omega=float(omega),
                x=np.asarray(x, float), y=np.asarray(y, float), kinds=dict(starts=kind, win=wkind, omega=okind, data=dkind))


def build_Q(case):
    from speckit.core import _build_Q
    return _build_Q(case["L"], case["order"]) if case["order"] in (1, 2) else None


def impl_fn(backend, order, cross):
    import speckit.core as C
    name = "_stats_%s_%s" % (MODES[order], "csd" if cross else "auto")
    if backend == "numba":
        return getattr(C, name)
    if backend == "pyfunc":
        f = getattr(C, name)
        return getattr(f, "py_func", f)
    if backend == "numpy":
        return getattr(C, name + "_np")
    if backend == "numpy_chunk":
        # the same fallback with a tiny gather chunk, so that K > chunk exercises the multi-chunk path
        f = getattr(C, name + "_np")
        return lambda *a: f(*a, _chunk=2)
    if backend == "cuda":
        import speckit.core_cuda as CC
        return getattr(CC, name + "_cuda")
    raise KeyError(backend)


def run_impl(backend, case, cross, Q=None):
    f = impl_fn(backend, case["order"], cross)
    x = case["x"].copy(); y = case["y"].copy()
    st = np.asarray(case["starts"], dtype=np.int64)
    args = ([x, y] if cross else [x]) + [st, case["L"], case["w"].copy(), case["omega"]]
    if case["order"] in (1, 2):
        args.append(Q if Q is not None else build_Q(case))
    with np.errstate(all="ignore"):
        out = f(*args)
    touched = (not np.array_equal(x, case["x"])) or (cross and not np.array_equal(y, case["y"]))
    return tuple(float(v) for v in out), touched


def definition(case, cross, Q=None):
    """X_k(w) = sum_n w[n] (x_k[n] - trend_k[n]) exp(-i w n), in extended precision; means and M2 as the property states."""
    L, om = case["L"], case["omega"]
    w = case["w"].astype(np.longdouble)
    n = np.arange(L).astype(np.longdouble)
    e = np.cos(np.longdouble(om) * n) - 1j * np.sin(np.longdouble(om) * n)
    Qm = None
    if case["order"] in (1, 2):
        Qm = (Q if Q is not None else build_Q(case)).astype(np.longdouble)
    def X(z, s):
        seg = z[s:s + L].astype(np.longdouble)
        if case["order"] == 0:
            seg = seg - seg.mean()
        elif Qm is not None:
            seg = seg - Qm @ (Qm.T @ seg)
        return complex(np.sum(seg * w * e))
    xs = [X(case["x"], s) for s in case["starts"]]
    ys = [X(case["y"], s) for s in case["starts"]] if cross else xs
    xx = np.array([abs(a) ** 2 for a in xs]); yy = np.array([abs(b) ** 2 for b in ys])
    xy = np.array([a * np.conj(b) for a, b in zip(xs, ys)]) if cross else xx.astype(complex)
    mu = xy.mean()
    M2 = float(np.mean(np.abs(xy - mu) ** 2)) if len(xs) >= 2 else 0.0
    return (float(xx.mean()), float(yy.mean()), float(mu.real), float(mu.imag), M2)


def scale(case, cross):
    L = case["L"]
    sx = max(float(np.sum(np.abs(case["w"] * case["x"][s:s + L]))) for s in case["starts"]) + float(np.sum(np.abs(case["w"]))) * float(np.max(np.abs(case["x"])) if case["order"] >= 0 else 0)
    sy = sx
    if cross:
        sy = max(float(np.sum(np.abs(case["w"] * case["y"][s:s + L]))) for s in case["starts"]) + float(np.sum(np.abs(case["w"]))) * float(np.max(np.abs(case["y"])) if case["order"] >= 0 else 0)
    return max(sx, 1e-300), max(sy, 1e-300)


def budget(case, cross):
    """Rounding budget of the recurrence relative to the statistic's scale (see DESIGN 7/C01)."""
    u = 2.0 ** -53
    L = case["L"]
    s2 = max(math.sin(case["omega"]) ** 2, 1e-7)
    amp = 64 * u * (L + 4 / s2) * (3 if case["order"] in (1, 2) else 1) + 1e-11
    sx, sy = scale(case, cross)
    return amp, (sx * sx, sy * sy, sx * sy, sx * sy, (sx * sy) ** 2)


def close(a, b, case, cross, mult=1.0):
    """a: statistics under test, b: reference. The scatter statistic M2 = mean |z_k - mu|^2 inherits the error d = amp*sx*sy of the
    per-segment products through the differences z_k - mu, so its budget is 2*sqrt(M2)*(2d) + (2d)^2 — NOT amp*(sx*sy)^2:
    a one-pass mean|z|^2 - |mu|^2 (error ~ eps*|mu|^2) is outside it when the scatter is small compared with the mean."""
    amp, sc = budget(case, cross)
    for i, (p, q, s) in enumerate(zip(a, b, sc)):
        if i == 4:
            d = mult * amp * math.sqrt(s)
            ref = math.sqrt(max(float(q), 0.0)) if q == q else 0.0
            if not (abs(p - q) <= 4 * d * ref + 4 * d * d + 1e-300) or p < 0:
                return i
        elif not (abs(p - q) <= mult * amp * s):
            return i
    return None


# ----------------------------------------------------------------------------- Coq (FloatA, vm_compute)
# The models are evaluated at binary64 with sequential rounding; the implementation (fastmath / BLAS / pairwise sums)
# differs from that by rounding only, so both are compared within the rounding budget above.
from .common import fhex


def flist(v):
    return "[" + "; ".join(fhex(t) for t in v) + "]"


def coq_term(case, cross, which, Q=None, phasor=None):
    """which in {'numba','cuda','numpy'}: generated kernels for numba/cuda, hand model for numpy."""
    c, s = float(np.cos(case["omega"])), float(np.sin(case["omega"]))
    if which == "cuda":
        c, s = math.cos(case["omega"]), math.sin(case["omega"])
    name = "gen_stats_%s_%s%s" % (MODES[case["order"]], "csd" if cross else "auto", "_cuda" if which == "cuda" else "")
    xs = flist(case["x"]) + (" " + flist(case["y"]) if cross else "")
    st = "[" + "; ".join("%d%%Z" % t for t in case["starts"]) + "]"
    qarg = ""
    if case["order"] in (1, 2):
        Qm = Q if Q is not None else build_Q(case)
        qarg = " [" + "; ".join(flist(r) for r in Qm) + "]"
    if which == "numpy":
        er, ei = phasor
        samp = {-1: "samp_win FloatA %s W", 0: "samp_mean0 FloatA %s W %d" % ("%s", case["L"]), 1: "samp_poly FloatA %s W QQ %d" % ("%s", case["L"]), 2: "samp_poly FloatA %s W QQ %d" % ("%s", case["L"])}[case["order"]]
        pre = "let W : list float := %s in let QQ : list (list float) := %s in " % (flist(case["w"]), qarg.strip() or "[]")
        if cross:
            return "(%s np_csd FloatA %s %s (%s) (%s) %s %d)" % (pre, flist(er), flist(ei), samp % flist(case["x"]), samp % flist(case["y"]), st, case["L"])
        return "(%s np_auto FloatA %s %s (%s) %s %d)" % (pre, flist(er), flist(ei), samp % flist(case["x"]), st, case["L"])
    return "(%s FloatA (fun _ => %s) (fun _ => %s) %s %s %d %s %s%s)" % (name, fhex(c), fhex(s), xs, st, case["L"], flist(case["w"]), fhex(case["omega"]), qarg)


HEADER = ("From Coq Require Import ZArith List PrimFloat.\nFrom SK Require Import Arith KernelPrims Kernels.\nFrom SK.gen Require Import KernelsGen.\n"
          "Import ListNotations.\nOpen Scope Z_scope.\nOpen Scope float_scope.\n")


def run_models(named_terms, shard=25):
    files = {}
    keys = [k for k, _ in named_terms]
    for i in range(0, len(named_terms), shard):
        body = HEADER + "".join("Eval vm_compute in %s.\n" % t for _, t in named_terms[i:i + shard])
        files["kern_%d_%d" % (os.getpid(), i)] = (body, keys[i:i + shard])
    res = common.run_case_files({n: b for n, (b, _) in files.items()})
    out = {}
    for n, (body, ks) in files.items():
        rc, txt = res[n]
        evs = common.parse_evals(txt)
        if rc != 0 or len(evs) != len(ks):
            for k in ks:
                out[k] = ("error", txt[-600:])
            continue
        for k, e in zip(ks, evs):
            try:
                v = tuple(float(t) for t in common.tokens(e))
            except Exception:
                v = ()
            out[k] = v if len(v) == 5 else ("error", "parse: " + e[:200])
    return out
