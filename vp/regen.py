"""Regenerate coq/gen/*.v from /repo's working tree (fail-closed translators). Returns per-file status."""
import os, json, traceback
from . import common


def regen_kernels():
    from . import translate_kernels as tk
    path = os.path.join(common.COQ, "gen", "KernelsGen.v")
    try:
        text, eff = tk.translate(common.REPO)
    except Exception as e:
        # leave a stub that fails to compile, so dependent obligations break visibly
        common.write_if_changed(path, "(* translation failed: %s *)\nFail Definition translation_failed := 0.\nDefinition translation_failed : False := I.\n" % str(e).replace("*)", "* )"))
        return dict(ok=False, error="%s: %s" % (type(e).__name__, e), effects=None)
    common.write_if_changed(path, text)
    common.write_if_changed(os.path.join(common.COQ, "gen", "kernel_effects.json"), json.dumps(eff, indent=1))
    return dict(ok=True, error=None, effects=eff)


def main():
    os.makedirs(os.path.join(common.COQ, "gen"), exist_ok=True)
    r = regen_kernels()
    print("kernels:", "ok" if r["ok"] else r["error"])
    try:
        from . import translate_attrs
        r2 = translate_attrs.regen()
        print("attrs:", "ok" if r2["ok"] else r2["error"])
    except ImportError:
        pass


if __name__ == "__main__":
    main()
