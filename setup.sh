#!/bin/bash
# Build the Coq development from files on disk only (offline). Regenerates coq/gen/*.v from /repo first.
cd "$(dirname "$0")"
export PYTHONPATH=/repo PYTHONHASHSEED=0 NUMBA_ENABLE_CUDASIM=1 MDOVALE_SPECKIT_VERIF=1 PYTHONDONTWRITEBYTECODE=1
mkdir -p evidence replays coq/cases coq/gen
if [ -f vp/regen.py ]; then /venv/bin/python -m vp.regen || echo "regen failed (checks will report it)"; fi
cd coq && coq_makefile -f _CoqProject -o Makefile >/dev/null && timeout 3000 make -k -j16 2>&1 | tail -5
exit 0
